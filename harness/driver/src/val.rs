//! The value type every harness-built parser returns, and the closure menu.
//! Must stay in sync with coq/Model/Syntax.v (val) and coq/Model/Menu.v.

use crate::sexp::{hex, to_hex, Sexp};

#[derive(Debug, Clone, PartialEq)]
pub enum Val {
    Unit,
    Bool(bool),
    Num(i128),
    Bytes(Vec<u8>),
    List(Vec<Val>),
    Tuple(Vec<Val>),
    Some(Box<Val>),
    None,
}

impl std::fmt::Display for Val {
    fn fmt(&self, f: &mut std::fmt::Formatter<'_>) -> std::fmt::Result {
        match self {
            Val::Unit => write!(f, "unit"),
            Val::Bool(true) => write!(f, "true"),
            Val::Bool(false) => write!(f, "false"),
            Val::None => write!(f, "none"),
            Val::Num(z) => write!(f, "(num {})", z),
            Val::Bytes(b) => write!(f, "(bytes {})", to_hex(b)),
            Val::List(l) => {
                write!(f, "(list")?;
                for x in l {
                    write!(f, " {}", x)?;
                }
                write!(f, ")")
            }
            Val::Tuple(l) => {
                write!(f, "(tuple")?;
                for x in l {
                    write!(f, " {}", x)?;
                }
                write!(f, ")")
            }
            Val::Some(v) => write!(f, "(some {})", v),
        }
    }
}

pub fn val_of(s: &Sexp) -> Result<Val, String> {
    match s {
        Sexp::A(a) => match a.as_str() {
            "unit" => Ok(Val::Unit),
            "true" => Ok(Val::Bool(true)),
            "false" => Ok(Val::Bool(false)),
            "none" => Ok(Val::None),
            _ => Err(format!("bad value atom {}", a)),
        },
        Sexp::L(l) if !l.is_empty() => match l[0].atom()? {
            "num" => Ok(Val::Num(l[1].atom()?.parse::<i128>().map_err(|e| e.to_string())?)),
            "bytes" => Ok(Val::Bytes(hex(&l[1])?)),
            "list" => Ok(Val::List(l[1..].iter().map(val_of).collect::<Result<_, _>>()?)),
            "tuple" => Ok(Val::Tuple(l[1..].iter().map(val_of).collect::<Result<_, _>>()?)),
            "some" => Ok(Val::Some(Box::new(val_of(&l[1])?))),
            h => Err(format!("bad value head {}", h)),
        },
        _ => Err("bad value".into()),
    }
}

// ---------------------------------------------------------------- menu (coq/Model/Menu.v)

pub fn guard_menu(k: u32, v: &Val) -> bool {
    match k {
        0 => true,
        1 => false,
        2 => matches!(v, Val::Num(z) if *z < 10),
        3 => match v {
            Val::Bytes(b) => !b.is_empty(),
            Val::List(l) => !l.is_empty(),
            _ => false,
        },
        4 => matches!(v, Val::Num(z) if z.rem_euclid(2) == 0),
        _ => true,
    }
}

pub fn val_len(v: &Val) -> i128 {
    match v {
        Val::Bytes(b) => b.len() as i128,
        Val::List(l) | Val::Tuple(l) => l.len() as i128,
        _ => 0,
    }
}

pub fn parse_menu(k: u32, txt: &str, v: Val) -> Result<Val, String> {
    match k {
        0 => Ok(Val::Num(val_len(&v))),
        1 => match v {
            Val::Bytes(b) => match std::str::from_utf8(&b) {
                Ok(s) => s.parse::<u32>().map(|x| Val::Num(x as i128)).map_err(|e| e.to_string()),
                // mirrors parse_os_str's text for non-UTF-8 input
                Err(_) => Err(format!("{} is not a valid utf8", String::from_utf8_lossy(&b))),
            },
            _ => Err(txt.to_string()),
        },
        2 => Err(txt.to_string()),
        3 => match v {
            Val::Num(z) if z < 100 => Ok(Val::Num(z)),
            _ => Err(txt.to_string()),
        },
        _ => Ok(v),
    }
}

pub fn map_menu(k: u32, v: Val) -> Val {
    match k {
        0 => v,
        1 => Val::Num(val_len(&v)),
        2 => Val::Tuple(vec![v]),
        3 => match v {
            Val::Bool(b) => Val::Bool(!b),
            v => v,
        },
        4 => match v {
            Val::Num(z) => Val::Num(z + 1),
            v => v,
        },
        _ => v,
    }
}
