//! Cases that go straight to the verification hooks of the library (`--cfg bpaf_verif`).
use crate::build::leak;
use crate::sexp::{hex, to_hex, Sexp};
use bpaf::ShellComp;

fn text(s: &Sexp) -> Result<String, String> {
    String::from_utf8(hex(s)?).map_err(|_| "not UTF-8".to_string())
}
fn opt_text(s: &Sexp) -> Result<Option<String>, String> {
    if s.is_atom("-") {
        Ok(None)
    } else {
        text(s).map(Some)
    }
}
fn opt_static(s: &Sexp) -> Result<Option<&'static str>, String> {
    if s.is_atom("-") {
        Ok(None)
    } else {
        Ok(Some(leak(hex(s)?)?))
    }
}

pub fn run_shell(l: &[Sexp]) -> (String, String) {
    let id = l[0].atom().unwrap_or("?").to_string();
    let body = || -> Result<String, String> {
        let rev: usize = l[1].atom()?.parse().map_err(|_| "bad rev".to_string())?;
        let mut items = Vec::new();
        let mut ops = Vec::new();
        let mut lit = String::new();
        let mut app = String::new();
        for f in &l[2..] {
            if let Some(xs) = f.headed("items") {
                for x in xs {
                    let x = x.headed("i").ok_or("bad item")?;
                    items.push((text(&x[0])?, text(&x[1])?, opt_text(&x[2])?, opt_text(&x[3])?));
                }
            } else if let Some(xs) = f.headed("ops") {
                for x in xs {
                    if let Some(m) = x.headed("file") {
                        ops.push(ShellComp::File { mask: opt_static(&m[0])? });
                    } else if let Some(m) = x.headed("dir") {
                        ops.push(ShellComp::Dir { mask: opt_static(&m[0])? });
                    } else if let Some(m) = x.headed("raw") {
                        ops.push(ShellComp::Raw {
                            bash: leak(hex(&m[0])?)?,
                            zsh: leak(hex(&m[1])?)?,
                            fish: leak(hex(&m[2])?)?,
                            elvish: leak(hex(&m[3])?)?,
                        });
                    } else if x.headed("nothing").is_some() {
                        ops.push(ShellComp::Nothing);
                    } else {
                        return Err("bad op".into());
                    }
                }
            } else if let Some(x) = f.headed("lit") {
                lit = text(&x[0])?;
            } else if let Some(x) = f.headed("app") {
                app = text(&x[0])?;
            }
        }
        let r = std::panic::catch_unwind(std::panic::AssertUnwindSafe(|| {
            bpaf::verif_hooks::verif_render_shell(rev, &items, &ops, &lit, &app)
        }));
        Ok(match r {
            Ok(s) => format!("SHELL\t{}", to_hex(s.as_bytes())),
            Err(_) => "PANIC\t-".to_string(),
        })
    };
    match body() {
        Ok(s) => (id, s),
        Err(e) => (id, format!("BADCASE\t{}", e)),
    }
}

fn short_of(s: &Sexp) -> Result<Option<char>, String> {
    if s.is_atom("-") {
        return Ok(None);
    }
    let n: u32 = s.atom()?.parse().map_err(|_| "bad code point".to_string())?;
    Ok(Some(char::from_u32(n).ok_or("not a scalar value")?))
}

pub fn run_argmatch(l: &[Sexp]) -> (String, String) {
    let id = l[0].atom().unwrap_or("?").to_string();
    let body = || -> Result<String, String> {
        let arg = text(&l[1])?;
        let short = short_of(&l[2])?;
        let long = opt_static(&l[3])?;
        Ok(match bpaf::verif_hooks::verif_arg_matches(&arg, short, long) {
            Some(n) => format!("MATCH\t{}", to_hex(n.as_bytes())),
            None => "MATCH\t-".to_string(),
        })
    };
    match body() {
        Ok(s) => (id, s),
        Err(e) => (id, format!("BADCASE\t{}", e)),
    }
}

pub fn run_cmdmatch(l: &[Sexp]) -> (String, String) {
    let id = l[0].atom().unwrap_or("?").to_string();
    let body = || -> Result<String, String> {
        let arg = text(&l[1])?;
        let name = leak(hex(&l[2])?)?;
        let short = short_of(&l[3])?;
        Ok(format!("MATCH\t{}", bpaf::verif_hooks::verif_cmd_matches(&arg, name, short).is_some()))
    };
    match body() {
        Ok(s) => (id, s),
        Err(e) => (id, format!("BADCASE\t{}", e)),
    }
}
