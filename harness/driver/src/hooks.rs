//! Cases that go straight to the verification hooks of the library (`--cfg bpaf_verif`).
use crate::build::leak;
use crate::sexp::{hex, to_hex, Sexp};
#[cfg(feature = "autocomplete")]
use bpaf::ShellComp;

fn text(s: &Sexp) -> Result<String, String> {
    String::from_utf8(hex(s)?).map_err(|_| "not UTF-8".to_string())
}
fn opt_text(s: &Sexp) -> Result<Option<String>, String> {
    if s.is_atom("-") {
        Ok(None)
    } else {
        text(s).map(Some)
    }
}
fn opt_static(s: &Sexp) -> Result<Option<&'static str>, String> {
    if s.is_atom("-") {
        Ok(None)
    } else {
        Ok(Some(leak(hex(s)?)?))
    }
}

pub fn run_shell(l: &[Sexp]) -> (String, String) {
    let id = l[0].atom().unwrap_or("?").to_string();
    let body = || -> Result<String, String> {
        let rev: usize = l[1].atom()?.parse().map_err(|_| "bad rev".to_string())?;
        let mut items = Vec::new();
        let mut ops = Vec::new();
        let mut lit = String::new();
        let mut app = String::new();
        for f in &l[2..] {
            if let Some(xs) = f.headed("items") {
                for x in xs {
                    let x = x.headed("i").ok_or("bad item")?;
                    items.push((text(&x[0])?, text(&x[1])?, opt_text(&x[2])?, opt_text(&x[3])?));
                }
            } else if let Some(xs) = f.headed("ops") {
                for x in xs {
                    if let Some(m) = x.headed("file") {
                        ops.push(ShellComp::File { mask: opt_static(&m[0])? });
                    } else if let Some(m) = x.headed("dir") {
                        ops.push(ShellComp::Dir { mask: opt_static(&m[0])? });
                    } else if let Some(m) = x.headed("raw") {
                        ops.push(ShellComp::Raw {
                            bash: leak(hex(&m[0])?)?,
                            zsh: leak(hex(&m[1])?)?,
                            fish: leak(hex(&m[2])?)?,
                            elvish: leak(hex(&m[3])?)?,
                        });
                    } else if x.headed("nothing").is_some() {
                        ops.push(ShellComp::Nothing);
                    } else {
                        return Err("bad op".into());
                    }
                }
            } else if let Some(x) = f.headed("lit") {
                lit = text(&x[0])?;
            } else if let Some(x) = f.headed("app") {
                app = text(&x[0])?;
            }
        }
        let r = std::panic::catch_unwind(std::panic::AssertUnwindSafe(|| {
            bpaf::verif_hooks::verif_render_shell(rev, &items, &ops, &lit, &app)
        }));
        Ok(match r {
            Ok(s) => format!("SHELL\t{}", to_hex(s.as_bytes())),
            Err(_) => "PANIC\t-".to_string(),
        })
    };
    match body() {
        Ok(s) => (id, s),
        Err(e) => (id, format!("BADCASE\t{}", e)),
    }
}

fn short_of(s: &Sexp) -> Result<Option<char>, String> {
    if s.is_atom("-") {
        return Ok(None);
    }
    let n: u32 = s.atom()?.parse().map_err(|_| "bad code point".to_string())?;
    Ok(Some(char::from_u32(n).ok_or("not a scalar value")?))
}

pub fn run_argmatch(l: &[Sexp]) -> (String, String) {
    let id = l[0].atom().unwrap_or("?").to_string();
    let body = || -> Result<String, String> {
        let arg = text(&l[1])?;
        let short = short_of(&l[2])?;
        let long = opt_static(&l[3])?;
        Ok(match bpaf::verif_hooks::verif_arg_matches(&arg, short, long) {
            Some(n) => format!("MATCH\t{}", to_hex(n.as_bytes())),
            None => "MATCH\t-".to_string(),
        })
    };
    match body() {
        Ok(s) => (id, s),
        Err(e) => (id, format!("BADCASE\t{}", e)),
    }
}

#[cfg(feature = "autocomplete")]
fn shell_op(x: &Sexp) -> Result<ShellComp, String> {
    if let Some(m) = x.headed("file") {
        Ok(ShellComp::File { mask: opt_static(&m[0])? })
    } else if let Some(m) = x.headed("dir") {
        Ok(ShellComp::Dir { mask: opt_static(&m[0])? })
    } else if let Some(m) = x.headed("raw") {
        Ok(ShellComp::Raw { bash: leak(hex(&m[0])?)?, zsh: leak(hex(&m[1])?)?, fish: leak(hex(&m[2])?)?, elvish: leak(hex(&m[3])?)? })
    } else if x.headed("nothing").is_some() {
        Ok(ShellComp::Nothing)
    } else {
        Err("bad op".into())
    }
}

#[cfg(feature = "autocomplete")]
fn show_op(op: &ShellComp) -> String {
    let o = |m: &Option<&'static str>| m.map_or("-".to_string(), |m| to_hex(m.as_bytes()));
    match op {
        ShellComp::File { mask } => format!("file:{}", o(mask)),
        ShellComp::Dir { mask } => format!("dir:{}", o(mask)),
        ShellComp::Raw { bash, zsh, fish, elvish } => format!(
            "raw:{}:{}:{}:{}",
            to_hex(bash.as_bytes()),
            to_hex(zsh.as_bytes()),
            to_hex(fish.as_bytes()),
            to_hex(elvish.as_bytes())
        ),
        ShellComp::Nothing => "nothing".to_string(),
        #[allow(unreachable_patterns)]
        _ => "other".to_string(),
    }
}

/// `(comps ID (hints (flag D G H S L) (argument D G H S L MV) (command D G H NAME S) (value D G H BODY A) (meta D G H META A)
/// (shell D G H OP A) ..) (arg HEX) (pos 0|1) (named 0|1) (prefix na | (s N) | (l HEX)))`: Complete::complete on explicit hints
#[cfg(feature = "autocomplete")]
pub fn run_comps(l: &[Sexp]) -> (String, String) {
    use bpaf::verif_hooks::VerifComp;
    let id = l[0].atom().unwrap_or("?").to_string();
    let body = || -> Result<String, String> {
        let mut comps = Vec::new();
        let mut arg = String::new();
        let (mut pos_only, mut named) = (false, false);
        let (mut ps, mut pl): (Option<char>, Option<String>) = (None, None);
        let flag01 = |x: &Sexp| -> bool { !x.is_atom("0") };
        for f in &l[1..] {
            if let Some(xs) = f.headed("hints") {
                for x in xs {
                    let (kind, a) = if let Some(a) = x.headed("flag") { ("flag", a) }
                        else if let Some(a) = x.headed("argument") { ("argument", a) }
                        else if let Some(a) = x.headed("command") { ("command", a) }
                        else if let Some(a) = x.headed("value") { ("value", a) }
                        else if let Some(a) = x.headed("meta") { ("meta", a) }
                        else if let Some(a) = x.headed("shell") { ("shell", a) }
                        else { return Err("bad hint".into()) };
                    let depth: usize = a[0].atom()?.parse().map_err(|_| "bad depth".to_string())?;
                    let group = opt_text(&a[1])?;
                    let help = opt_text(&a[2])?;
                    comps.push(match kind {
                        "flag" => VerifComp::Flag { depth, group, help, short: short_of(&a[3])?, long: opt_static(&a[4])? },
                        "argument" => VerifComp::Argument { depth, group, help, short: short_of(&a[3])?, long: opt_static(&a[4])?, metavar: leak(hex(&a[5])?)? },
                        "command" => VerifComp::Command { depth, group, help, name: leak(hex(&a[3])?)?, short: short_of(&a[4])? },
                        "value" => VerifComp::Value { depth, group, help, body: text(&a[3])?, is_argument: flag01(&a[4]) },
                        "meta" => VerifComp::Metavariable { depth, group, help, meta: leak(hex(&a[3])?)?, is_argument: flag01(&a[4]) },
                        _ => VerifComp::Shell { depth, group, help, script: shell_op(&a[3])?, is_argument: flag01(&a[4]) },
                    });
                }
            } else if let Some(x) = f.headed("arg") {
                arg = text(&x[0])?;
            } else if let Some(x) = f.headed("pos") {
                pos_only = flag01(&x[0]);
            } else if let Some(x) = f.headed("named") {
                named = flag01(&x[0]);
            } else if let Some(x) = f.headed("prefix") {
                if let Some(s) = x[0].headed("s") {
                    ps = short_of(&s[0])?;
                } else if let Some(s) = x[0].headed("l") {
                    pl = Some(text(&s[0])?);
                }
            }
        }
        let r = std::panic::catch_unwind(std::panic::AssertUnwindSafe(|| {
            bpaf::verif_hooks::verif_complete(&comps, &arg, pos_only, named, ps, pl.as_deref())
        }));
        Ok(match r {
            Ok((items, ops)) => {
                let o = |m: &Option<String>| m.as_ref().map_or("-".to_string(), |m| to_hex(m.as_bytes()));
                let its: Vec<String> = items
                    .iter()
                    .map(|i| format!("{}:{}:{}:{}", to_hex(i.0.as_bytes()), to_hex(i.1.as_bytes()), o(&i.2), o(&i.3)))
                    .collect();
                let os: Vec<String> = ops.iter().map(show_op).collect();
                format!("COMPLETE\t{}\t{}", its.join(";"), os.join(";"))
            }
            Err(_) => "PANIC\t-".to_string(),
        })
    };
    match body() {
        Ok(s) => (id, s),
        Err(e) => (id, format!("BADCASE\t{}", e)),
    }
}

pub fn run_cmdmatch(l: &[Sexp]) -> (String, String) {
    let id = l[0].atom().unwrap_or("?").to_string();
    let body = || -> Result<String, String> {
        let arg = text(&l[1])?;
        let name = leak(hex(&l[2])?)?;
        let short = short_of(&l[3])?;
        Ok(format!("MATCH\t{}", bpaf::verif_hooks::verif_cmd_matches(&arg, name, short).is_some()))
    };
    match body() {
        Ok(s) => (id, s),
        Err(e) => (id, format!("BADCASE\t{}", e)),
    }
}

/// `(rdoc ID (doc (t STYLE HEX) (s BLOCK) (e BLOCK) ..) (full 0|1) (th HEX ..))`: the html and roff renderers applied to an
/// explicit token list (balanced or not), through `Doc::verif_from_tokens` / `Doc::verif_render_roff`
#[cfg(feature = "docgen")]
pub fn run_rdoc(l: &[Sexp]) -> (String, String) {
    let id = l[0].atom().unwrap_or("?").to_string();
    let body = || -> Result<String, String> {
        let mut toks: Vec<(u8, u8, String)> = Vec::new();
        let mut full = true;
        let mut th: Vec<String> = Vec::new();
        for f in &l[1..] {
            if let Some(xs) = f.headed("doc") {
                for x in xs {
                    if let Some(t) = x.headed("t") {
                        let st = match t[0].atom()? {
                            "text" => 0,
                            "emphasis" => 1,
                            "literal" => 2,
                            "metavar" => 3,
                            "invalid" => 4,
                            o => return Err(format!("bad style {}", o)),
                        };
                        toks.push((0, st, text(&t[1])?));
                    } else {
                        let (k, b) = if let Some(b) = x.headed("s") { (1, b) } else if let Some(b) = x.headed("e") { (2, b) } else {
                            return Err("bad token".into());
                        };
                        let code = match b[0].atom()? {
                            "header" => 0,
                            "section2" => 1,
                            "section3" => 2,
                            "itemterm" => 3,
                            "itembody" => 4,
                            "definitionlist" => 5,
                            "block" => 6,
                            "inlineblock" => 7,
                            "termref" => 8,
                            "meta" => 9,
                            "mono" => 10,
                            o => return Err(format!("bad block {}", o)),
                        };
                        toks.push((k, code, String::new()));
                    }
                }
            } else if let Some(x) = f.headed("full") {
                full = !x[0].is_atom("0");
            } else if let Some(xs) = f.headed("th") {
                for x in xs {
                    th.push(text(x)?);
                }
            }
        }
        let doc = bpaf::Doc::verif_from_tokens(&toks);
        let html = match std::panic::catch_unwind(std::panic::AssertUnwindSafe(|| doc.render_html(full, false))) {
            Ok(s) => to_hex(s.as_bytes()),
            Err(_) => "PANIC".to_string(),
        };
        let thr: Vec<&str> = th.iter().map(String::as_str).collect();
        let roff = match std::panic::catch_unwind(std::panic::AssertUnwindSafe(|| doc.verif_render_roff(&thr))) {
            Ok(s) => to_hex(s.as_bytes()),
            Err(_) => "PANIC".to_string(),
        };
        // the console renderer on the same document (monochrome, width 100)
        let console = match std::panic::catch_unwind(std::panic::AssertUnwindSafe(|| doc.monochrome(full))) {
            Ok(s) => to_hex(s.as_bytes()),
            Err(_) => "PANIC".to_string(),
        };
        let md = match std::panic::catch_unwind(std::panic::AssertUnwindSafe(|| doc.render_markdown(full))) {
            Ok(s) => to_hex(s.as_bytes()),
            Err(_) => "PANIC".to_string(),
        };
        Ok(format!("RDOC\t{}\t{}\t{}\t{}", html, roff, console, md))
    };
    match body() {
        Ok(s) => (id, s),
        Err(e) => (id, format!("BADCASE\t{}", e)),
    }
}
