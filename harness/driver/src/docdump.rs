//! Turn a `bpaf::Doc` into the token list of the shared case language, through its derived `Debug`
//! (payload + tokens), so that no hook in the library is needed.
use crate::sexp::to_hex;

fn unescape_debug(s: &str) -> Result<(String, usize), String> {
    // s starts right after the opening quote; returns (unescaped, index of the closing quote)
    let b = s.as_bytes();
    let mut out = String::new();
    let mut i = 0;
    while i < b.len() {
        match b[i] {
            b'"' => return Ok((out, i)),
            b'\\' => {
                i += 1;
                match b.get(i) {
                    Some(b'n') => out.push('\n'),
                    Some(b't') => out.push('\t'),
                    Some(b'r') => out.push('\r'),
                    Some(b'0') => out.push('\0'),
                    Some(b'\\') => out.push('\\'),
                    Some(b'"') => out.push('"'),
                    Some(b'\'') => out.push('\''),
                    Some(b'u') => {
                        // \u{XXXX}
                        let close = s[i..].find('}').ok_or("bad \\u escape")? + i;
                        let hex = &s[i + 2..close];
                        let cp = u32::from_str_radix(hex, 16).map_err(|e| e.to_string())?;
                        out.push(char::from_u32(cp).ok_or("bad code point")?);
                        i = close;
                    }
                    _ => return Err("unknown escape".into()),
                }
                i += 1;
            }
            _ => {
                let ch = s[i..].chars().next().unwrap();
                out.push(ch);
                i += ch.len_utf8();
            }
        }
    }
    Err("unterminated string".into())
}

/// `(doc (t STYLE HEX) (s BLOCK) (e BLOCK) ...)`
pub fn doc_sexp(doc: &bpaf::Doc) -> Result<String, String> {
    let dbg = format!("{:?}", doc);
    let p0 = dbg.find("payload: \"").ok_or("no payload")? + "payload: \"".len();
    let (payload, endq) = unescape_debug(&dbg[p0..])?;
    let rest = &dbg[p0 + endq..];
    let t0 = rest.find("tokens: [").ok_or("no tokens")? + "tokens: [".len();
    let toks = &rest[t0..];
    let mut out = String::from("(doc");
    let mut pos = 0usize;
    let mut cur = toks;
    loop {
        cur = cur.trim_start_matches(|c| c == ',' || c == ' ');
        if cur.starts_with(']') || cur.is_empty() {
            break;
        }
        if let Some(r) = cur.strip_prefix("Text { bytes: ") {
            let n_end = r.find(',').ok_or("bad text token")?;
            let n: usize = r[..n_end].parse().map_err(|_| "bad byte count".to_string())?;
            let r2 = r[n_end..].strip_prefix(", style: ").ok_or("bad text token style")?;
            let s_end = r2.find(' ').ok_or("bad style")?;
            let style = r2[..s_end].to_lowercase();
            let text = payload.get(pos..pos + n).ok_or("payload slice")?;
            pos += n;
            out.push_str(&format!(" (t {} {})", style, to_hex(text.as_bytes())));
            cur = r2[s_end..].strip_prefix(" }").ok_or("bad text token end")?;
        } else if let Some(r) = cur.strip_prefix("BlockStart(") {
            let e = r.find(')').ok_or("bad block")?;
            out.push_str(&format!(" (s {})", r[..e].to_lowercase()));
            cur = &r[e + 1..];
        } else if let Some(r) = cur.strip_prefix("BlockEnd(") {
            let e = r.find(')').ok_or("bad block")?;
            out.push_str(&format!(" (e {})", r[..e].to_lowercase()));
            cur = &r[e + 1..];
        } else {
            return Err(format!("unknown token at {:.40}", cur));
        }
    }
    out.push(')');
    Ok(out)
}
