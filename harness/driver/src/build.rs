//! Build a real bpaf parser from a case's s-expression, using only bpaf's public API
//! (including the real `construct!` macro).

use crate::sexp::{hex, Sexp};
use crate::val::{guard_menu, map_menu, parse_menu, val_of, Val};
use bpaf::parsers::NamedArg;
use bpaf::{any, construct, fail, positional, pure, pure_with, OptionParser, Parser};
use std::ffi::OsString;
use std::os::unix::ffi::{OsStrExt, OsStringExt};
use std::path::PathBuf;

pub type P = Box<dyn Parser<Val>>;

pub fn leak(b: Vec<u8>) -> Result<&'static str, String> {
    let s = String::from_utf8(b).map_err(|_| "string in a definition must be UTF-8".to_string())?;
    Ok(Box::leak(s.into_boxed_str()))
}

fn hx_str(s: &Sexp) -> Result<&'static str, String> {
    leak(hex(s)?)
}

fn cp(s: &Sexp) -> Result<char, String> {
    let n: u32 = s.atom()?.parse().map_err(|_| "bad code point".to_string())?;
    char::from_u32(n).ok_or_else(|| "not a scalar value".to_string())
}

pub fn named_of(s: &Sexp) -> Result<NamedArg, String> {
    let fields = s.headed("named").ok_or("bad named")?;
    let mut cur: Option<NamedArg> = None;
    for f in fields {
        let l = f.list()?;
        let tag = l[0].atom()?;
        cur = Some(match (tag, cur) {
            ("s", None) => bpaf::short(cp(&l[1])?),
            ("s", Some(n)) => n.short(cp(&l[1])?),
            ("l", None) => bpaf::long(hx_str(&l[1])?),
            ("l", Some(n)) => n.long(hx_str(&l[1])?),
            ("e", None) => bpaf::env(hx_str(&l[1])?),
            ("e", Some(n)) => n.env(hx_str(&l[1])?),
            ("h", Some(n)) => n.help(hx_str(&l[1])?),
            ("hd", Some(n)) => {
                let mut d = bpaf::Doc::default();
                for fr in &l[1..] {
                    let fr = fr.list()?;
                    let tx = hx_str(&fr[1])?;
                    match fr[0].atom()? {
                        "text" => d.text(tx),
                        "literal" => d.literal(tx),
                        "emphasis" => d.emphasis(tx),
                        "invalid" => d.invalid(tx),
                        o if o.starts_with("doc-") => {
                            // an embedded document (Doc::doc) holding one fragment of the given style
                            let mut sub = bpaf::Doc::default();
                            match &o[4..] {
                                "text" => sub.text(tx),
                                "literal" => sub.literal(tx),
                                "emphasis" => sub.emphasis(tx),
                                "invalid" => sub.invalid(tx),
                                o => return Err(format!("bad style {}", o)),
                            }
                            d.doc(&sub)
                        }
                        o => return Err(format!("bad style {}", o)),
                    }
                }
                n.help(d)
            }
            ("h", None) => return Err("help before any name".into()),
            _ => return Err("bad named field".into()),
        });
    }
    cur.ok_or_else(|| "empty named".to_string())
}

fn os_val(os: OsString) -> Val {
    Val::Bytes(os.into_vec())
}

macro_rules! con_arity {
    ($fields:ident, $adj:expr, $($name:ident),+) => {{
        let mut it = $fields.into_iter();
        $(let $name = it.next().unwrap();)+
        if $adj {
            construct!($($name),+).adjacent().map(|($($name),+)| Val::Tuple(vec![$($name),+])).boxed()
        } else {
            construct!($($name),+).map(|($($name),+)| Val::Tuple(vec![$($name),+])).boxed()
        }
    }};
}

fn build_con(fields: Vec<P>, adj: bool) -> Result<P, String> {
    Ok(match fields.len() {
        0 if !adj => pure(Val::Tuple(vec![])).boxed(),
        1 if !adj => {
            let mut it = fields.into_iter();
            let a = it.next().unwrap();
            // construct!(a) expands to a.boxed()
            construct!(a)
        }
        2 => con_arity!(fields, adj, a, b),
        3 => con_arity!(fields, adj, a, b, c),
        4 => con_arity!(fields, adj, a, b, c, d),
        5 => con_arity!(fields, adj, a, b, c, d, e),
        6 => con_arity!(fields, adj, a, b, c, d, e, f),
        7 => con_arity!(fields, adj, a, b, c, d, e, f, g),
        8 => con_arity!(fields, adj, a, b, c, d, e, f, g, h),
        9 => con_arity!(fields, adj, a, b, c, d, e, f, g, h, i),
        10 => con_arity!(fields, adj, a, b, c, d, e, f, g, h, i, j),
        n => return Err(format!("unsupported construct! arity {}", n)),
    })
}

fn menu_id(s: &Sexp) -> Result<u32, String> {
    s.atom()?.parse().map_err(|_| "bad menu id".to_string())
}

pub fn build(s: &Sexp) -> Result<P, String> {
    let l = s.list()?;
    if l.is_empty() {
        return Err("empty parser".into());
    }
    let head = l[0].atom()?;
    let a = &l[1..];
    Ok(match head {
        "flag" => {
            let n = named_of(&a[0])?;
            let present = val_of(&a[1])?;
            if a.len() > 2 {
                n.flag(present, val_of(&a[2])?).boxed()
            } else {
                n.req_flag(present).boxed()
            }
        }
        "arg" => {
            let mv = hx_str(&a[1])?;
            let ty = a[2].atom()?;
            let adjacent = a.len() > 3 && a[3].is_atom("adjacent");
            let n = named_of(&a[0])?;
            fn mk<T>(n: NamedArg, mv: &'static str, adjacent: bool) -> bpaf::parsers::ParseArgument<T>
            where
                T: std::str::FromStr + 'static,
            {
                let p = n.argument::<T>(mv);
                if adjacent {
                    p.adjacent()
                } else {
                    p
                }
            }
            match ty {
                "osstring" => mk::<OsString>(n, mv, adjacent).map(os_val).boxed(),
                "pathbuf" => mk::<PathBuf>(n, mv, adjacent).map(|p| os_val(p.into_os_string())).boxed(),
                "string" => mk::<String>(n, mv, adjacent).map(|s| Val::Bytes(s.into_bytes())).boxed(),
                "u32" => mk::<u32>(n, mv, adjacent).map(|x| Val::Num(x as i128)).boxed(),
                "i64" => mk::<i64>(n, mv, adjacent).map(|x| Val::Num(x as i128)).boxed(),
                t => return Err(format!("bad type {}", t)),
            }
        }
        "pos" => {
            let mv = hx_str(&a[0])?;
            let ty = a[1].atom()?;
            let st = a[2].atom()?.to_string();
            let help = match a.get(3) {
                Some(h) => Some(hx_str(&h.headed("h").ok_or("bad pos help")?[0])?),
                None => None,
            };
            fn mk<T>(mv: &'static str, st: &str, help: Option<&'static str>) -> bpaf::parsers::ParsePositional<T>
            where
                T: std::str::FromStr + 'static,
            {
                let mut p = positional::<T>(mv);
                if let Some(h) = help {
                    p = p.help(h);
                }
                match st {
                    "strict" => p.strict(),
                    "nonstrict" => p.non_strict(),
                    _ => p,
                }
            }
            match ty {
                "osstring" => mk::<OsString>(mv, &st, help).map(os_val).boxed(),
                "pathbuf" => mk::<PathBuf>(mv, &st, help).map(|p| os_val(p.into_os_string())).boxed(),
                "string" => mk::<String>(mv, &st, help).map(|s| Val::Bytes(s.into_bytes())).boxed(),
                "u32" => mk::<u32>(mv, &st, help).map(|x| Val::Num(x as i128)).boxed(),
                "i64" => mk::<i64>(mv, &st, help).map(|x| Val::Num(x as i128)).boxed(),
                t => return Err(format!("bad type {}", t)),
            }
        }
        "anyp" => {
            let mv = hx_str(&a[0])?;
            let k = menu_id(&a[1])?;
            let txt = hex(&a[2])?;
            let anywhere = a.len() > 3 && a[3].is_atom("anywhere");
            let p = match k {
                0 => any::<OsString, _, _>(mv, |os: OsString| Some(os_val(os))),
                1 => any::<OsString, _, _>(mv, |os: OsString| {
                    if os.as_bytes().first() == Some(&b'-') {
                        Some(os_val(os))
                    } else {
                        None
                    }
                }),
                2 => any::<String, _, _>(mv, move |s: String| if s.as_bytes() == &txt[..] { Some(Val::Unit) } else { None }),
                _ => return Err("bad any menu".into()),
            };
            if anywhere {
                p.anywhere().boxed()
            } else {
                p.boxed()
            }
        }
        "cmd" => {
            let name = hx_str(&a[0])?;
            let aliases = a[1].headed("aliases").ok_or("cmd aliases")?;
            let shorts = a[2].headed("shorts").ok_or("cmd shorts")?;
            let mut adjacent = false;
            let mut help = None;
            let mut opts = None;
            for f in &a[3..] {
                if f.headed("adjacent").is_some() {
                    adjacent = true;
                } else if let Some(h) = f.headed("h") {
                    help = Some(hx_str(&h[0])?);
                } else if f.headed("options").is_some() {
                    opts = Some(options_of(f)?);
                } else {
                    return Err("bad cmd field".into());
                }
            }
            let mut c = opts.ok_or("cmd needs options")?.command(name);
            for s in shorts {
                c = c.short(cp(s)?);
            }
            for al in aliases {
                c = c.long(hx_str(al)?);
            }
            if let Some(h) = help {
                c = c.help(h);
            }
            if adjacent {
                c = c.adjacent();
            }
            c.boxed()
        }
        "con" | "adj" => {
            let fields = a.iter().map(build).collect::<Result<Vec<_>, _>>()?;
            build_con(fields, head == "adj")?
        }
        "alt" => {
            let mut it = a.iter();
            let mut cur = build(it.next().ok_or("empty alt")?)?;
            for q in it {
                let that = build(q)?;
                // construct!([a, b, ..]) expands to a.or_else(b)...
                #[allow(deprecated)]
                {
                    cur = cur.or_else(that).boxed();
                }
            }
            cur
        }
        "optional" => build(&a[0])?.optional().map(opt_val).boxed(),
        "optional-catch" => build(&a[0])?.optional().catch().map(opt_val).boxed(),
        "many" => build(&a[0])?.many().map(Val::List).boxed(),
        "many-catch" => build(&a[0])?.many().catch().map(Val::List).boxed(),
        "some" => build(&a[0])?.some(hx_str(&a[1])?).map(Val::List).boxed(),
        "some-catch" => build(&a[0])?.some(hx_str(&a[1])?).catch().map(Val::List).boxed(),
        "collect" => build(&a[0])?.collect::<Vec<Val>>().map(Val::List).boxed(),
        "collect-catch" => build(&a[0])?.collect::<Vec<Val>>().catch().map(Val::List).boxed(),
        "count" => build(&a[0])?.count().map(|n| Val::Num(n as i128)).boxed(),
        "last" => build(&a[0])?.last().boxed(),
        "fallback" => {
            let v = val_of(&a[1])?;
            let p = build(&a[0])?.fallback(v);
            if a.len() > 2 && a[2].is_atom("show") {
                p.display_fallback().boxed()
            } else {
                p.boxed()
            }
        }
        "fallback-with" => {
            let r = res_of(&a[1])?;
            let p = build(&a[0])?.fallback_with(move || r.clone());
            if a.len() > 2 && a[2].is_atom("show") {
                p.display_fallback().boxed()
            } else {
                p.boxed()
            }
        }
        "guard" => {
            let k = menu_id(&a[1])?;
            build(&a[0])?.guard(move |v| guard_menu(k, v), hx_str(&a[2])?).boxed()
        }
        "parse" => {
            let k = menu_id(&a[1])?;
            let t = hx_str(&a[2])?;
            build(&a[0])?.parse(move |v| parse_menu(k, t, v)).boxed()
        }
        "map" => {
            let k = menu_id(&a[1])?;
            build(&a[0])?.map(move |v| map_menu(k, v)).boxed()
        }
        "hide" => build(&a[0])?.hide().boxed(),
        "hide-usage" => build(&a[0])?.hide_usage().boxed(),
        "usage" => build(&a[0])?.custom_usage(hx_str(&a[1])?).boxed(),
        "group-help" => build(&a[0])?.group_help(hx_str(&a[1])?).boxed(),
        "pure" => pure(val_of(&a[0])?).boxed(),
        "pure-with" => {
            let r = res_of(&a[0])?;
            pure_with(move || r.clone()).boxed()
        }
        "fail" => fail::<Val>(hx_str(&a[0])?).boxed(),
        "boxed" => build(&a[0])?.boxed(),
        "complete" => complete_of(build(&a[0])?, menu_id(&a[1])?),
        "complete-shell" => complete_shell_of(build(&a[0])?, a[1].atom()?),
        h => return Err(format!("unknown parser head {}", h)),
    })
}

fn opt_val(o: Option<Val>) -> Val {
    match o {
        Some(v) => Val::Some(Box::new(v)),
        None => Val::None,
    }
}

fn res_of(s: &Sexp) -> Result<Result<Val, String>, String> {
    if let Some(r) = s.headed("ok") {
        Ok(Ok(val_of(&r[0])?))
    } else if let Some(r) = s.headed("err") {
        Ok(Err(leak(hex(&r[0])?)?.to_string()))
    } else {
        Err("bad result".into())
    }
}

pub fn options_of(s: &Sexp) -> Result<OptionParser<Val>, String> {
    let a = s.headed("options").ok_or("bad options")?;
    let mut o = build(&a[0])?.to_options();
    for f in &a[1..] {
        let l = f.list()?;
        match l[0].atom()? {
            "descr" => o = o.descr(hx_str(&l[1])?),
            "header" => o = o.header(hx_str(&l[1])?),
            "footer" => o = o.footer(hx_str(&l[1])?),
            "version" => o = o.version(hx_str(&l[1])?),
            "usage" => o = o.usage(hx_str(&l[1])?),
            "help-names" => o = o.help_parser(named_of(&l[1])?),
            "version-names" => o = o.version_parser(named_of(&l[1])?),
            "fallback-to-usage" => o = o.fallback_to_usage(),
            "max-width" => o = o.max_width(l[1].atom()?.parse().map_err(|_| "bad width".to_string())?),
            h => return Err(format!("bad options field {}", h)),
        }
    }
    Ok(o)
}

pub const COMPLETER_VALUES: &[(&str, Option<&str>)] = &[
    ("alpha", Some("first letter")),
    ("alpine", None),
    ("beta", Some("second")),
    ("be ta", None),
    ("it's", Some("quote")),
    ("--dashy", None),
];

#[cfg(feature = "autocomplete")]
fn complete_of(p: P, k: u32) -> P {
    p.complete(move |v: &Val| {
        let typed: Vec<u8> = match v {
            Val::Bytes(b) => b.clone(),
            _ => Vec::new(),
        };
        COMPLETER_VALUES
            .iter()
            .filter(|(c, _)| k == 1 || c.as_bytes().starts_with(&typed))
            .map(|(c, d)| (c.to_string(), d.map(|x| x.to_string())))
            .collect::<Vec<_>>()
    })
    .boxed()
}
#[cfg(not(feature = "autocomplete"))]
fn complete_of(p: P, _k: u32) -> P {
    p
}

#[cfg(feature = "autocomplete")]
fn complete_shell_of(p: P, kind: &str) -> P {
    use bpaf::ShellComp;
    let op = match kind {
        "file" => ShellComp::File { mask: None },
        "filemask" => ShellComp::File { mask: Some("*.rs") },
        "dir" => ShellComp::Dir { mask: None },
        "raw" => ShellComp::Raw { bash: "_b", zsh: "_z", fish: "_f", elvish: "_e" },
        _ => ShellComp::Nothing,
    };
    p.complete_shell(op).boxed()
}
#[cfg(not(feature = "autocomplete"))]
fn complete_shell_of(p: P, _kind: &str) -> P {
    p
}
