//! Minimal s-expression reader for the shared case language.

#[derive(Debug, Clone, PartialEq)]
pub enum Sexp {
    A(String),
    L(Vec<Sexp>),
}

pub fn parse(s: &str) -> Result<Sexp, String> {
    let b = s.as_bytes();
    let mut pos = 0usize;
    let r = item(b, &mut pos)?;
    Ok(r)
}

fn skip(b: &[u8], pos: &mut usize) {
    while *pos < b.len() && (b[*pos] == b' ' || b[*pos] == b'\t' || b[*pos] == b'\n') {
        *pos += 1;
    }
}

fn item(b: &[u8], pos: &mut usize) -> Result<Sexp, String> {
    skip(b, pos);
    if *pos >= b.len() {
        return Err("eof".into());
    }
    if b[*pos] == b'(' {
        *pos += 1;
        let mut acc = Vec::new();
        loop {
            skip(b, pos);
            if *pos >= b.len() {
                return Err("unclosed".into());
            }
            if b[*pos] == b')' {
                *pos += 1;
                return Ok(Sexp::L(acc));
            }
            acc.push(item(b, pos)?);
        }
    } else {
        let st = *pos;
        while *pos < b.len() && !matches!(b[*pos], b' ' | b'(' | b')' | b'\t' | b'\n') {
            *pos += 1;
        }
        Ok(Sexp::A(String::from_utf8_lossy(&b[st..*pos]).into_owned()))
    }
}

impl Sexp {
    pub fn atom(&self) -> Result<&str, String> {
        match self {
            Sexp::A(a) => Ok(a),
            _ => Err(format!("expected atom, got {:?}", self)),
        }
    }
    pub fn list(&self) -> Result<&[Sexp], String> {
        match self {
            Sexp::L(l) => Ok(l),
            _ => Err(format!("expected list, got {:?}", self)),
        }
    }
    pub fn is_atom(&self, s: &str) -> bool {
        matches!(self, Sexp::A(a) if a == s)
    }
    /// `(head ...)` -> Some(rest)
    pub fn headed(&self, head: &str) -> Option<&[Sexp]> {
        match self {
            Sexp::L(l) if !l.is_empty() && l[0].is_atom(head) => Some(&l[1..]),
            _ => None,
        }
    }
}

pub fn hex(a: &Sexp) -> Result<Vec<u8>, String> {
    let a = a.atom()?;
    let a = a.strip_prefix('x').ok_or_else(|| format!("expected hex atom, got {}", a))?;
    let b = a.as_bytes();
    if b.len() % 2 != 0 {
        return Err("odd hex".into());
    }
    let hv = |c: u8| -> Result<u8, String> {
        match c {
            b'0'..=b'9' => Ok(c - b'0'),
            b'a'..=b'f' => Ok(c - b'a' + 10),
            b'A'..=b'F' => Ok(c - b'A' + 10),
            _ => Err("bad hex digit".into()),
        }
    };
    let mut out = Vec::with_capacity(b.len() / 2);
    for i in 0..b.len() / 2 {
        out.push(hv(b[2 * i])? * 16 + hv(b[2 * i + 1])?);
    }
    Ok(out)
}

pub fn to_hex(b: &[u8]) -> String {
    let mut s = String::with_capacity(1 + 2 * b.len());
    s.push('x');
    for x in b {
        s.push_str(&format!("{:02x}", x));
    }
    s
}
