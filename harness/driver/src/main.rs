//! driver -- implementation side of the correspondence check.
//! usage: driver CASES OUT [START]
//! Reads one case per line, runs the real library, appends one canonical line per case to OUT
//! (never stdout: the library prints there on its own in some modes).

mod build;
mod docdump;
#[cfg(feature = "autocomplete")]
mod hooks;
mod sexp;
mod val;

use bpaf::{Args, ParseFailure};
use sexp::{hex, to_hex, Sexp};
use std::collections::BTreeSet;
use std::ffi::OsString;
use std::io::Write;
use std::os::unix::ffi::OsStringExt;
use std::sync::atomic::{AtomicU64, Ordering};
use std::sync::{Arc, Mutex};

fn find<'a>(fields: &'a [Sexp], name: &str) -> Option<&'a [Sexp]> {
    fields.iter().rev().find_map(|f| f.headed(name))
}

fn run_case(line: &str, known_env: &mut BTreeSet<Vec<u8>>) -> (String, String) {
    let sx = match sexp::parse(line) {
        Ok(s) => s,
        Err(e) => return ("?".into(), format!("BADCASE\t{}", e)),
    };
    #[cfg(feature = "autocomplete")]
    if let Some(l) = sx.headed("shell") {
        return hooks::run_shell(l);
    }
    #[cfg(feature = "autocomplete")]
    if let Some(l) = sx.headed("argmatch") {
        return hooks::run_argmatch(l);
    }
    #[cfg(feature = "autocomplete")]
    if let Some(l) = sx.headed("cmdmatch") {
        return hooks::run_cmdmatch(l);
    }
    #[cfg(feature = "autocomplete")]
    if let Some(l) = sx.headed("comps") {
        return hooks::run_comps(l);
    }
    #[cfg(all(feature = "docgen", feature = "autocomplete"))]
    if let Some(l) = sx.headed("rdoc") {
        return hooks::run_rdoc(l);
    }
    let l = match sx.headed("case") {
        Some(l) if l.len() >= 2 => l,
        _ => return ("?".into(), "BADCASE\tnot a case".into()),
    };
    let id = l[0].atom().unwrap_or("?").to_string();
    let mut body = || -> Result<String, String> {
        let opts = build::options_of(&l[1])?;
        let fields = &l[2..];
        let argv: Vec<OsString> = match find(fields, "argv") {
            Some(a) => a.iter().map(|h| hex(h).map(OsString::from_vec)).collect::<Result<_, _>>()?,
            None => vec![],
        };
        // environment: set what the case sets, unset everything any earlier case set
        let mut want: Vec<(Vec<u8>, Vec<u8>)> = Vec::new();
        if let Some(e) = find(fields, "env") {
            for kv in e {
                let kv = kv.list()?;
                want.push((hex(&kv[0])?, hex(&kv[1])?));
            }
        }
        if let Some(e) = find(fields, "unset") {
            for k in e {
                known_env.insert(hex(k)?);
            }
        }
        for k in known_env.iter() {
            std::env::remove_var(OsString::from_vec(k.clone()));
        }
        for (k, v) in &want {
            known_env.insert(k.clone());
            std::env::set_var(OsString::from_vec(k.clone()), OsString::from_vec(v.clone()));
        }
        let name = match find(fields, "name") {
            Some([h]) => Some(build::leak(hex(h)?)?),
            _ => None,
        };
        let mode = find(fields, "mode").map(|m| m.to_vec()).unwrap_or_else(|| vec![Sexp::A("parse".into())]);
        let mode0 = mode[0].atom()?.to_string();
        fn mk_args<'a>(argv: &'a [OsString], name: Option<&'static str>) -> Args<'a> {
            let mut a = Args::from(argv);
            if let Some(n) = name {
                a = a.set_name(n);
            }
            a
        }
        let show = |r: Result<val::Val, ParseFailure>| -> String {
            match r {
                Ok(v) => format!("OK\t{}", v),
                Err(ParseFailure::Stdout(doc, full)) => {
                    format!("STDOUT\t{}\t{}", to_hex(doc.monochrome(full).as_bytes()), full as u8)
                }
                Err(ParseFailure::Stderr(doc)) => format!("STDERR\t{}", to_hex(doc.monochrome(true).as_bytes())),
                Err(ParseFailure::Completion(s)) => format!("COMP\t{}", to_hex(s.as_bytes())),
            }
        };
        match mode0.as_str() {
            "parse" => {
                let argv2 = argv.clone();
                let r = std::panic::catch_unwind(std::panic::AssertUnwindSafe(|| opts.run_inner(mk_args(&argv2, name))));
                match r {
                    Ok(r) => Ok(show(r)),
                    Err(p) => Ok(format!("PANIC\t{}", to_hex(panic_text(&p).as_bytes()))),
                }
            }
            // run twice on the same OptionParser and report both (purity, C04)
            "twice" => {
                let mut out = Vec::new();
                for _ in 0..2 {
                    let argv2 = argv.clone();
                    let r = std::panic::catch_unwind(std::panic::AssertUnwindSafe(|| opts.run_inner(mk_args(&argv2, name))));
                    out.push(match r {
                        Ok(r) => show(r),
                        Err(p) => format!("PANIC\t{}", to_hex(panic_text(&p).as_bytes())),
                    });
                }
                Ok(format!("TWICE\t{}", out.join("\t|\t")))
            }
            // outcome + the Doc (token list) + renderings: console at the listed widths (full form), monochrome at
            // width 100 in the outcome's own form, html and markdown
            "render" => {
                let widths: Vec<usize> = mode[1..].iter().filter_map(|w| w.atom().ok().and_then(|a| a.parse().ok())).collect();
                let argv2 = argv.clone();
                let r = std::panic::catch_unwind(std::panic::AssertUnwindSafe(|| {
                    let res = opts.run_inner(mk_args(&argv2, name));
                    match res {
                        Ok(v) => format!("OK\t{}", v),
                        Err(ParseFailure::Completion(s)) => format!("COMP\t{}", to_hex(s.as_bytes())),
                        Err(f) => {
                            let (cls, doc, full) = match f {
                                ParseFailure::Stdout(d, full) => ("STDOUT", d, full),
                                ParseFailure::Stderr(d) => ("STDERR", d, true),
                                ParseFailure::Completion(_) => unreachable!(),
                            };
                            let ds = docdump::doc_sexp(&doc).unwrap_or_else(|e| format!("(docerr {})", e.replace(' ', "_")));
                            let mut ws = Vec::new();
                            for w in &widths {
                                let w = *w;
                                ws.push(format!("{}:{}", w, to_hex(format!("{:w$}", doc, w = w).as_bytes())));
                            }
                            format!(
                                "RENDER\t{}\t{}\t{}\t{}\t{}\t{}\t{}",
                                cls,
                                full as u8,
                                ds,
                                to_hex(doc.monochrome(full).as_bytes()),
                                ws.join(";"),
                                html_of(&doc, full),
                                md_of(&doc, full)
                            )
                        }
                    }
                }));
                match r {
                    Ok(s) => Ok(s),
                    Err(p) => Ok(format!("PANIC\t{}", to_hex(panic_text(&p).as_bytes()))),
                }
            }
            // completion: the vector is given with the completion revision set on Args
            #[cfg(feature = "autocomplete")]
            "comp" => {
                let rev: usize = mode.get(1).and_then(|r| r.atom().ok()).and_then(|r| r.parse().ok()).unwrap_or(0);
                let argv2 = argv.clone();
                let r = std::panic::catch_unwind(std::panic::AssertUnwindSafe(|| {
                    opts.run_inner(mk_args(&argv2, name).set_comp(rev))
                }));
                match r {
                    Ok(r) => Ok(show(r)),
                    Err(p) => Ok(format!("PANIC\t{}", to_hex(panic_text(&p).as_bytes()))),
                }
            }
            // documentation: html, markdown and manpage of the whole parser, and the documents handed to the renderers
            #[cfg(feature = "docgen")]
            "docs" => {
                let app = String::from_utf8(hex(&mode[1])?).map_err(|_| "app name is not UTF-8".to_string())?;
                let guard = |f: &dyn Fn() -> String| -> (String, String) {
                    let _ = bpaf::verif_hooks::verif_take_doc();
                    let r = std::panic::catch_unwind(std::panic::AssertUnwindSafe(f));
                    let d = bpaf::verif_hooks::verif_take_doc();
                    let ds = match d {
                        Some(d) => docdump::doc_sexp(&d).unwrap_or_else(|e| format!("(docerr {})", e.replace(' ', "_"))),
                        None => "NONE".to_string(),
                    };
                    match r {
                        Ok(s) => (to_hex(s.as_bytes()), ds),
                        Err(_) => ("PANIC".to_string(), ds),
                    }
                };
                let (html, dh) = guard(&|| opts.render_html(app.clone()));
                let (md, dm) = guard(&|| opts.render_markdown(app.clone()));
                let (man, dr) = guard(&|| opts.render_manpage(app.clone(), bpaf::doc::Section::General, None, None, None));
                Ok(format!("DOCS\t{}\t{}\t{}\t{}\t{}\t{}", html, man, dh, dr, md, (dm == dh) as u8))
            }
            // one OptionParser, many operations, twice over: parse, completion at every revision (with the application name
            // the case gives, or none), documentation -- the second round must repeat the first (C04: total and pure)
            "history" => {
                let mut out: Vec<String> = Vec::new();
                for _round in 0..2 {
                    let argv2 = argv.clone();
                    let r = std::panic::catch_unwind(std::panic::AssertUnwindSafe(|| opts.run_inner(mk_args(&argv2, name))));
                    out.push(match r {
                        Ok(r) => show(r),
                        Err(p) => format!("PANIC\t{}", to_hex(panic_text(&p).as_bytes())),
                    });
                    #[cfg(feature = "autocomplete")]
                    for rev in [0usize, 1, 7, 8, 9] {
                        let argv2 = argv.clone();
                        let r = std::panic::catch_unwind(std::panic::AssertUnwindSafe(|| {
                            opts.run_inner(mk_args(&argv2, name).set_comp(rev))
                        }));
                        out.push(match r {
                            Ok(r) => format!("rev{} {}", rev, show(r)),
                            Err(p) => format!("rev{} PANIC\t{}", rev, to_hex(panic_text(&p).as_bytes())),
                        });
                    }
                    #[cfg(feature = "docgen")]
                    {
                        let docs: [(&str, &dyn Fn() -> String); 3] = [
                            ("html", &|| opts.render_html("app")),
                            ("markdown", &|| opts.render_markdown("app")),
                            ("manpage", &|| opts.render_manpage("app", bpaf::doc::Section::General, None, None, None)),
                        ];
                        for (what, f) in docs.iter() {
                            let r = std::panic::catch_unwind(std::panic::AssertUnwindSafe(f));
                            out.push(match r {
                                Ok(s) => format!("{} {}", what, to_hex(s.as_bytes())),
                                Err(p) => format!("{} PANIC\t{}", what, to_hex(panic_text(&p).as_bytes())),
                            });
                        }
                    }
                }
                Ok(format!("HISTORY\t{}", out.join("\t|\t")))
            }
            "invariant" => {
                let r = std::panic::catch_unwind(std::panic::AssertUnwindSafe(|| opts.check_invariants(false)));
                Ok(format!("INVARIANT\t{}", r.is_ok()))
            }
            m => Err(format!("unknown mode {}", m)),
        }
    };
    match body() {
        Ok(s) => (id, s),
        Err(e) => (id, format!("BADCASE\t{}", e)),
    }
}

#[cfg(feature = "docgen")]
fn html_of(doc: &bpaf::Doc, full: bool) -> String {
    to_hex(doc.render_html(full, false).as_bytes())
}
#[cfg(feature = "docgen")]
fn md_of(doc: &bpaf::Doc, full: bool) -> String {
    to_hex(doc.render_markdown(full).as_bytes())
}
#[cfg(not(feature = "docgen"))]
fn html_of(_doc: &bpaf::Doc, _full: bool) -> String {
    "-".into()
}
#[cfg(not(feature = "docgen"))]
fn md_of(_doc: &bpaf::Doc, _full: bool) -> String {
    "-".into()
}

/// Child-process mode (C11): build the parser of the case named in VERIF_CHILD_CASE_FILE, call the real
/// `OptionParser::run()` on the process's own argv, and print a sentinel if the program body is reached.
fn child_mode(path: &str) -> ! {
    let line = std::fs::read_to_string(path).expect("read child case");
    let sx = sexp::parse(line.trim()).expect("child case");
    let l = sx.headed("case").expect("case");
    let opts = build::options_of(&l[1]).expect("options");
    let v = opts.run();
    println!("BODY-REACHED {}", v);
    std::process::exit(0)
}

fn panic_text(p: &Box<dyn std::any::Any + Send>) -> String {
    if let Some(s) = p.downcast_ref::<&str>() {
        s.to_string()
    } else if let Some(s) = p.downcast_ref::<String>() {
        s.clone()
    } else {
        "?".to_string()
    }
}

fn main() {
    if let Ok(p) = std::env::var("VERIF_CHILD_CASE_FILE") {
        child_mode(&p);
    }
    let av: Vec<String> = std::env::args().collect();
    if av.len() < 3 {
        eprintln!("usage: driver CASES OUT [START]");
        std::process::exit(2);
    }
    let start: usize = av.get(3).and_then(|s| s.parse().ok()).unwrap_or(0);
    let text = std::fs::read_to_string(&av[1]).expect("read cases");
    let out = Arc::new(Mutex::new(
        std::fs::OpenOptions::new().create(true).append(true).open(&av[2]).expect("open out"),
    ));
    std::panic::set_hook(Box::new(|_| {}));

    // watchdog: a case that runs longer than the limit is reported as HANG and the process exits
    // with status 3; the orchestrator restarts after it.
    let tick = Arc::new(AtomicU64::new(0));
    let cur_id = Arc::new(Mutex::new((String::new(), 0usize)));
    {
        let tick = tick.clone();
        let cur_id = cur_id.clone();
        let out = out.clone();
        let limit_ms: u64 = std::env::var("VERIF_CASE_TIMEOUT_MS").ok().and_then(|s| s.parse().ok()).unwrap_or(10000);
        std::thread::spawn(move || {
            let mut last = u64::MAX;
            let mut since = std::time::Instant::now();
            loop {
                std::thread::sleep(std::time::Duration::from_millis(100));
                let t = tick.load(Ordering::SeqCst);
                if t != last {
                    last = t;
                    since = std::time::Instant::now();
                } else if since.elapsed().as_millis() as u64 > limit_ms {
                    let (id, ix) = cur_id.lock().unwrap().clone();
                    if !id.is_empty() {
                        let mut o = out.lock().unwrap();
                        let _ = writeln!(o, "{}\tHANG\t{}", id, ix);
                        let _ = o.flush();
                        std::process::exit(3);
                    }
                }
            }
        });
    }

    let mut known_env = BTreeSet::new();
    for (ix, line) in text.lines().enumerate() {
        if ix < start || !line.starts_with('(') {
            continue;
        }
        // cheap id peek for the watchdog
        let id_peek = line.split_whitespace().nth(1).unwrap_or("?").to_string();
        *cur_id.lock().unwrap() = (id_peek, ix);
        tick.fetch_add(1, Ordering::SeqCst);
        let (id, res) = run_case(line, &mut known_env);
        let mut o = out.lock().unwrap();
        let _ = writeln!(o, "{}\t{}", id, res);
    }
    *cur_id.lock().unwrap() = (String::new(), 0);
    let _ = out.lock().unwrap().flush();
}
