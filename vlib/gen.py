"""Parser-definition AST (Python side), case-language printer, random generators of
parsers and of command lines (sentences generated from the definition, then mutated)."""
import random

# ---------------------------------------------------------------- encoding helpers


def hx(b):
    if isinstance(b, str):
        b = b.encode("utf-8")
    return "x" + b.hex()


def unhx(a):
    assert a.startswith("x"), a
    return bytes.fromhex(a[1:])


def vbytes(b):
    return "(bytes %s)" % hx(b)


def vnum(n):
    return "(num %d)" % n


def vlist(xs):
    return "(list" + "".join(" " + x for x in xs) + ")"


def vtuple(xs):
    return "(tuple" + "".join(" " + x for x in xs) + ")"


# ---------------------------------------------------------------- AST constructors (plain dicts)


def named(short=(), long=(), env=(), help=None):
    return {"short": list(short), "long": list(long), "env": list(env), "help": help}


def named_sexp(n):
    parts = []
    # keep a deterministic, API-valid order: first a name/env, help last
    for c in n["short"]:
        parts.append("(s %d)" % ord(c))
    for l in n["long"]:
        parts.append("(l %s)" % hx(l))
    for e in n["env"]:
        parts.append("(e %s)" % hx(e))
    if n["help"] is not None:
        if isinstance(n["help"], list):
            # a styled Doc: [(style, text), ..] with style in text/literal/emphasis/invalid, adjacent styles differ, no empty text
            parts.append("(hd %s)" % " ".join("(%s %s)" % (st, hx(tx)) for st, tx in n["help"]))
        else:
            parts.append("(h %s)" % hx(n["help"]))
    return "(named %s)" % " ".join(parts)


def flag(n, present="true", absent="false"):
    return {"k": "flag", "n": n, "present": present, "absent": absent}


def req_flag(n, present="unit"):
    return {"k": "flag", "n": n, "present": present, "absent": None}


def arg(n, metavar="ARG", ty="string", adjacent=False):
    return {"k": "arg", "n": n, "mv": metavar, "ty": ty, "adjacent": adjacent}


def pos(metavar="POS", ty="string", strict="free", help=None):
    return {"k": "pos", "mv": metavar, "ty": ty, "strict": strict, "help": help}


def cmd(name, options, aliases=(), shorts=(), adjacent=False, help=None):
    return {"k": "cmd", "name": name, "aliases": list(aliases), "shorts": list(shorts),
            "adjacent": adjacent, "help": help, "options": options}


def options(p, descr=None, header=None, footer=None, version=None, usage=None, help_names=None,
            version_names=None, fallback_to_usage=False, max_width=None):
    return {"k": "options", "p": p, "descr": descr, "header": header, "footer": footer, "version": version,
            "usage": usage, "help_names": help_names, "version_names": version_names,
            "fallback_to_usage": fallback_to_usage, "max_width": max_width}


def con(*fields):
    return {"k": "con", "fields": list(fields)}


def adj(*fields):
    return {"k": "adj", "fields": list(fields)}


def alt(*alts):
    return {"k": "alt", "alts": list(alts)}


def wrap(kind, p, **kw):
    d = {"k": kind, "p": p}
    d.update(kw)
    return d


def pure(v):
    return {"k": "pure", "v": v}


def sexp(p):
    k = p["k"]
    if k == "flag":
        if p["absent"] is None:
            return "(flag %s %s)" % (named_sexp(p["n"]), p["present"])
        return "(flag %s %s %s)" % (named_sexp(p["n"]), p["present"], p["absent"])
    if k == "arg":
        return "(arg %s %s %s%s)" % (named_sexp(p["n"]), hx(p["mv"]), p["ty"], " adjacent" if p["adjacent"] else "")
    if k == "pos":
        return "(pos %s %s %s%s)" % (hx(p["mv"]), p["ty"], p["strict"],
                                     " (h %s)" % hx(p["help"]) if p["help"] is not None else "")
    if k == "anyp":
        return "(anyp %s %d %s%s)" % (hx(p["mv"]), p["menu"], hx(p["txt"]), " anywhere" if p["anywhere"] else "")
    if k == "cmd":
        return "(cmd %s (aliases%s) (shorts%s)%s%s %s)" % (
            hx(p["name"]), "".join(" " + hx(a) for a in p["aliases"]),
            "".join(" %d" % ord(c) for c in p["shorts"]),
            " (adjacent)" if p["adjacent"] else "",
            " (h %s)" % hx(p["help"]) if p["help"] is not None else "",
            sexp(p["options"]))
    if k == "options":
        f = []
        for key in ("descr", "header", "footer", "version", "usage"):
            if p[key] is not None:
                f.append("(%s %s)" % (key, hx(p[key])))
        if p["help_names"] is not None:
            f.append("(help-names %s)" % named_sexp(p["help_names"]))
        if p["version_names"] is not None:
            f.append("(version-names %s)" % named_sexp(p["version_names"]))
        if p["fallback_to_usage"]:
            f.append("(fallback-to-usage)")
        if p["max_width"] is not None:
            f.append("(max-width %d)" % p["max_width"])
        return "(options %s%s)" % (sexp(p["p"]), "".join(" " + x for x in f))
    if k in ("con", "adj"):
        return "(%s%s)" % (k, "".join(" " + sexp(x) for x in p["fields"]))
    if k == "alt":
        return "(alt%s)" % "".join(" " + sexp(x) for x in p["alts"])
    if k in ("optional", "many", "collect"):
        return "(%s%s %s)" % (k, "-catch" if p.get("catch") else "", sexp(p["p"]))
    if k == "some":
        return "(some%s %s %s)" % ("-catch" if p.get("catch") else "", sexp(p["p"]), hx(p["msg"]))
    if k in ("count", "last", "hide", "hide-usage", "boxed"):
        return "(%s %s)" % (k, sexp(p["p"]))
    if k == "fallback":
        return "(fallback %s %s%s)" % (sexp(p["p"]), p["v"], " show" if p.get("show") else "")
    if k == "fallback-with":
        return "(fallback-with %s %s%s)" % (sexp(p["p"]), p["r"], " show" if p.get("show") else "")
    if k == "guard":
        return "(guard %s %d %s)" % (sexp(p["p"]), p["menu"], hx(p["msg"]))
    if k == "parse":
        return "(parse %s %d %s)" % (sexp(p["p"]), p["menu"], hx(p["txt"]))
    if k == "map":
        return "(map %s %d)" % (sexp(p["p"]), p["menu"])
    if k in ("usage", "group-help"):
        return "(%s %s %s)" % (k, sexp(p["p"]), hx(p["d"]))
    if k == "complete":
        return "(complete %s %d)" % (sexp(p["p"]), p["menu"])
    if k == "complete-shell":
        return "(complete-shell %s %s)" % (sexp(p["p"]), p["kind"])
    if k == "pure":
        return "(pure %s)" % p["v"]
    if k == "pure-with":
        return "(pure-with %s)" % p["r"]
    if k == "fail":
        return "(fail %s)" % hx(p["msg"])
    raise ValueError("sexp: unknown kind " + k)


def case_line(cid, opts, argv, env=(), name=None, mode=None, feat=None, unset=()):
    s = "(case %s %s (argv%s)" % (cid, sexp(opts), "".join(" " + hx(a) for a in argv))
    if env:
        s += " (env%s)" % "".join(" (%s %s)" % (hx(k), hx(v)) for k, v in env)
    if unset:
        s += " (unset%s)" % "".join(" " + hx(k) for k in unset)
    if name is not None:
        s += " (name %s)" % hx(name)
    if mode is not None:
        s += " (mode %s)" % mode
    if feat is not None:
        s += " (feat%s)" % "".join(" " + f for f in feat)
    return s + ")"


# ---------------------------------------------------------------- traversal helpers


def children(p):
    k = p["k"]
    if k in ("con", "adj"):
        return p["fields"]
    if k == "alt":
        return p["alts"]
    if k == "cmd":
        return [p["options"]]
    if "p" in p:
        return [p["p"]]
    return []


def walk(p):
    yield p
    for c in children(p):
        for x in walk(c):
            yield x


def leaves(p, cross_cmd=True):
    for x in walk(p):
        if x["k"] in ("flag", "arg", "pos", "cmd", "anyp"):
            yield x


# ---------------------------------------------------------------- name pools
SHORTS_ASCII = list("abcdefgijklmnopqrstuvwxyzABCDEFGIJKLMNOPQRSTUWXYZ")   # no h/H/V: help/version
SHORTS_UNI = list("жéß日λ")
LONGS = ["alpha", "beta", "gamma", "delta", "eps", "zeta", "eta", "theta", "iota", "kappa", "lambda", "mu",
         "nu", "xi", "omicron", "pi", "rho", "sigma", "tau", "ups", "phi", "chi", "psi", "omega",
         "file", "out", "in-put", "level", "mode", "num", "x", "yy", "größe", "файл", "名前", "a-b-c", "no_color"]
CMDS = ["build", "run", "test", "add", "rm", "ls", "show", "init", "push", "pull", "fetch", "sync", "do-it", "старт"]
ENVS = ["BPAF_VT_A", "BPAF_VT_B", "BPAF_VT_C", "BPAF_VT_D", "BPAF_VT_E", "BPAF_VT_F"]
METAVARS = ["ARG", "FILE", "N", "VAL", "X", "Y", "Z", "NAME", "path", "Num"]


class Names:
    """Hands out names that are unique across one generated definition."""

    def __init__(self, rng, unicode_ok=True):
        self.rng = rng
        shorts = SHORTS_ASCII + (SHORTS_UNI if unicode_ok else [])
        longs = [l for l in LONGS if unicode_ok or l.isascii()]
        cmds = [c for c in CMDS if unicode_ok or c.isascii()]
        rng.shuffle(shorts)
        rng.shuffle(longs)
        rng.shuffle(cmds)
        self.shorts, self.longs, self.cmds = shorts, longs, cmds
        self.envs = list(ENVS)
        rng.shuffle(self.envs)
        self.marker = 0

    def short(self):
        if self.shorts:
            return self.shorts.pop()
        self.extra = getattr(self, "extra", 0) + 1
        return chr(0x3b1 + self.extra)          # Greek letters once the pool is used up

    def long(self):
        if self.longs:
            return self.longs.pop()
        self.extra = getattr(self, "extra", 0) + 1
        return "opt%d" % self.extra

    def cmdname(self):
        if self.cmds:
            return self.cmds.pop()
        self.extra = getattr(self, "extra", 0) + 1
        return "cmd%d" % self.extra

    def env(self):
        return self.envs.pop()

    def level_marker(self):
        self.marker += 1
        return "Lv%d" % self.marker

    def named(self, env_p=0.0, help_p=0.3):
        r = self.rng
        shape = r.choice(["s", "l", "sl", "sl", "l", "sll", "ssl"])
        sh, lo = [], []
        for ch in shape:
            if ch == "s":
                sh.append(self.short())
            elif ch == "l":
                lo.append(self.long())
        if not sh and not lo:
            sh.append(self.short())
        env = [self.env()] if (r.random() < env_p and self.envs) else []
        if env and self.envs and r.random() < 0.35:
            env.append(self.env())              # several declared variables: the first one that is set counts
        help_ = ("help for " + (lo[0] if lo else sh[0])) if r.random() < help_p else None
        return named(sh, lo, env, help_)


# ---------------------------------------------------------------- values by type


def gen_value(rng, ty, valid=True, attached=False):
    """A byte string for an argument/positional of type ty. `attached`: may start with '-'."""
    if ty in ("u32", "i64"):
        if valid:
            if ty == "i64" and attached and rng.random() < 0.3:
                return str(-rng.randrange(0, 1000)).encode()
            return str(rng.choice([0, 1, 7, 12, 99, 100, 4096, rng.randrange(0, 2 ** 31)])).encode()
        return rng.choice([b"x", b"12x", b"", b"1.5", b"99999999999999999999999", b"0x10", b"\xff1", b" 1", b"+"])
    if ty == "string":
        if valid:
            return rng.choice([b"foo", b"bar baz", b"", b"a=b", b"=", b"x", "naïve".encode(), "日本".encode(), b"v1", b"k=v=w",
                               b"%d" % rng.randrange(100), b" lead", b"trail ", b" ", b"\ttab\n"])
        return rng.choice([b"\xff", b"a\xc3", b"\xf0\x90", b"ok\x80"])
    # osstring / pathbuf: anything
    return rng.choice([b"foo", b"/tmp/x", b"", b"a=b", b"\xff\xfe", b"sp ace", "é".encode(), b"w%d" % rng.randrange(100), b"==", b"a\xffb",
                       b" pad ", b"end "])


def type_sample_val(rng, ty):
    """A value sexp of the given type (for fallbacks)."""
    if ty in ("u32", "i64"):
        return vnum(rng.choice([0, 5, 42]))
    return vbytes(rng.choice([b"dflt", b"", b"zz"]))


# ---------------------------------------------------------------- spellings


def spell_arg(rng, node, value, forms=None, risky=False):
    """Return the argv items for one occurrence of an argument with the given value bytes."""
    n = node["n"]
    choices = []
    dashy = value.startswith(b"-")
    utf8 = True
    try:
        value.decode("utf-8")
    except UnicodeDecodeError:
        utf8 = False
    for l in n["long"]:
        lb = l.encode()
        choices.append(("long_eq", [b"--" + lb + b"=" + value]))
        if not node["adjacent"] and not dashy:
            choices.append(("long_sep", [b"--" + lb, value]))
    for c in n["short"]:
        cb = c.encode()
        choices.append(("short_eq", [b"-" + cb + b"=" + value]))
        if not node["adjacent"] and not dashy:
            choices.append(("short_sep", [b"-" + cb, value]))
        if value and not value.startswith(b"=") and (utf8 or risky):
            choices.append(("short_adj", [b"-" + cb + value]))
    if forms:
        choices = [c for c in choices if c[0] in forms] or choices
    if not choices:
        # only multi-byte short names and a value that cannot be attached/separated: fall back to `-c=v`
        cb = n["short"][0].encode()
        choices = [("short_eq", [b"-" + cb + b"=" + value])]
    return rng.choice(choices)


def spell_flag(rng, node):
    n = node["n"]
    c = [b"--" + l.encode() for l in n["long"]] + [b"-" + s.encode() for s in n["short"]]
    return rng.choice(c)


# ---------------------------------------------------------------- sentence generation
class Chunk(list):
    """argv items that stay together (one named occurrence, or one adjacent block), with provenance."""

    def __init__(self, items, node=None, value=None, form=None, group=None, kind="named"):
        list.__init__(self, items)
        self.node, self.value, self.form, self.group, self.kind = node, value, form, group, kind


class Sentence:
    """Pieces of a command line for one command level, before linearisation."""

    def __init__(self):
        self.named = []      # Chunks of named occurrences
        self.pos = []        # positional words, in order (each (bytes, strict_side: None|'left'|'right'))
        self.tail = None     # ("cmd", name_item, Sentence, node) -- everything after belongs to the subcommand
        self.blocks = []     # adjacent blocks (contiguous), placed like named chunks

    def empty(self):
        return not (self.named or self.pos or self.tail or self.blocks)


def gen_sentence(rng, p, sent, present_p=0.7, valid=True, depth=0, group=None):
    """Append to `sent` the pieces that make parser p succeed (best effort), choosing randomly whether
    optional things are present. `group` identifies the result field the pieces feed (occurrences of one
    group must keep their relative order under permutation)."""
    k = p["k"]
    g = group if group is not None else id(p)
    if k == "flag":
        if p["absent"] is None or rng.random() < present_p:
            sent.named.append(Chunk([spell_flag(rng, p)], p, None, "flag", g))
        return True
    if k == "arg":
        v = gen_value(rng, p["ty"], valid=True, attached=rng.random() < 0.3)
        form, items = spell_arg(rng, p, v)
        sent.named.append(Chunk(items, p, v, form, g))
        return True
    if k == "pos":
        v = gen_value(rng, p["ty"], valid=True)
        side = {"free": None, "strict": "right", "nonstrict": "left"}[p["strict"]]
        if side != "right" and (v.startswith(b"-") or v == b""):
            v = b"w" + v.lstrip(b"-")
        sent.pos.append((v, side))
        return True
    if k == "anyp":
        if p["menu"] == 2:
            sent.pos.append((p["txt"], None))
        else:
            sent.pos.append((b"-any" if p["menu"] == 1 else b"anyw", None))
        return True
    if k == "cmd":
        names = [p["name"].encode()] + [a.encode() for a in p["aliases"]] + [c.encode() for c in p["shorts"]]
        sub = Sentence()
        gen_sentence(rng, p["options"]["p"], sub, present_p, valid, depth + 1)
        sent.tail = ("cmd", rng.choice(names), sub, p)
        return True
    if k == "con":
        for f in p["fields"]:
            gen_sentence(rng, f, sent, present_p, valid, depth, group)
        return True
    if k == "adj":
        sub = Sentence()
        for f in p["fields"]:
            gen_sentence(rng, f, sub, 0.9, valid, depth, g)
        blk = []
        if sub.named:
            blk.extend(sub.named[0])
            for w, _ in sub.pos:
                blk.append(w)
            for ch in sub.named[1:]:
                blk.extend(ch)
        else:
            for w, _ in sub.pos:
                blk.append(w)
        for b in sub.blocks:
            blk.extend(b)
        if blk:
            sent.blocks.append(Chunk(blk, p, None, "block", g, kind="block"))
        return True
    if k == "alt":
        choice = rng.choice(p["alts"])
        return gen_sentence(rng, choice, sent, present_p, valid, depth, g)
    if k == "optional":
        if rng.random() < present_p:
            return gen_sentence(rng, p["p"], sent, present_p, valid, depth, g)
        return True
    if k in ("many", "collect", "count"):
        for _ in range(rng.choice([0, 1, 1, 2, 3])):
            gen_sentence(rng, p["p"], sent, 1.0, valid, depth, g)
        return True
    if k in ("some", "last"):
        for _ in range(rng.choice([1, 1, 2, 3])):
            gen_sentence(rng, p["p"], sent, 1.0, valid, depth, g)
        return True
    if k in ("fallback", "fallback-with"):
        if rng.random() < present_p:
            return gen_sentence(rng, p["p"], sent, present_p, valid, depth, g)
        return True
    if k in ("guard", "parse", "map", "hide", "hide-usage", "usage", "group-help", "boxed", "complete", "complete-shell"):
        return gen_sentence(rng, p["p"], sent, present_p, valid, depth, group)
    if k in ("pure", "pure-with", "fail"):
        return True
    raise ValueError("gen_sentence: " + k)


class Piece:
    """One unit of a linearised command line."""
    __slots__ = ("kind", "items", "chunk", "level", "node")

    def __init__(self, kind, items, chunk=None, level=0, node=None):
        self.kind, self.items, self.chunk, self.level, self.node = kind, list(items), chunk, level, node


def pieces_of(rng, sent, shuffle=True, level=0, order=None):
    """Linearise a Sentence into Pieces: kind in chunk | pos | dd | cmdname. Named chunks and blocks are
    shuffled (when allowed) and interleaved with the left positional words; strict positionals go after
    `--`; the subcommand (if any) comes last."""
    chunks = list(sent.named) + list(sent.blocks)
    if shuffle:
        rng.shuffle(chunks)
    left = [w for w, side in sent.pos if side != "right"]
    right = [w for w, side in sent.pos if side == "right"]
    out = []
    slots = sorted(rng.randrange(0, len(chunks) + 1) for _ in left) if shuffle else [len(chunks)] * len(left)
    li = 0
    for i, ch in enumerate(chunks + [None]):
        while li < len(left) and slots[li] == i:
            out.append(Piece("pos", [left[li]], level=level))
            li += 1
        if ch is not None:
            out.append(Piece("chunk", ch, chunk=ch, level=level))
    if right:
        out.append(Piece("dd", [b"--"], level=level))
        for w in right:
            out.append(Piece("rpos", [w], level=level))
    if sent.tail is not None:
        _, name_item, sub, node = sent.tail
        out.append(Piece("cmdname", [name_item], level=level, node=node))
        out.extend(pieces_of(rng, sub, shuffle, level + 1))
    return out


def flatten(pieces):
    out = []
    for p in pieces:
        out.extend(p.items)
    return out


def linearize(rng, sent, shuffle=True, dd_p=0.25):
    return flatten(pieces_of(rng, sent, shuffle))


# ---------------------------------------------------------------- mutation of argument vectors
def foreign_items(rng, parser_root):
    """Items nobody in the definition declares."""
    return [b"--nope", b"-!", b"--zzz=1", b"stray", b"-", b"--nope=", b"-?x", "--ünknown".encode()]


def mutate(rng, argv, parser_root):
    """One random structural mutation: insert / delete / duplicate / corrupt."""
    argv = list(argv)
    op = rng.choice(["insert", "insert", "delete", "dup", "corrupt", "swap"])
    if op == "insert" or not argv:
        argv.insert(rng.randrange(0, len(argv) + 1), rng.choice(foreign_items(rng, parser_root)))
    elif op == "delete":
        del argv[rng.randrange(len(argv))]
    elif op == "dup":
        i = rng.randrange(len(argv))
        argv.insert(rng.randrange(0, len(argv) + 1), argv[i])
    elif op == "corrupt":
        i = rng.randrange(len(argv))
        argv[i] = rng.choice([argv[i] + b"x", argv[i][:-1], b"-" + argv[i], argv[i].replace(b"=", b" ")])
    else:
        if len(argv) >= 2:
            i = rng.randrange(len(argv) - 1)
            argv[i], argv[i + 1] = argv[i + 1], argv[i]
    return argv


# ---------------------------------------------------------------- random parser definitions
def wrap_named(rng, leaf, ty, names, allow_catch=False, depth=2):
    """Random wrapper stack over a named leaf, type-sane."""
    p = leaf
    is_num = ty in ("u32", "i64")
    if leaf["k"] == "arg" and rng.random() < 0.25:
        if is_num:
            p = wrap("guard", p, menu=2, msg="must be < 10") if rng.random() < 0.5 else wrap("parse", p, menu=3, txt="too big")
        else:
            p = wrap("parse", p, menu=0, txt="nope") if rng.random() < 0.3 else wrap("guard", p, menu=3, msg="must be non-empty")
    choice = rng.choice(["bare", "optional", "many", "some", "fallback", "count", "last", "optional", "many",
                         "fallback-with", "collect", "fallback"])
    catch = allow_catch and rng.random() < 0.15
    if choice == "bare":
        pass
    elif choice == "optional":
        p = wrap("optional", p, catch=catch)
    elif choice == "many":
        p = wrap("many", p, catch=catch)
    elif choice == "collect":
        p = wrap("collect", p, catch=catch)
    elif choice == "some":
        p = wrap("some", p, msg="need at least one", catch=catch)
    elif choice == "count":
        if leaf["k"] == "flag" and leaf["absent"] is None:
            p = wrap("count", p)
    elif choice == "last":
        if leaf["k"] != "flag" or leaf["absent"] is None:
            p = wrap("last", p)
    elif choice == "fallback":
        if leaf["k"] == "flag" and leaf["absent"] is not None:
            pass
        else:
            v = type_sample_val(rng, ty) if leaf["k"] == "arg" and "parse" not in p["k"] else "unit"
            if leaf["k"] == "arg" and p["k"] == "parse" and p["menu"] == 0:
                v = vnum(0)
            p = wrap("fallback", p, v=v, show=rng.random() < 0.6)    # display_fallback: Meta::Suffix around the item
    elif choice == "fallback-with":
        if not (leaf["k"] == "flag" and leaf["absent"] is not None):
            if rng.random() < 0.8:
                p = wrap("fallback-with", p, r="(ok unit)")
            else:
                p = wrap("fallback-with", p, r="(err %s)" % hx("fallback failed"))
    if rng.random() < 0.08:
        p = wrap("hide", p)
    if rng.random() < 0.05:
        p = wrap("hide-usage", p)
    if rng.random() < 0.08:
        p = wrap("group-help", p, d=rng.choice(["group title", "Настройки", "größe und so", "日本語の設定", "title\nwith a second line",
                                                "émigré"]))
    if rng.random() < 0.05:
        p = wrap("map", p, menu=2)
    return p


def gen_named_item(rng, names, env_p=0.0, allow_catch=False):
    kind = rng.choice(["switch", "flag", "req", "arg", "arg", "arg"])
    n = names.named(env_p=env_p)
    if kind == "switch":
        return wrap_named(rng, flag(n), "bool", names, allow_catch)
    if kind == "flag":
        return wrap_named(rng, flag(n, vnum(1), vnum(0)), "bool", names, allow_catch)
    if kind == "req":
        return wrap_named(rng, req_flag(n, rng.choice(["unit", vnum(7), vbytes(b"on")])), "unit", names, allow_catch)
    ty = rng.choice(["string", "osstring", "u32", "i64", "pathbuf", "string", "u32"])
    leaf = arg(n, rng.choice(METAVARS), ty, adjacent=rng.random() < 0.08)
    return wrap_named(rng, leaf, ty, names, allow_catch)


def gen_pos_suffix(rng, names, strict_ok=True):
    """Req* Opt* (Many|Some)? positional suffix."""
    out = []
    nreq = rng.choice([0, 1, 1, 2])
    nopt = rng.choice([0, 0, 1])
    rep = rng.choice([None, None, "many", "some"])
    strict = rng.choice(["free", "free", "free", "strict", "nonstrict"]) if strict_ok else "free"
    for i in range(nreq):
        out.append(pos(rng.choice(METAVARS), rng.choice(["string", "osstring", "u32"]), strict,
                       help="a positional" if rng.random() < 0.3 else None))
    for i in range(nopt):
        out.append(wrap("optional", pos(rng.choice(METAVARS), rng.choice(["string", "osstring"]), strict)))
    if rep:
        pz = pos(rng.choice(METAVARS), rng.choice(["string", "osstring", "u32"]), strict)
        out.append(wrap(rep, pz, msg="need a word") if rep == "some" else wrap("many", pz))
    return out


def gen_adj_group(rng, names):
    """An adjacent group: req_flag + positionals, or req_flag + named arguments."""
    lead = req_flag(names.named(help_p=0.2), "unit")
    shape = rng.choice(["pos", "pos", "named", "mixed"])
    fields = [lead]
    if shape in ("pos", "mixed"):
        for _ in range(rng.choice([1, 2, 3])):
            fields.append(pos(rng.choice(METAVARS), rng.choice(["string", "u32"])))
    if shape in ("named",):
        for _ in range(rng.choice([1, 2])):
            a = arg(names.named(help_p=0.1), rng.choice(METAVARS), rng.choice(["string", "u32"]))
            fields.append(a if rng.random() < 0.6 else wrap("optional", a))
    g = adj(*fields)
    r = rng.random()
    if r < 0.4:
        return wrap("many", g)
    if r < 0.7:
        return wrap("optional", g)
    return g


def gen_wrapped_group(rng, names):
    """A plain construct!(..) group of REQUIRED named members that is optional / repeated / defaulted as a whole: giving
    only some of its members is an error under every one of these wrappers."""
    members = []
    for _ in range(rng.choice([2, 2, 3])):
        if rng.random() < 0.3:
            members.append(req_flag(names.named(), "unit"))
        else:
            members.append(arg(names.named(), rng.choice(METAVARS), rng.choice(["string", "string", "u32"])))
    g = con(*members)
    w = rng.choice(["optional", "fallback", "fallback-with", "fallback-with", "many"])
    if w == "optional":
        return wrap("optional", g, catch=False)
    if w == "many":
        return wrap("many", g, catch=False)
    if w == "fallback":
        return wrap("fallback", g, v="unit", show=False)
    return wrap("fallback-with", g, r="(ok unit)")


def gen_level(rng, names, depth=0, max_depth=2, features=("alt", "adj", "cmd", "pos"), env_p=0.0,
              allow_catch=False, n_named=None):
    """A command level: named items (plus alternatives / adjacent groups), then a positional suffix or
    a set of subcommands. Respects check_invariants by construction."""
    fields = []
    n = n_named if n_named is not None else rng.choice([0, 1, 2, 2, 3, 4])
    for _ in range(n):
        r = rng.random()
        if "alt" in features and r < 0.15:
            alts = [gen_alt_member(rng, names) for _ in range(rng.choice([2, 2, 3]))]
            a = alt(*alts)
            w = rng.random()
            if w < 0.3:
                a = wrap("optional", a)
            elif w < 0.5:
                a = wrap("many", a)
            fields.append(a)
        elif "adj" in features and r < 0.25:
            fields.append(gen_adj_group(rng, names))
        elif "grp" in features and 0.25 <= r < 0.37:
            fields.append(gen_wrapped_group(rng, names))
        else:
            fields.append(gen_named_item(rng, names, env_p=env_p, allow_catch=allow_catch))
    tail = rng.choice(["none", "pos", "pos", "cmd"]) if depth < max_depth else rng.choice(["none", "pos"])
    if tail == "pos" and "pos" in features:
        fields.extend(gen_pos_suffix(rng, names))
    elif tail == "cmd" and "cmd" in features:
        cmds = []
        for _ in range(rng.choice([1, 2, 3])):
            sub = gen_level(rng, names, depth + 1, max_depth, features, env_p, allow_catch)
            o = options(sub, descr=names.level_marker(),
                        version="1.2.3" if rng.random() < 0.2 else None,
                        fallback_to_usage=rng.random() < 0.1)
            nm = names.cmdname()
            cmds.append(cmd(nm, o, aliases=[names.cmdname()] if rng.random() < 0.2 and len(names.cmds) > 3 else [],
                            shorts=[names.short()] if rng.random() < 0.2 else [], help="cmd " + nm))
        if "modealt" in features and rng.random() < 0.3:
            # a "plain mode" next to the subcommands: a group of items that all succeed on nothing, listed before or after
            plain = [flag(names.named()) if rng.random() < 0.6 else wrap("optional", arg(names.named(), "V", "string"), catch=False)
                     for _ in range(rng.choice([1, 2]))]
            pg = con(*plain) if len(plain) > 1 else con(plain[0], pure(vnum(0)))
            cmds.insert(rng.choice([0, 0, len(cmds)]), pg)
        c = cmds[0] if len(cmds) == 1 else alt(*cmds)
        if rng.random() < 0.2:
            c = wrap("optional", c)
        fields.append(c)
    if len(fields) == 0:
        return pure("unit")
    if len(fields) == 1:
        return fields[0] if rng.random() < 0.5 else con(fields[0], pure(vnum(0)))
    return con(*fields)


def gen_alt_member(rng, names):
    r = rng.random()
    if r < 0.4:
        return req_flag(names.named(), rng.choice([vnum(1), vnum(2), vbytes(b"A"), "unit"]))
    if r < 0.75:
        return arg(names.named(), rng.choice(METAVARS), rng.choice(["string", "u32"]))
    return con(req_flag(names.named(), "unit"), arg(names.named(), "V", "string"))


def gen_options(rng, features=("alt", "adj", "cmd", "pos"), max_depth=2, env_p=0.0, allow_catch=False,
                unicode_ok=True):
    names = Names(rng, unicode_ok)
    top_marker = names.level_marker()
    p = gen_level(rng, names, 0, max_depth, features, env_p, allow_catch)
    return options(p, descr=top_marker,
                   version="9.9" if rng.random() < 0.25 else None,
                   fallback_to_usage=rng.random() < 0.08), names


def env_names(p):
    out = []
    for x in walk(p):
        if x["k"] in ("flag", "arg"):
            out.extend(x["n"]["env"])
    return out


def gen_argv(rng, opts, present_p=0.7, shuffle=True):
    s = Sentence()
    gen_sentence(rng, opts["p"], s, present_p)
    return linearize(rng, s, shuffle)


def gen_pieces(rng, opts, present_p=0.7, shuffle=True):
    s = Sentence()
    gen_sentence(rng, opts["p"], s, present_p)
    return pieces_of(rng, s, shuffle)


# ---------------------------------------------------------------- one definition + line per arm of Message::render


def _typo(rng, s):
    """A near miss of `s` (edit distance 1..2): substitution, deletion, insertion, transposition."""
    cs = list(s)
    for _ in range(rng.choice([1, 1, 2])):
        if not cs:
            break
        i = rng.randrange(len(cs))
        op = rng.choice(["sub", "del", "ins", "swap"])
        if op == "sub":
            cs[i] = rng.choice("abcxyz0é")
        elif op == "del" and len(cs) > 2:
            del cs[i]
        elif op == "ins":
            cs.insert(i, rng.choice("abcxyz0é"))
        elif op == "swap" and i + 1 < len(cs):
            cs[i], cs[i + 1] = cs[i + 1], cs[i]
    return "".join(cs)


def message_cases(rng):
    """(tag, options, argv, unset-variables): definitions and lines built to reach every arm of Message::render
    (conflict, only-once, the four suggestion shapes, expected .. / got .., strict positions, no-env, no-argument with
    and without a flag behind it, ambiguity, user texts), each next to a few ordinary items."""
    names = Names(rng, unicode_ok=rng.random() < 0.3)
    a, b, c = names.short(), names.short(), names.short()
    la, lb, lc = names.long(), names.long(), names.long()
    sa, sb = b"-" + a.encode(), b"-" + b.encode()
    lna, lnb = b"--" + la.encode(), b"--" + lb.encode()
    fa = req_flag(named([a], [la]))
    fb = req_flag(named([b], [lb]))
    sw = flag(named([c], [lc]))
    argx = arg(named([names.short()], [names.long()]), "X", rng.choice(["string", "u32"]))
    kx = b"--" + argx["n"]["long"][0].encode()
    vx = b"7"
    extra = rng.choice([[], [b"-" + c.encode()], [b"--" + lc.encode()]])
    var = "BPAF_VT_M"
    out = []

    def add(tag, p, argv, unset=()):
        out.append((tag, options(p, descr="Msg"), list(argv), list(unset)))

    # two alternatives, both on the line
    add("conflict", con(alt(fa, fb), sw), [rng.choice([sa, lna])] + extra + [rng.choice([sb, lnb])])
    add("conflict-arg", con(alt(fa, argx), sw), [kx, vx] + extra + [sa])
    # a single-use item twice
    add("only-once", con(fa, sw), [rng.choice([sa, lna])] + extra + [rng.choice([sa, lna])])
    add("only-once-arg", con(argx, sw), [kx, vx] + extra + [kx, b"8"])
    # suggestions: one dash missing / one dash too many / near misses / an item of a subcommand
    add("missing-dash", con(fa, sw), [b"-" + la.encode()] + extra)
    add("extra-dash", con(fa, sw), [b"--" + a.encode()] + extra)
    add("typo-long", con(wrap("optional", fa, catch=False), sw), [b"--" + _typo(rng, la).encode()] + extra)
    cn = names.cmdname()
    inner = req_flag(named([names.short()], [names.long()]))
    sub = cmd(cn, options(con(inner), descr="Sub"))
    add("typo-cmd", con(sw, sub), extra + [_typo(rng, cn).encode()])
    add("nested", con(sw, sub), extra + [b"--" + inner["n"]["long"][0].encode()])
    add("nested-cmd-missing", con(sw, sub), extra)
    # expected ..: one, two, three or more alternatives; with and without a word that does not fit
    p3 = names.long()
    f3 = req_flag(named([], [p3]))
    for tag, p in (("expected-1", con(fa, sw)), ("expected-2", con(alt(fa, fb), sw)), ("expected-3", con(alt(fa, fb, f3), sw))):
        add(tag, p, extra)
        add(tag + "-got", p, extra + [rng.choice([b"word", b"--unknown-zz", b"-Q"])])
    add("expected-pos", con(sw, pos("FILE", "string")), extra)
    add("no-arguments-got", con(wrap("optional", fa, catch=False)), [b"stray"])
    # positions relative to `--`
    add("strict", con(sw, pos("FILE", "string", strict="strict")), extra + [b"name"])
    add("non-strict", con(sw, pos("FILE", "string", strict="nonstrict")), extra + [b"--", b"name"])
    # only a variable, unset
    add("no-env-arg", con(sw, arg(named([], [], [var]), "N", "u32")), extra, unset=[var.encode()])
    add("no-env-flag", con(sw, req_flag(named([], [], [var]))), extra, unset=[var.encode()])
    # a name without its value: at the end, before a flag, before `--`
    add("no-argument", con(argx, sw), extra + [kx])
    add("no-argument-flag", con(argx, sw), [kx] + [rng.choice([b"-" + c.encode(), b"--" + lc.encode()])])
    add("no-argument-dd", con(argx, sw), [kx, b"--"])
    # a short name that is a flag and an argument
    amb = named([a], [])
    add("ambiguity", con(alt(req_flag(amb), arg(named([a], []), "V", "string")), sw), [b"-" + a.encode() + c.encode()])
    # the user's own texts
    add("some", con(wrap("some", fa, msg=rng.choice(["need at least one", "", "ünï"]), catch=False), sw), extra)
    add("fail", con(sw, {"k": "fail", "msg": rng.choice(["always fails", "nö"])}), extra)
    add("fallback-with-err", con(sw, wrap("fallback-with", fa, r="(err %s)" % hx("fallback failed"))), extra)
    # conversion / guard / parse texts, separated and attached
    num = arg(named([names.short()], [names.long()]), "N", "u32")
    kn = b"--" + num["n"]["long"][0].encode()
    add("convert", con(num, sw), extra + [kn, rng.choice([b"x", b"", b"-1", b"99999999999"])] if rng.random() < 0.5
        else extra + [kn + b"=" + rng.choice([b"x", b"", b"1.5"])])
    add("guard", con(wrap("guard", num, menu=2, msg="must be < 10"), sw), extra + [kn, b"55"])
    add("parse", con(wrap("parse", num, menu=3, txt="too big"), sw), extra + [kn, b"777"])
    return out
