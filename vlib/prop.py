"""Generic flow of a property check (DESIGN.md 2.3): tie (a) -> proofs -> tie (b) -> oracle -> verdict."""
import hashlib
import json
import os
import random
import re
import sys
import time

from . import infra, gen, compare

KNOWN_FILE = os.path.join(infra.ROOT, "KNOWN_FINDINGS")
ALLOWED_AXIOMS = set()      # none intended; extend by name if a library axiom is ever used


class Case:
    __slots__ = ("id", "opts", "argv", "env", "name", "mode", "feat", "tags", "unset")

    def __init__(self, cid, opts, argv, env=(), name=None, mode=None, feat=None, tags=None, unset=()):
        self.id, self.opts, self.argv, self.env = cid, opts, list(argv), list(env)
        self.name, self.mode, self.feat, self.tags, self.unset = name, mode, feat, tags or {}, list(unset)

    def line(self):
        return gen.case_line(self.id, self.opts, self.argv, self.env, self.name, self.mode, self.feat, self.unset)

    def describe(self):
        return {"id": self.id, "argv": [a.decode("utf-8", "backslashreplace") for a in self.argv],
                "env": [(k, v.decode("utf-8", "backslashreplace")) for k, v in self.env],
                "parser": gen.sexp(self.opts), "tags": {k: str(v) for k, v in self.tags.items()},
                "case": self.line()}


class Finding:
    """kind: 'violation' (implementation breaks the property on this input),
             'disagree' (model and implementation differ under the projection),
             'model' (model-side problem, e.g. FUEL)"""

    def __init__(self, kind, case, detail, related=None, known=None):
        self.kind, self.case, self.detail, self.related, self.known = kind, case, detail, related or [], known


def load_known(pid):
    """KNOWN_FINDINGS lines for this property: (id, cls, text)."""
    out = []
    if not os.path.exists(KNOWN_FILE):
        return out
    for line in open(KNOWN_FILE):
        line = line.strip()
        m = re.match(r"finding:\s+property=(\S+)\s+id=(\S+)\s+class=(\S+)\s+(.*)", line)
        if m and m.group(1) == pid:
            out.append((m.group(2), m.group(3), m.group(4)))
    return out


def theorem_names(vfile):
    names = []
    if not os.path.exists(vfile):
        return names
    for m in re.finditer(r"^\s*(Theorem|Lemma|Corollary|Example|Fact|Proposition)\s+([A-Za-z0-9_']+)", open(vfile).read(), re.M):
        names.append(m.group(2))
    return names


def coq_deps(target_v):
    """.v files (within the development) that target_v transitively requires, via coqdep."""
    rc, out = infra.sh("coqdep -f _CoqProject -sort " + target_v, cwd=infra.COQ, check=False)
    # fall back to reading .Makefile.d style dependencies
    deps = set()
    seen = set()
    todo = [target_v]
    while todo:
        f = todo.pop()
        if f in seen or not os.path.exists(os.path.join(infra.COQ, f)):
            continue
        seen.add(f)
        deps.add(f)
        for m in re.finditer(r"From\s+(Bpaf\w+)\s+Require\s+(?:Import|Export)\s+([^.]+)\.", open(os.path.join(infra.COQ, f)).read()):
            d = {"BpafModel": "Model", "BpafGen": "Gen", "BpafLemmas": "Lemmas", "BpafProps": "Props"}[m.group(1)]
            for mod in m.group(2).split():
                todo.append("%s/%s.v" % (d, mod))
    return sorted(deps)


def print_assumptions(pid, names):
    """Load the compiled property file and ask the kernel for the axioms each theorem depends on."""
    if not names:
        return {}, ""
    work = os.path.join(infra.CACHE, "work")
    os.makedirs(work, exist_ok=True)
    path = os.path.join(work, "Assume_%s.v" % pid)
    with open(path, "w") as f:
        f.write("From BpafProps Require Import %s.\n" % pid)
        for n in names:
            f.write('Goal True. idtac "@@ %s". Abort.\nPrint Assumptions %s.\n' % (n, n))
    rc, out = infra.sh(["coqc", "-Q", "Model", "BpafModel", "-Q", "Gen", "BpafGen", "-Q", "Lemmas", "BpafLemmas",
                        "-Q", "Props", "BpafProps", path], cwd=infra.COQ, check=False, timeout=600)
    res = {}
    cur = None
    for line in out.splitlines():
        if line.startswith("@@ "):
            cur = line[3:].strip()
            res[cur] = []
        elif cur is not None and line.strip():
            res[cur].append(line.strip())
    for ext in (".vo", ".glob", ".vok", ".vos"):
        p = path[:-2] + ext
        if os.path.exists(p):
            os.unlink(p)
    aux = os.path.join(work, ".Assume_%s.aux" % pid)
    if os.path.exists(aux):
        os.unlink(aux)
    return res, out if rc != 0 else ""


class Property:
    pid = "C00"
    title = ""
    projection = "class+value"
    quick_n = 2000
    thorough_n = 60000
    partial = []          # statements that are only partially proved (for evidence)
    trusted_extra = []
    exact_text = False    # compare the model's rendered error text byte for byte (properties that speak about messages)

    # ---- to override
    def generate(self, rng, tier, n):
        raise NotImplementedError

    def judge(self, cases, model, impl):
        """Default: class+value correspondence only."""
        out = []
        for c in cases:
            r = compare.agree_class_value(model.get(c.id), impl.get(c.id))
            if r:
                out.append(Finding("disagree", c, r))
        return out, {}

    def known_class(self, cls, finding):
        """Does `finding` fall in the known-finding class `cls`?"""
        return False

    def directed_search(self, rng, finding):
        """Cases in the neighbourhood of a disagreeing case, for the failing-input search."""
        return []

    def corpus(self):
        """Regression corpus cases (run first)."""
        return []

    # ---- flow
    def props_file(self):
        return os.path.join(infra.COQ, "Props", self.pid + ".v")

    def run(self, tier, seed, replay=None):
        t0 = time.time()
        pid = self.pid
        compare.EXACT_TEXT = self.exact_text
        notes = []
        broken = []        # names of theorems / ties that no longer check

        ok_a, msg_a = infra.gen_tables()
        if not ok_a:
            broken.append("tie(a): tools/gen_tables.py cannot translate src/error.rs (%s)" % msg_a)

        # proofs
        audit = infra.audit_sources()
        if audit:
            broken.append("audit: forbidden constructs: " + "; ".join(audit[:5]))
        target = "Props/%s.vo" % pid
        proof_ok, log = infra.coq_make([target])
        thms = theorem_names(self.props_file())
        deps = coq_deps("Props/%s.v" % pid)
        obligations = 0
        for d in deps:
            if d.startswith("Lemmas/") or d.startswith("Props/"):
                obligations += len(theorem_names(os.path.join(infra.COQ, d)))
        discharged = obligations if proof_ok else 0
        assumptions = {}
        if proof_ok:
            assumptions, aerr = print_assumptions(pid, thms)
            if aerr:
                broken.append("Print Assumptions failed: " + aerr[-300:])
            for n, lines in assumptions.items():
                txt = " ".join(lines)
                if "Closed under the global context" in txt:
                    continue
                axioms = [l.split(":")[0].strip() for l in lines if ":" in l and not l.startswith("Axioms")]
                extra = [a for a in axioms if a not in ALLOWED_AXIOMS]
                if extra or not axioms:
                    broken.append("theorem %s depends on unexpected axioms: %s" % (n, txt[:200]))
        else:
            m = re.search(r"File \"\./([^\"]+)\", line (\d+)", log)
            where = "%s:%s" % (m.group(1), m.group(2)) if m else "?"
            # name the lemma being proved at that point, if we can find it
            lemma = "?"
            if m:
                try:
                    src = open(os.path.join(infra.COQ, m.group(1))).read().splitlines()[:int(m.group(2))]
                    for l in reversed(src):
                        mm = re.match(r"\s*(Theorem|Lemma|Corollary|Example|Definition|Fixpoint)\s+([A-Za-z0-9_']+)", l)
                        if mm:
                            lemma = mm.group(2)
                            break
                except Exception:
                    pass
            broken.append("proof obligation no longer checks: %s (at %s)" % (lemma, where))
            notes.append(log[-1500:])
        if tier == "thorough" and proof_ok:
            rc, out = infra.sh(["coqchk", "-silent", "-o", "-Q", "Model", "BpafModel", "-Q", "Gen", "BpafGen",
                                "-Q", "Lemmas", "BpafLemmas", "-Q", "Props", "BpafProps", "BpafProps." + pid],
                               cwd=infra.COQ, check=False, timeout=3000)
            if rc != 0:
                broken.append("coqchk rejected Props/%s.vo: %s" % (pid, out[-300:]))
            else:
                notes.append("coqchk: " + " ".join(out.split())[-300:])

        # tie (b)
        infra.ensure_vpmodel()
        self.build_impl()
        rng = random.Random(seed * 1000003 + int(hashlib.sha256(pid.encode()).hexdigest()[:6], 16))
        if replay:
            return self.run_replay(replay, broken)
        n = self.quick_n if tier == "quick" else self.thorough_n
        cases = self.corpus() + self.generate(rng, tier, n)
        model, impl = self.execute(cases)
        findings, stats = self.judge(cases, model, impl)

        # verdict
        known = load_known(pid)
        violations, disagreements, known_seen = [], [], {}
        # a known finding is a defect of the unchanged code, which the model reproduces: a violation on a case where model
        # and implementation DISAGREE is something else and is never filed under a known class
        disagree_ids = set(f.case.id for f in findings if f.kind == "disagree" and f.case is not None)
        for f in findings:
            hit = None
            ids = set(x.id for x in [f.case] + list(f.related) if x is not None)
            for kid, cls, text in known:
                if f.kind == "violation" and ids & disagree_ids:
                    break
                if self.known_class(cls, f):
                    hit = (kid, text)
                    break
            if hit:
                known_seen.setdefault(hit[0], [hit[1], 0])
                known_seen[hit[0]][1] += 1
                continue
            (violations if f.kind == "violation" else disagreements).append(f)

        # a broken tie/proof without a violation: directed search for a failing input
        searched = 0
        if (disagreements or broken) and not violations and not replay:
            extra = []
            for f in disagreements[:20]:
                extra.extend(self.directed_search(rng, f))
            if broken and not extra:
                extra = self.generate(rng, tier, min(4 * self.quick_n, 20000))
            if extra:
                searched = len(extra)
                m2, i2 = self.execute(extra)
                f2, _ = self.judge(extra, m2, i2)
                for f in f2:
                    if f.kind == "violation" and not any(self.known_class(cls, f) for _, cls, _ in known):
                        violations.append(f)
                        break

        rc = 0
        out_lines = []
        for kid, (text, cnt) in sorted(known_seen.items()):
            out_lines.append("KNOWN-FINDING: property=%s %s [%s, seen %d times]" % (pid, text, kid, cnt))
        os.makedirs(os.path.join(infra.ROOT, "replays"), exist_ok=True)
        if violations:
            f = violations[0]
            path = self.write_replay(f, model, impl, broken)
            out_lines.append("VIOLATION property=%s replay=%s" % (pid, path))
            out_lines.append("  " + f.detail)
            rc = 1
        elif disagreements or broken:
            f = disagreements[0] if disagreements else None
            path = self.write_replay(f, model, impl, broken)
            out_lines.append("VIOLATION property=%s replay=%s no-failing-input-found" % (pid, path))
            if broken:
                out_lines.append("  " + broken[0])
            if f:
                out_lines.append("  model and implementation disagree: " + f.detail)
            rc = 1

        # evidence
        nontrivial = stats.get("nontrivial_ids")
        ev = {
            "property_id": pid, "tier": tier, "seed": seed, "level": "proof",
            "coverage": {
                "obligations": max(obligations, 1), "discharged": discharged if proof_ok else 0,
                "checker_cmd": "make -C coq Props/%s.vo (coqc 8.16.1, full .vo build)%s; Print Assumptions on every theorem of Props/%s.v"
                               % (pid, " + coqchk -o" if tier == "thorough" else "", pid),
                "trusted_base": TRUSTED_BASE + self.trusted_extra,
                "theorems": thms,
                "assumptions": {k: " ".join(v)[:200] for k, v in assumptions.items()},
                "proof_files": deps,
                "evaluations": len(cases) + searched,
                "distinct_nontrivial": len(set(nontrivial)) if nontrivial is not None else 0,
                "rule": stats.get("rule", ""),
                "samples": [c.describe() for c in cases[:3]] + stats.get("samples", []),
                "traces_validated_against_impl": len(cases),
                "input_distribution": stats.get("distribution", {}),
                "known_findings_seen": {k: v[1] for k, v in known_seen.items()},
                "partial": self.partial,
                "broken": broken,
                "disagreements": len(disagreements),
            },
            "assumptions": ["user closures are pure and total", "the Rust standard library behaves as modelled (UTF-8, FromStr, env)"],
            "wall_s": round(time.time() - t0, 2),
            "violations": len(violations) + (1 if (not violations and (disagreements or broken)) else 0),
        }
        if not replay:
            # (the seeded-change tools redirect this, so that the committed evidence always comes from the unchanged tree)
            evdir = os.environ.get("VERIF_EVIDENCE_DIR") or os.path.join(infra.ROOT, "evidence")
            os.makedirs(evdir, exist_ok=True)
            infra.write_json(os.path.join(evdir, pid + ".json"), ev)
        for l in out_lines:
            print(l)
        print("%s %s: %d cases, %d theorems (%s), %d disagreements, %d violations, %.1fs" % (
            pid, tier, len(cases) + searched, len(thms), "proofs ok" if proof_ok else "PROOFS BROKEN",
            len(disagreements), len(violations), time.time() - t0))
        if replay:
            for c in cases:
                print("case  :", c.line())
                print("model :", model.get(c.id))
                print("impl  :", impl.get(c.id))
        sys.stdout.flush()
        return rc

    def run_replay(self, path, broken):
        """Re-run the recorded input(s) of a replay file on the extracted model and on the implementation built from
        /repo's current tree, print both, and say whether the recorded behaviour reproduces: exit 1 (with the VIOLATION
        line) if it does, or if a proof obligation / the tie is broken; exit 0 if the implementation no longer behaves as
        recorded.  The property oracle itself needs the generator's bookkeeping and is not re-applied: the record says what
        was wrong with this outcome."""
        pid = self.pid
        obj = json.load(open(path))
        rc = 0
        for b in broken:
            print("  " + b)
            rc = 1
        for b in obj.get("broken", []):
            print("recorded: " + b)
        if "case" not in obj:
            if rc:
                print("VIOLATION property=%s replay=%s no-failing-input-found" % (pid, path))
            print("%s replay: no recorded input (the record names a proof obligation or tie); proofs %s"
                  % (pid, "BROKEN" if rc else "ok"))
            return rc
        recs = [{"case": obj["case"], "model": obj.get("model"), "impl": obj.get("impl")}] + list(obj.get("related", []))
        cases = [RawCase(r["case"]) for r in recs]
        lines = [c.line() for c in cases]
        try:
            model, impl = self.replay_execute(cases)
        except Exception as ex:           # inputs that only the property's own harness can run (C17's generated crate)
            print("%s replay: the recorded input cannot be re-run outside the generating run (%s): %s"
                  % (pid, type(ex).__name__, obj.get("detail", "")[:300]))
            return rc
        same_impl = True
        for c, r in zip(cases, recs):
            print("case  :", c.line()[:2000])
            print("model :", model.get(c.id))
            print("impl  :", impl.get(c.id))
            if r.get("impl") is not None and list(r["impl"]) != list(impl.get(c.id) or []):
                same_impl = False
                print("  (recorded implementation outcome: %s)" % (str(r["impl"])[:600],))
        print("recorded %s: %s" % (obj.get("kind"), obj.get("detail", "")[:600]))
        if same_impl:
            print("VIOLATION property=%s replay=%s" % (pid, path))
            print("  reproduced: the implementation behaves as recorded")
            rc = 1
        else:
            print("%s replay: not reproduced -- the implementation no longer behaves as recorded" % pid)
        sys.stdout.flush()
        return rc

    def replay_execute(self, cases):
        lines = [c.line() for c in cases]
        return infra.run_model(lines), infra.run_driver(lines)

    def build_impl(self):
        infra.ensure_driver()

    def execute(self, cases):
        lines = [c.line() for c in cases]
        return infra.run_model(lines), infra.run_driver(lines)

    def write_replay(self, f, model, impl, broken):
        obj = {"property": self.pid, "broken": broken}
        if f is not None:
            obj.update({"detail": f.detail, "kind": f.kind, "case": f.case.line(),
                        "case_readable": f.case.describe(),
                        "model": model.get(f.case.id), "impl": impl.get(f.case.id),
                        "related": [{"case": c.line(), "model": model.get(c.id), "impl": impl.get(c.id)} for c in f.related]})
            key = f.case.line()
        else:
            key = "|".join(broken)
        h = hashlib.sha256(key.encode()).hexdigest()[:12]
        path = os.path.join(infra.ROOT, "replays", "%s-%s.json" % (self.pid, h))
        infra.write_json(path, obj)
        return path

    def load_replay(self, path):
        obj = json.load(open(path))
        lines = []
        if "case" in obj:
            lines.append(obj["case"])
            lines.extend(r["case"] for r in obj.get("related", []))
        return [RawCase(l) for l in lines]


class RawCase(Case):
    """A case known only by its line (replays)."""

    def __init__(self, line):
        self._line = line
        cid = line.split()[1]
        Case.__init__(self, cid, None, [])

    def line(self):
        return self._line

    def describe(self):
        return {"id": self.id, "case": self._line}


TRUSTED_BASE = [
    "Coq 8.16.1 kernel and coqc (vm_compute used only in Examples/witnesses); no native_compute",
    "axioms: none (Print Assumptions = Closed under the global context for every property theorem)",
    "extraction: ExtrOcamlBasic (Extract Inductive for bool, option, unit, list, prod, sumbool, sumor only); OCaml 4.13.1; hand-written runner ocaml/vpmodel.ml",
    "tools/gen_tables.py: regex translator for Message::can_catch and ParseFailure::exit_code",
    "hand-written model coq/Model/*.v of src/{arg,args,params,structs,info,error,meta}.rs and construct!, tied to the code only by the differential correspondence check (Rust driver harness/driver, generators and comparators vlib/*.py)",
    "rustc/cargo, Rust std (from_utf8, FromStr for integers, env) as modelled",
]
