"""Projections: compare a model outcome line with an implementation outcome line."""
from .gen import unhx


def impl_class(impl):
    """Coarse class of a driver line."""
    if impl is None:
        return "MISSING"
    c = impl[0]
    if c == "STDOUT":
        text = unhx(impl[1])
        if text.startswith(b"Version: "):
            return "VERSION"
        return "HELP"
    return c


def help_marker(text):
    """The first line of a help screen is the level's descr marker (generators always set one)."""
    first = text.split(b"\n", 1)[0]
    return first


def project_model(model):
    """Model line -> (class, payload) under the class+value projection."""
    if model is None:
        return ("MISSING", None)
    c = model[0]
    if c == "OK":
        return ("OK", model[1])
    if c == "HELP":
        marker = unhx(model[2]) if model[2] != "-" else None
        return ("HELP", marker)
    if c == "VERSION":
        return ("VERSION", unhx(model[1]))
    if c == "STDERR":
        return ("STDERR", None)
    if c == "PANIC":
        return ("PANIC", None)
    if c == "COMP":
        return ("COMP", model[1])
    return (c, None)


def project_impl(impl):
    c = impl_class(impl)
    if c == "OK":
        return ("OK", impl[1])
    if c == "HELP":
        return ("HELP", help_marker(unhx(impl[1])))
    if c == "VERSION":
        t = unhx(impl[1])
        return ("VERSION", t[len(b"Version: "):].rstrip(b"\n"))
    if c == "STDERR":
        return ("STDERR", None)
    if c == "PANIC":
        return ("PANIC", None)
    if c == "COMP":
        return ("COMP", impl[1])
    return (c, None)


def agree_class_value(model, impl):
    """class+value projection; returns None when they agree, else a short description."""
    pm, pi = project_model(model), project_impl(impl)
    if pm[0] != pi[0]:
        return "class %s vs %s" % (pm[0], pi[0])
    if pm[0] == "HELP":
        if pm[1] is not None and pm[1] != pi[1]:
            return "help level %r vs %r" % (pm[1], pi[1])
        return None
    if pm[0] in ("OK", "VERSION", "COMP") and pm[1] != pi[1]:
        return "payload %r vs %r" % (pm[1], pi[1])
    return None


def stderr_text(impl):
    if impl and impl[0] == "STDERR":
        return unhx(impl[1])
    return None


def model_err(model):
    """(kind, text) of a model STDERR line."""
    if model and model[0] == "STDERR":
        return model[1], unhx(model[2])
    return None, None
