"""Projections: compare a model outcome line with an implementation outcome line."""
from .gen import unhx


def impl_class(impl):
    """Coarse class of a driver line."""
    if impl is None:
        return "MISSING"
    c = impl[0]
    if c == "STDOUT":
        text = unhx(impl[1])
        if text.startswith(b"Version: "):
            return "VERSION"
        return "HELP"
    return c


def help_marker(text):
    """The first line of a help screen is the level's descr marker (generators always set one)."""
    first = text.split(b"\n", 1)[0]
    return first


def project_model(model):
    """Model line -> (class, payload) under the class+value projection."""
    if model is None:
        return ("MISSING", None)
    c = model[0]
    if c == "OK":
        return ("OK", model[1])
    if c == "HELP":
        marker = unhx(model[2]) if model[2] != "-" else None
        return ("HELP", marker)
    if c == "VERSION":
        return ("VERSION", unhx(model[1]))
    if c == "STDERR":
        return ("STDERR", None)
    if c == "PANIC":
        return ("PANIC", None)
    if c == "COMP":
        return ("COMP", model[1])
    return (c, None)


def project_impl(impl):
    c = impl_class(impl)
    if c == "OK":
        return ("OK", impl[1])
    if c == "HELP":
        return ("HELP", help_marker(unhx(impl[1])))
    if c == "VERSION":
        t = unhx(impl[1])
        return ("VERSION", t[len(b"Version: "):].rstrip(b"\n"))
    if c == "STDERR":
        return ("STDERR", None)
    if c == "PANIC":
        return ("PANIC", None)
    if c == "COMP":
        return ("COMP", impl[1])
    return (c, None)


# Set by Property.run: the properties whose statements speak about the message of a failed run (C04: rendering returns,
# C06: the message carries the text, C11: a non-empty message on stderr) compare the rendered text byte for byte; the
# others compare which message is reported (kind + payload against the frame of the text), so that a change of wording
# does not break the tie of properties that do not depend on it.
EXACT_TEXT = False


def agree_class_value(model, impl):
    """class+value projection; returns None when they agree, else a short description."""
    pm, pi = project_model(model), project_impl(impl)
    if pm[0] != pi[0]:
        return "class %s vs %s" % (pm[0], pi[0])
    if pm[0] == "HELP":
        if pm[1] is not None and pm[1] != pi[1]:
            return "help level %r vs %r" % (pm[1], pi[1])
        return None
    if pm[0] in ("OK", "VERSION", "COMP") and pm[1] != pi[1]:
        return "payload %r vs %r" % (pm[1], pi[1])
    if pm[0] == "STDERR" and len(model) >= 3 and len(impl) >= 2:
        # WHICH message the failed run reports (the evaluator's error selection) is modelled; its text is not:
        # the library's text must fit the frame of the kind the model predicts
        kind, payload, text = model[1], unhx(model[2]), unhx(impl[1])
        if not kind_matches(kind, payload, text):
            return "error message: the model reports %s(%r) but the text is %r" % (kind, payload[:60], text[:120])
        # ... and, where the model renders the message itself (Model/Message.v: failures reported by the top level,
        # all items UTF-8), the text byte for byte
        if EXACT_TEXT and len(model) >= 4 and model[3] not in ("-", ""):
            if model[3] == "PANIC" or unhx(model[3]) != text:
                return "error text: model %r vs implementation %r" % (
                    model[3] if model[3] == "PANIC" else unhx(model[3])[:200], text[:200])
    return None


def kind_matches(kind, payload, text):
    """kind: model message kind; payload: the bytes the model attaches (metavariable / user text ...); text: stderr."""
    # the text is wrapped at the terminal width: compare modulo white space
    t = b" ".join(text.split())
    payload = b" ".join(payload.split())
    if kind in ("ParseSome", "ParseFail", "PureFailed"):
        return t == payload
    if kind == "NoEnv":
        return t == b"environment variable `" + payload + b"` is not set"
    if kind == "StrictPos":
        return t.startswith(b"expected `") and t.endswith(b" to be on the right side of `--`")
    if kind == "NonStrictPos":
        return t.startswith(b"expected `") and t.endswith(b" to be on the left side of `--`")
    if kind == "ParseFailed":
        # (for a value that is not UTF-8 the library prefixes the lossy rendering of the value, the model does not)
        return t.startswith(b"couldn't parse") and t.endswith(payload)
    if kind == "GuardFailed":
        return t.endswith(payload) and (t.startswith(b"check failed: ") or b"`: " in t)
    if kind == "NoArgument":
        return b" requires an argument `" in t
    if kind == "Ambiguity":
        return b" as both an option and an option-argument" in t
    suggestion = t.startswith(b"no such ") or b" is not valid in this context, did you mean to pass it to command " in t
    if kind == "Unconsumed":
        return (t.endswith(b" is not expected in this context") or b" cannot be used at the same time as " in t
                or t.endswith(b" cannot be used multiple times in this context") or suggestion)
    if kind == "Missing":
        # summarize_missing: `expected ..`, the hidden-name text, or a typo suggestion for the first leftover item
        return t.startswith(b"expected ") or t.startswith(b"parser requires an extra flag, argument or parameter") or suggestion
    return True


def stderr_text(impl):
    if impl and impl[0] == "STDERR":
        return unhx(impl[1])
    return None


def model_err(model):
    """(kind, text) of a model STDERR line."""
    if model and model[0] == "STDERR":
        return model[1], unhx(model[2])
    return None, None
