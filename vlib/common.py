"""Helpers shared by the property modules: spelling, respelling, permutation, class tests."""
from . import gen, compare


def is_utf8(b):
    try:
        b.decode("utf-8")
        return True
    except UnicodeDecodeError:
        return False


def standalone(v):
    """A separated value must tokenize as a plain word: not a name-looking item, not `--`."""
    return (not v.startswith(b"-")) or v == b"-"


def spellings(node, value):
    """All admissible spellings of one occurrence of argument `node` with `value` (DESIGN 4/C02).
    Returns list of (form, short_or_long_name, items)."""
    out = []
    n = node["n"]
    for l in n["long"]:
        lb = l.encode()
        out.append(("long_eq", l, [b"--" + lb + b"=" + value]))
        if not node["adjacent"] and standalone(value):
            out.append(("long_sep", l, [b"--" + lb, value]))
    for c in n["short"]:
        cb = c.encode()
        out.append(("short_eq", c, [b"-" + cb + b"=" + value]))
        if not node["adjacent"] and standalone(value):
            out.append(("short_sep", c, [b"-" + cb, value]))
        if value and not value.startswith(b"="):
            out.append(("short_adj", c, [b"-" + cb + value]))
    return out


def impl_cv(impl):
    """class+value projection of an implementation line (error text ignored)."""
    return compare.project_impl(impl)


def same_outcome(a, b):
    pa, pb = impl_cv(a), impl_cv(b)
    if pa[0] != pb[0]:
        return False
    if pa[0] in ("OK", "VERSION", "HELP", "COMP"):
        return pa[1] == pb[1]
    return True


def show(impl):
    if impl is None:
        return "MISSING"
    if impl[0] in ("STDOUT", "STDERR"):
        return "%s %r" % (impl[0], gen.unhx(impl[1])[:160])
    return " ".join(impl[:2])


def level_items(pieces, level):
    return [p for p in pieces if p.level == level]


def constrained_shuffle(rng, pieces):
    """Permute whole named occurrences (chunks of kind 'named') of each command level among themselves and
    around the left positionals, keeping: the relative order of chunks of the same group, the order of
    positionals, everything at/after `--` or the command name of a level in place."""
    out = []
    i = 0
    n = len(pieces)
    while i < n:
        lvl = pieces[i].level
        j = i
        while j < n and pieces[j].level == lvl and pieces[j].kind in ("chunk", "pos"):
            j += 1
        seg = pieces[i:j]
        if len(seg) > 1:
            seg = _shuffle_segment(rng, seg)
        out.extend(seg)
        # copy the non-permutable remainder of this level (dd, rpos, cmdname)
        while j < n and not (pieces[j].kind in ("chunk", "pos")):
            out.append(pieces[j])
            j += 1
        i = j
    return out


def _shuffle_segment(rng, seg):
    # random merge preserving order inside each class (group key; all positionals form one class;
    # adjacent blocks are kept in place relative to each other and to positionals)
    def key(p):
        if p.kind == "pos":
            return "pos"
        if p.chunk.kind == "block":
            return "pos"          # blocks keep their order relative to positionals and each other
        return ("g", p.chunk.group)
    queues = {}
    order = []
    for p in seg:
        k = key(p)
        if k not in queues:
            queues[k] = []
            order.append(k)
        queues[k].append(p)
    out = []
    live = [k for k in order]
    while live:
        k = rng.choice(live)
        out.append(queues[k].pop(0))
        if not queues[k]:
            live.remove(k)
    return out


def key_of(piece):
    """the name token of a named occurrence: `--name` / `-n` (without an attached value)"""
    it = piece.items[0]
    if it.startswith(b"--"):
        return it.split(b"=")[0]
    return it[:1] + it[1:].decode("utf-8", "ignore")[:1].encode()


def move_outer(rng, pieces):
    """Move ONE named occurrence of a level that has a subcommand entered to another place between the command name
    that entered its level and `--`, in particular to the right of the NEXT command name: a level claims its options
    wherever they stand (C08), so the outcome must not change.  Occurrences whose name token also occurs elsewhere
    on the line stay (their mutual order matters)."""
    names = [i for i, p in enumerate(pieces) if p.kind == "cmdname"]
    if not names:
        return None
    end = next((i for i, p in enumerate(pieces) if p.kind in ("dd", "rpos")), len(pieces))
    deepest = max(pieces[i].level for i in names) + 1
    cands = []
    for i in range(0, end):
        p = pieces[i]
        if p.kind != "chunk" or p.chunk.kind != "named" or p.level >= deepest:
            continue
        k = key_of(p)
        if sum(1 for q in pieces if q.kind == "chunk" and q.chunk.kind == "named" and key_of(q) == k) > 1:
            continue
        if sum(1 for q in pieces if q.kind == "chunk" and q.chunk.group == p.chunk.group) > 1:
            continue            # occurrences feeding one field keep their order
        cands.append(i)
    if not cands:
        return None
    i = rng.choice(cands)
    p = pieces[i]
    rest = pieces[:i] + pieces[i + 1:]
    end -= 1
    entered = [j for j, q in enumerate(rest) if q.kind == "cmdname" and q.level == p.level - 1]
    lo = entered[0] + 1 if entered else 0
    if end < lo:
        return None
    at = rng.randrange(lo, end + 1)
    return rest[:at] + [p] + rest[at:]


def has_kind(p, kinds):
    return any(x["k"] in kinds for x in gen.walk(p))


def avoid_hidden_short_adj(opts, pieces):
    """A short name declared under hide() is unknown to the tokenizer (known finding C02-hidden-short): do not write
    such an argument as `-Jvalue`, which bpaf reads as a plain word, not as a named occurrence."""
    hidden = set()
    drop = []
    for x in gen.walk(opts):
        if x["k"] == "hide":
            hidden.update(id(y) for y in gen.walk(x["p"]))
    for p in pieces:
        if p.kind == "chunk" and p.chunk.form == "short_adj" and id(p.chunk.node) in hidden:
            nd = p.chunk.node
            nm = nd["n"]["short"][0].encode()
            items = [b"-" + nm + b"=" + p.chunk.value] if len(nm) == 1 else \
                ([b"--" + nd["n"]["long"][0].encode() + b"=" + p.chunk.value] if nd["n"]["long"] else None)
            if items is None and standalone(p.chunk.value) and not nd["adjacent"]:
                items = [b"-" + nm, p.chunk.value]
            if items is not None:
                p.items = items
            else:
                # no spelling of this occurrence is read as a named item (multibyte short name, no long name, value
                # must be attached): leave the occurrence out
                drop.append(p)
    return [p for p in pieces if not any(p is d for d in drop)]
