"""Tiny s-expression reader/printer for value lines."""


def parse(s):
    toks = s.replace("(", " ( ").replace(")", " ) ").split()
    pos = [0]

    def item():
        t = toks[pos[0]]
        pos[0] += 1
        if t == "(":
            out = []
            while toks[pos[0]] != ")":
                out.append(item())
            pos[0] += 1
            return out
        return t
    return item()


def show(t):
    if isinstance(t, list):
        return "(" + " ".join(show(x) for x in t) + ")"
    return t
