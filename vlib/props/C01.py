"""C01 -- Parsing conforms to the declared command-line grammar."""
from .. import gen, compare, common, infra
from ..prop import Property, Case, Finding

TYPES = ["string", "osstring", "u32", "i64"]


def gen_citem(rng, names):
    n = names.named(help_p=0.0)
    kind = rng.choice(["switch", "flag", "reqflag", "count", "reqmany", "arg", "arg", "arg", "arg"])
    it = {"kind": kind, "n": n}
    if kind == "flag":
        it["p"], it["a"] = rng.choice([(gen.vnum(1), gen.vnum(0)), (gen.vbytes(b"on"), gen.vbytes(b"off")), ("true", "false")])
    elif kind in ("reqflag", "reqmany"):
        it["p"] = rng.choice(["unit", gen.vnum(7), gen.vbytes(b"x")])
    elif kind == "arg":
        it["mv"] = rng.choice(gen.METAVARS)
        it["ty"] = rng.choice(TYPES)
        it["ar"] = rng.choice(["required", "optional", "many", "some", "fallback", "last", "optional", "many"])
        if it["ar"] == "fallback":
            it["fv"] = gen.vnum(5) if it["ty"] in ("u32", "i64") else gen.vbytes(b"dflt")
    return it


def gen_conv_level(rng, names, depth=0):
    items = [gen_citem(rng, names) for _ in range(rng.choice([1, 2, 2, 3, 4, 6]))]
    tail_kind = rng.choice(["none", "pos", "pos", "cmds"]) if depth < 2 else rng.choice(["none", "pos"])
    tail = {"kind": tail_kind}
    if tail_kind == "pos":
        ps = []
        for _ in range(rng.choice([0, 1, 2])):
            ps.append({"mv": rng.choice(gen.METAVARS), "ty": rng.choice(TYPES), "par": "req"})
        for _ in range(rng.choice([0, 0, 1])):
            ps.append({"mv": rng.choice(gen.METAVARS), "ty": rng.choice(TYPES), "par": "opt"})
        r = rng.random()
        if r < 0.35:
            ps.append({"mv": rng.choice(gen.METAVARS), "ty": rng.choice(TYPES), "par": "many"})
        elif r < 0.5:
            ps.append({"mv": rng.choice(gen.METAVARS), "ty": rng.choice(TYPES), "par": "some"})
        if not ps:
            ps.append({"mv": "POS", "ty": "string", "par": "req"})
        tail["ps"] = ps
    elif tail_kind == "cmds":
        cs = []
        for _ in range(rng.choice([1, 2, 3])):
            nm = names.cmdname()
            al = [names.cmdname()] if rng.random() < 0.25 else []
            cs.append({"name": nm, "aliases": al, "sub": gen_conv_level(rng, names, depth + 1)})
        tail["cs"] = cs
    if len(items) + (len(tail.get("ps", [])) if tail_kind == "pos" else (1 if tail_kind == "cmds" else 0)) < 2:
        items.append(gen_citem(rng, names))
    return {"items": items, "tail": tail}


def level_sexp(l):
    its = []
    for it in l["items"]:
        nm = gen.named_sexp(it["n"])
        k = it["kind"]
        if k == "switch":
            its.append("(switch %s)" % nm)
        elif k == "flag":
            its.append("(flag %s %s %s)" % (nm, it["p"], it["a"]))
        elif k == "reqflag":
            its.append("(reqflag %s %s)" % (nm, it["p"]))
        elif k == "count":
            its.append("(count %s)" % nm)
        elif k == "reqmany":
            its.append("(reqmany %s %s)" % (nm, it["p"]))
        else:
            ar = "(fallback %s)" % it["fv"] if it["ar"] == "fallback" else it["ar"]
            its.append("(arg %s %s %s %s)" % (nm, gen.hx(it["mv"]), it["ty"], ar))
    t = l["tail"]
    if t["kind"] == "none":
        ts = "(none)"
    elif t["kind"] == "pos":
        ts = "(pos%s)" % "".join(" (p %s %s %s)" % (gen.hx(p["mv"]), p["ty"], p["par"]) for p in t["ps"])
    else:
        ts = "(cmds%s)" % "".join(" (c %s (aliases%s) %s)" % (gen.hx(c["name"]), "".join(" " + gen.hx(a) for a in c["aliases"]),
                                                            level_sexp(c["sub"])) for c in t["cs"])
    return "(level (items%s) %s)" % ("".join(" " + x for x in its), ts)


def compile_py(l):
    """The combinator term a user writes for the level (mirrors Conv.compile)."""
    fields = []
    for it in l["items"]:
        k = it["kind"]
        if k == "switch":
            fields.append(gen.flag(it["n"]))
        elif k == "flag":
            fields.append(gen.flag(it["n"], it["p"], it["a"]))
        elif k == "reqflag":
            fields.append(gen.req_flag(it["n"], it["p"]))
        elif k == "count":
            fields.append(gen.wrap("count", gen.req_flag(it["n"], "unit")))
        elif k == "reqmany":
            fields.append(gen.wrap("many", gen.req_flag(it["n"], it["p"])))
        else:
            a = gen.arg(it["n"], it["mv"], it["ty"])
            ar = it["ar"]
            if ar == "optional":
                a = gen.wrap("optional", a)
            elif ar == "many":
                a = gen.wrap("many", a)
            elif ar == "some":
                a = gen.wrap("some", a, msg="")
            elif ar == "fallback":
                a = gen.wrap("fallback", a, v=it["fv"], show=False)
            elif ar == "last":
                a = gen.wrap("last", a)
            fields.append(a)
    t = l["tail"]
    if t["kind"] == "pos":
        for p in t["ps"]:
            a = gen.pos(p["mv"], p["ty"])
            if p["par"] == "opt":
                a = gen.wrap("optional", a)
            elif p["par"] == "many":
                a = gen.wrap("many", a)
            elif p["par"] == "some":
                a = gen.wrap("some", a, msg="")
            fields.append(a)
    elif t["kind"] == "cmds":
        cmds = [gen.cmd(c["name"], gen.options(compile_py(c["sub"])), aliases=c["aliases"]) for c in t["cs"]]
        fields.append(cmds[0] if len(cmds) == 1 else gen.alt(*cmds))
    return gen.con(*fields)


def all_items(l, out=None):
    out = [] if out is None else out
    out.extend(l["items"])
    if l["tail"]["kind"] == "cmds":
        for c in l["tail"]["cs"]:
            all_items(c["sub"], out)
    return out


def spell_key(rng, n):
    names = [("--" + x).encode() for x in n["long"]] + [("-" + x).encode() for x in n["short"]]
    return rng.choice(names)


def grammar_mutation(rng, lvl, argv):
    """Non-sentences that stay close to the grammar: a value glued to a switch/flag, an argument key without its value, a
    second occurrence of a single-occurrence item, a key followed by `--`, a value that does not convert, a positional too
    many / too few, a subcommand name in the wrong place."""
    argv = list(argv)
    items = all_items(lvl)
    flags = [i for i in items if i["kind"] != "arg"]
    args = [i for i in items if i["kind"] == "arg"]
    op = rng.choice(["flag_value", "flag_value", "key_no_value", "dup_single", "key_dashdash", "bad_number", "extra_word", "drop_word",
                     "flag_twice"])
    pos = rng.randrange(len(argv) + 1)
    if op == "flag_value" and flags:
        argv.insert(pos, spell_key(rng, rng.choice(flags)["n"]) + b"=" + rng.choice([b"x", b"1", b"", b"a=b"]))
    elif op == "key_no_value" and args:
        argv.append(spell_key(rng, rng.choice(args)["n"]))
    elif op == "dup_single" and args:
        a = rng.choice(args)
        v = b"7" if a["ty"] in ("u32", "i64") else b"dup"
        argv.insert(pos, spell_key(rng, a["n"]) + b"=" + v)
    elif op == "key_dashdash" and args:
        argv[pos:pos] = [spell_key(rng, rng.choice(args)["n"]), b"--", b"v"]
    elif op == "bad_number":
        nums = [a for a in args if a["ty"] in ("u32", "i64")]
        if nums:
            argv.insert(pos, spell_key(rng, rng.choice(nums)["n"]) + b"=" + rng.choice([b"x1", b"", b"1.5", b"99999999999999999999", b"-1", b"+"]))
    elif op == "extra_word":
        argv.insert(pos, rng.choice([b"extra", b"7", b"x y"]))
    elif op == "drop_word":
        words = [i for i, a in enumerate(argv) if not a.startswith(b"-")]
        if words:
            del argv[rng.choice(words)]
    elif op == "flag_twice" and flags:
        k = spell_key(rng, rng.choice(flags)["n"])
        argv[pos:pos] = [k, k]
    return argv


class C01(Property):
    pid = "C01"
    quick_n = 4000
    thorough_n = 300000
    partial = ["see coq/Props/C01.v: which refinement theorems between Conv.denote and the evaluator are proved"]

    def generate(self, rng, tier, n):
        cases = []
        k = 0
        while len(cases) < n:
            names = gen.Names(rng, unicode_ok=rng.random() < 0.5)
            lvl = gen_conv_level(rng, names)
            opts = gen.options(compile_py(lvl))
            ls = level_sexp(lvl)
            for j in range(10):
                try:
                    argv = gen.gen_argv(rng, opts, present_p=rng.choice([0.5, 0.8, 1.0]))
                except Exception:
                    argv = []
                m = rng.random()
                role = "sentence"
                if m < 0.45:
                    pass
                elif m < 0.65:
                    role = "mutated"
                    for _ in range(rng.choice([1, 1, 2])):
                        argv = gen.mutate(rng, argv, opts)
                elif m < 0.85:
                    role = "near-miss"
                    argv = grammar_mutation(rng, lvl, argv)
                else:
                    role = "salted"
                    pool = [b"--", b"-", b"word", b"7", b"-7", b"--nope", b"-!", b"", b"x=y", b"\xff", b"--help", b"-h"]
                    for x in gen.walk(opts):
                        if x["k"] in ("flag", "arg"):
                            pool += [b"--" + l.encode() for l in x["n"]["long"]] + [b"-" + c.encode() for c in x["n"]["short"]]
                        if x["k"] == "cmd":
                            pool.append(x["name"].encode())
                    for _ in range(rng.choice([1, 2, 3])):
                        argv.insert(rng.randrange(len(argv) + 1), rng.choice(pool))
                cases.append(Case("g%dv%d" % (k, j), opts, argv, tags={"role": role, "level": ls}))
            k += 1
        return cases

    def execute(self, cases):
        impl = infra.run_driver([c.line() for c in cases])
        lines = ["(conv %s %s (argv%s))" % (c.id, c.tags["level"], "".join(" " + gen.hx(a) for a in c.argv)) for c in cases]
        return infra.run_model(lines), impl

    def judge(self, cases, model, impl):
        out, nontrivial = [], []
        dist = {"ACCEPT": 0, "REJECT": 0, "UNSPEC": 0}
        roles = {}
        for c in cases:
            mc, ic = model.get(c.id), impl.get(c.id)
            if mc is None or mc[0] != "CONV":
                out.append(Finding("model", c, "no verdict from the declarative grammar: %s" % (mc,)))
                continue
            verdict, oper = mc[1], mc[2]
            if len(mc) > 3 and mc[3].rstrip("+") in ("flat_ok", "chain_ok", "tree_ok"):
                # `+`: command names are plain (non-empty, no leading dash), so the converse theorem applies as well
                k3 = "theorem_applies(%s)" % mc[3].rstrip("+")
                dist[k3] = dist.get(k3, 0) + 1
                if verdict.startswith("ACCEPT"):
                    dist["accepted_under_theorem"] = dist.get("accepted_under_theorem", 0) + 1
                if verdict.startswith("REJECT") and (mc[3] == "flat_ok" or mc[3].endswith("+")):
                    dist["rejected_under_theorem"] = dist.get("rejected_under_theorem", 0) + 1
                    if oper.split(" ", 1)[0] == "OK":
                        out.append(Finding("model", c, "the extracted model contradicts C01_tree_complete: rejected by the grammar, "
                                                       "parsed by the evaluator model: %s" % oper[:200]))
            vk = verdict.split(" ", 1)[0]
            dist[vk] = dist.get(vk, 0) + 1
            roles[c.tags["role"] + ":" + vk] = roles.get(c.tags["role"] + ":" + vk, 0) + 1
            pi = compare.project_impl(ic) if ic is not None else ("MISSING", None)
            # the operational model on Coq's compile vs the implementation on the combinator term
            om = oper.split(" ", 1)
            same = (om[0] == pi[0]) and (om[0] != "OK" or om[1] == pi[1])
            if not same:
                out.append(Finding("disagree", c, "evaluator model (Conv.compile) %r vs implementation %s" % (oper[:200], common.show(ic))))
            if vk == "UNSPEC":
                continue
            nontrivial.append(c.line())
            if vk == "ACCEPT":
                want = verdict.split(" ", 1)[1]
                if pi[0] != "OK":
                    out.append(Finding("violation", c, "a sentence of the declared grammar (denoting %s) is not accepted: %s" % (want[:200], common.show(ic))))
                elif pi[1] != want:
                    out.append(Finding("violation", c, "the sentence denotes %s but the parser returned %s" % (want[:300], pi[1][:300])))
            else:
                if pi[0] != "STDERR":
                    out.append(Finding("violation", c, "a vector that is not a sentence of the declared grammar is not reported as a failure "
                                                       "on stderr: %s" % common.show(ic)))
        stats = {"nontrivial_ids": nontrivial, "distribution": dict(dist, **roles),
                 "rule": "random conventional levels (1-6 uniquely named items of every kind and arity, value types String/OsString/u32/"
                         "i64, short/long names and aliases, non-ASCII names; positional suffix Req* Opt* (Many|Some)? or 1-3 subcommands "
                         "with aliases, depth <= 3) x 10 vectors each: sentences generated from the definition (every spelling, interleaved), "
                         "mutated (insert/delete/duplicate/corrupt/respell) and salted with declared names, `--`, help names, odd strings; "
                         "verdict of Conv.denote (declarative scan) vs the implementation: Accept v <-> Ok v, Reject <-> stderr; "
                         "Unspecified skipped; non-trivial = verdict is Accept or Reject"}
        return out, stats

    def known_class(self, cls, f):
        return False


PROP = C01()
