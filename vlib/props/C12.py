"""C12 -- Generated help documents exactly what the parser accepts."""
import copy
import re
from .. import gen, compare, common, infra
from ..prop import Property, Case, Finding

TRANSPARENT = ("optional", "many", "some", "collect", "count", "last", "fallback", "fallback-with", "guard", "parse", "map",
               "group-help", "usage", "hide-usage", "boxed", "complete", "complete-shell")


def mv_text(mv):
    if all(c.isupper() or c.isdigit() or c in "-_" for c in mv):
        return mv
    return "<" + mv + ">"


def term_of(node):
    k = node["k"]
    if k in ("flag", "arg"):
        n = node["n"]
        if n["short"] and n["long"]:
            t = "-%s, --%s" % (n["short"][0], n["long"][0])
        elif n["long"]:
            t = "    --%s" % n["long"][0]
        elif n["short"]:
            t = "-%s" % n["short"][0]
        else:
            return None
        if k == "arg":
            t += "=" + mv_text(node["mv"])
        return t
    if k == "pos":
        return mv_text(node["mv"]) if node["help"] is not None else None
    if k == "cmd":
        return node["name"] + (", " + node["shorts"][0] if node["shorts"] else "")
    return None


def visible_terms(p, in_adj=False, out=None):
    """(term, in_adjacent_block, has_help) for every leaf of this command level not under hide()."""
    if out is None:
        out = []
    k = p["k"]
    if k in ("flag", "arg", "pos", "cmd"):
        t = term_of(p)
        if t is not None:
            has_help = (p["n"]["help"] if k in ("flag", "arg") else p["help"]) is not None
            out.append((t, in_adj, has_help))
    elif k == "con":
        for f in p["fields"]:
            visible_terms(f, in_adj, out)
    elif k == "adj":
        for f in p["fields"]:
            visible_terms(f, True, out)
    elif k == "alt":
        for f in p["alts"]:
            visible_terms(f, in_adj, out)
    elif k == "hide":
        pass
    elif k in TRANSPARENT:
        visible_terms(p["p"], in_adj, out)
    return out


def visible_helps(p, out=None):
    """(term, help text) of every leaf of this command level not under hide() whose help is a plain string."""
    if out is None:
        out = []
    k = p["k"]
    if k in ("flag", "arg", "pos", "cmd"):
        t = term_of(p)
        h = p["n"]["help"] if k in ("flag", "arg") else p["help"]
        if t is not None and isinstance(h, str) and h:
            out.append((t, h))
    elif k in ("con", "adj"):
        for f in p["fields"]:
            visible_helps(f, out)
    elif k == "alt":
        for f in p["alts"]:
            visible_helps(f, out)
    elif k == "hide":
        pass
    elif k in TRANSPARENT:
        visible_helps(p["p"], out)
    return out


def doc_text(docsexp):
    toks = re.findall(r"\((t|s|e) (\w+)(?: (x[0-9a-f]*))?\)", docsexp)
    return "".join(gen.unhx(b).decode("utf-8", "replace") for kind, a, b in toks if kind == "t")


def add_twins(rng, opts, names):
    """Two valued arguments with the same names and metavariable but different help texts, in two alternatives (`--import
    -f FILE` reads, `--export -f FILE` overwrites): both entries belong in the help of that level."""
    levels = [opts] + [x["options"] for x in gen.walk(opts["p"]) if x["k"] == "cmd"]
    o = rng.choice(levels)
    if o["p"]["k"] != "con":
        return False
    sh, lo = names.short(), names.long()
    mk = lambda h: gen.arg(gen.named([sh], [lo], [], h), "FILE", "string")
    a = gen.con(gen.req_flag(names.named(help_p=0.0)), mk("File to read the data from"))
    b = gen.con(gen.req_flag(names.named(help_p=0.0)), mk("File that will be overwritten with the result"))
    o["p"]["fields"].insert(rng.randrange(len(o["p"]["fields"]) + 1) if all(f["k"] not in ("pos", "cmd", "anyp") and not
                            common.has_kind(f, ("pos", "cmd", "anyp")) for f in o["p"]["fields"]) else 0,
                            gen.wrap("optional", gen.alt(a, b), catch=False))
    return True


def doc_terms(docsexp):
    """Text of every (s itemterm)..(e itemterm) span, and the top-level block texts, from the token dump."""
    toks = re.findall(r"\((t|s|e) (\w+)(?: (x[0-9a-f]*))?\)", docsexp)
    terms, cur, depth_term = [], None, 0
    for kind, a, b in toks:
        if kind == "s" and a == "itemterm":
            cur = ""
        elif kind == "e" and a == "itemterm":
            terms.append(cur)
            cur = None
        elif kind == "t" and cur is not None:
            cur += gen.unhx(b).decode("utf-8")
    return terms


def top_blocks(docsexp):
    toks = re.findall(r"\((t|s|e) (\w+)(?: (x[0-9a-f]*))?\)", docsexp)
    blocks, depth, cur = [], 0, ""
    for kind, a, b in toks:
        if kind == "s":
            if a == "block":
                if depth == 0:
                    cur = ""
                depth += 1
        elif kind == "e":
            if a == "block":
                depth -= 1
                if depth == 0:
                    blocks.append(cur)
        elif depth > 0:
            cur += gen.unhx(b).decode("utf-8")
    return blocks


def _named_only(y):
    ks = [z["k"] for z in gen.walk(y)]
    return ("flag" in ks or "arg" in ks) and not any(k in ("pos", "cmd", "any", "adj", "options") for k in ks)


def regroup(rng, opts, names):
    """Nest runs of named fields into sub-groups -- construct!(..) inside construct!(..), bare or under group_help, with a
    leading member that contributes no metadata (a hidden flag, pure) some of the time: the shapes whose help depends on
    looking through empty metadata (peek_front_ty, normalisation of nested And)."""
    for x in list(gen.walk(opts)):
        if x.get("k") != "con" or len(x["fields"]) < 2 or rng.random() > 0.45:
            continue
        f = x["fields"]
        ok = [i for i, y in enumerate(f) if _named_only(y)]
        runs = [(i, j) for i in ok for j in range(i + 1, len(f) + 1) if all(k in ok for k in range(i, j))]
        if not runs:
            continue
        i, j = rng.choice(runs)
        run = f[i:j]
        r = rng.random()
        lead = []
        if r < 0.3:
            lead = [gen.wrap("hide", gen.flag(names.named()))]
        elif r < 0.5:
            lead = [gen.pure(gen.vnum(0))]
        elif r < 0.6:
            lead = [gen.wrap("hide", gen.flag(names.named())), gen.pure("unit")]
        tail = [gen.wrap("hide", gen.flag(names.named()))] if rng.random() < 0.15 else []
        g = gen.con(*(lead + run + tail))
        if rng.random() < 0.7:
            g = gen.wrap("group-help", g, d=rng.choice(["grouped items", "section\nwith a second line"]))
        if rng.random() < 0.15:
            g = gen.wrap("optional", g)
        f[i:j] = [g]


class C12(Property):
    pid = "C12"
    quick_n = 1500
    thorough_n = 50000
    partial = ["C12_usage_line (every visible name appears in the usage line) is not claimed"]

    def generate(self, rng, tier, n):
        cases = []
        k = 0
        while len(cases) < n:
            opts, names = gen.gen_options(rng, features=rng.choice([("alt", "cmd", "pos"), ("alt", "adj", "cmd", "pos")]),
                                          env_p=0.2, allow_catch=False)
            regroup(rng, opts, names)
            if rng.random() < 0.3:
                # help texts of several paragraphs, also as styled documents of several fragments (the short form of --help
                # shows the first paragraph only: what is skipped must not disturb what follows)
                from .C13 import gen_text, styled
                for x in gen.walk(opts):
                    if x["k"] in ("flag", "arg") and rng.random() < 0.5:
                        t = gen_text(rng)
                        x["n"]["help"] = styled(rng, t) if rng.random() < 0.6 else t
            if rng.random() < 0.25:
                add_twins(rng, opts, names)
            if rng.random() < 0.5:
                opts["header"] = "HEADERTEXT here"
                opts["footer"] = "FOOTERTEXT here"
            # command levels reached by generated sentences (the enclosing levels' own items are given, so that a failing
            # parent field does not hide the inner help: known finding C10-parent-field-fails-first)
            env = []
            for x in gen.walk(opts):
                if x["k"] in ("flag", "arg") and x["n"]["env"] and rng.random() < 0.5:
                    ty = x["ty"] if x["k"] == "arg" else "string"
                    env.append((x["n"]["env"][0].encode(), {"u32": b"7", "i64": b"-3"}.get(ty, rng.choice([b"val1", b"x y"]))))
            levels = {(): (opts, [])}
            for _ in range(4):
                pieces = common.avoid_hidden_short_adj(opts, gen.gen_pieces(rng, opts, present_p=0.9))
                path = []
                for i, p in enumerate(pieces):
                    if p.kind == "cmdname":
                        path = path + [p.node["name"].encode()]
                        if tuple(path) not in levels:
                            levels[tuple(path)] = (p.node["options"], gen.flatten(pieces[:i + 1]))
            for path, (o, prefix) in levels.items():
                path = list(path)
                cid = "g%dL%d" % (k, len(cases))
                cases.append(Case(cid, opts, prefix + [b"--help"], env=env, mode="render 100",
                                  tags={"role": "help", "level": o, "group": "g%d" % k, "path": path}))
            # usage-only wrappers: hide_usage / custom_usage around a random field must not change the item lists
            top = opts["p"]
            if top["k"] == "con" and top["fields"]:
                o2 = copy.deepcopy(opts)
                i = rng.randrange(len(o2["p"]["fields"]))
                f = o2["p"]["fields"][i]
                if f["k"] != "cmd" and not (f["k"] == "alt" and any(a["k"] == "cmd" for a in f["alts"])):
                    o2["p"]["fields"][i] = rng.choice([gen.wrap("hide-usage", f), gen.wrap("usage", f, d="custom usage")])
                    cases.append(Case("g%du" % k, o2, [b"--help"], env=env, mode="render 100",
                                      tags={"role": "usage_variant", "group": "g%d" % k}))
            k += 1
        return cases

    @staticmethod
    def level_cmds(p):
        out = []
        k = p["k"]
        if k == "cmd":
            return [p]
        if k == "hide":
            return []
        for c in gen.children(p):
            if c.get("k") != "options":
                out.extend(C12.level_cmds(c))
        return out

    def execute(self, cases):
        impl = infra.run_driver([c.line() for c in cases], per=60)
        lines = []
        for c in cases:
            if c.tags["role"] in ("help", "usage_variant"):
                lines.append(gen.case_line(c.id, c.opts, c.argv, c.env, c.name, "helpdoc", c.feat, c.unset))
        return infra.run_model(lines, per=60), impl

    def judge(self, cases, model, impl):
        out, nontrivial, dist = [], [], {}
        helps = {}
        for c in cases:
            role = c.tags["role"]
            dist[role] = dist.get(role, 0) + 1
            ic = impl.get(c.id)
            if role == "probe":
                if ic is not None and ic[0] == "STDERR" and b"is not expected in this context" in gen.unhx(ic[1]) \
                        and c.tags["item"].split(b"=")[0] in gen.unhx(ic[1]):
                    out.append(Finding("violation", c, "the name %r is shown by --help at this level but the parser does not accept it: %s"
                                       % (c.tags["item"], common.show(ic))))
                continue
            if ic is not None and ic[0] == "RENDER" and ic[1] == "STDERR" and model.get(c.id) is not None \
                    and model[c.id][0] == "STDERR":
                # a field of an enclosing level fails before the inner --help is reached: model and implementation agree on
                # the failure; whether help should win here is C10's subject (known finding C10-parent-field-fails-first)
                dist["parent_failed_first"] = dist.get("parent_failed_first", 0) + 1
                continue
            if ic is None or ic[0] != "RENDER" or ic[1] != "STDOUT":
                out.append(Finding("violation", c, "--help did not produce a help document: %s" % common.show(ic)))
                continue
            mc = model.get(c.id)
            if mc is None or mc[0] != "HELPDOC" or mc[2] != ic[3]:
                out.append(Finding("disagree", c, "help document differs: model %s vs implementation %s" % (
                    (mc[2][:300] if mc and len(mc) > 2 else mc), ic[3][:300])))
            terms = doc_terms(ic[3])
            helps[c.id] = terms
            if role != "help":
                continue
            nontrivial.append(c.line())
            o = c.tags["level"]
            blocks = top_blocks(ic[3])
            descrs = set(x["descr"] for x in gen.walk(c.opts) if x.get("k") == "options" and x.get("descr") is not None)
            if o["descr"] is not None and blocks and blocks[0] != o["descr"] and blocks[0] in descrs:
                # a field of an enclosing level failed first, so bpaf shows that level's help (C10's subject, known finding
                # C10-parent-field-fails-first); the document itself is still compared with the model above
                dist["other_level_shown"] = dist.get("other_level_shown", 0) + 1
                continue
            vis = visible_terms(o["p"])
            expected = [t for t, _, _ in vis]
            extra = ["-h, --help"] + (["-V, --version"] if o["version"] is not None else [])
            shown = [t for t in terms if t != ""]
            for t, in_adj, has_help in vis:
                if in_adj and not has_help:
                    continue          # inside an adjacent block an item without help is shown in the block's usage line only
                if t not in shown:
                    out.append(Finding("violation", c, "the visible item %r is missing from the help of this level (shown: %r)" % (t, shown)))
                    break
            # the text shown (monochrome rendering of that document in the form the outcome has) holds every item term of
            # the document: names, metavariables and what follows them are not eaten by the renderer
            shown_text = b"".join(gen.unhx(ic[4]).split())
            for t in shown:
                if b"".join(t.encode().split()) not in shown_text:
                    out.append(Finding("violation", c, "the item %r of the help document is missing from the text --help prints: %r"
                                       % (t, gen.unhx(ic[4])[:600])))
                    break
            text = doc_text(ic[3])
            for t, h in visible_helps(o["p"]):
                if h not in text:
                    out.append(Finding("violation", c, "the help text %r of the visible item %r is missing from the help of this level"
                                       % (h, t)))
                    break
            for t in shown:
                if t not in expected and t not in extra:
                    out.append(Finding("violation", c, "help lists %r which is not a visible item of this level (hidden, alias or "
                                                       "foreign)" % t))
                    break
            for t in extra:
                if t not in shown:
                    out.append(Finding("violation", c, "the %s flag is missing from the help" % t))
            if o["descr"] is not None and (not blocks or blocks[0] != o["descr"]):
                out.append(Finding("violation", c, "the description is not the first block: %r" % blocks[:2]))
            if o.get("footer") is not None and (not blocks or blocks[-1] != o["footer"]):
                out.append(Finding("violation", c, "the footer is not the last block: %r" % blocks[-2:]))
            if o.get("header") is not None:
                hx = [i for i, b in enumerate(blocks) if b == o["header"]]
                ux = [i for i, b in enumerate(blocks) if b.startswith("Usage: ")]
                ax = [i for i, b in enumerate(blocks) if b.startswith("Available ")]
                if not hx or not ux or hx[0] < ux[0] or (ax and hx[0] > ax[0]):
                    out.append(Finding("violation", c, "the header is not between the usage line and the item lists: %r" % blocks))
        for c in cases:
            if c.tags["role"] == "usage_variant" and c.id in helps:
                base = next((x for x in cases if x.tags["role"] == "help" and x.tags["group"] == c.tags["group"] and not x.tags["path"]), None)
                if base is not None and base.id in helps and helps[base.id] != helps[c.id]:
                    out.append(Finding("violation", c, "hide_usage/custom_usage changed the item lists: %r vs %r" % (helps[base.id], helps[c.id]), related=[base]))
        stats = {"nontrivial_ids": nontrivial, "distribution": dist,
                 "rule": "random definitions (all wrappers, group_help, hidden parts, alternatives, adjacent groups, nested commands, "
                         "env-backed items with set/unset variables) x --help at every command level reachable by a path of command "
                         "names; the implementation's Doc (token list) is compared with the model's render_help token for token; oracle "
                         "from the AST: item terms shown = visible leaves (+ help/version), order of blocks, usage-only wrappers; non-trivial = help document obtained for a level"}
        return out, stats

    def known_class(self, cls, f):
        return False


PROP = C12()
