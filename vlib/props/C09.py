"""C09 -- `--` ends option processing; strict positionals honour it."""
from .. import gen, compare, common
from ..prop import Property, Case, Finding

DASHY = [b"-x", b"--y", b"--", b"--help", b"-h", b"--version", b"-", b"--z=1", b"-abc", b"--alpha", b"-a"]


def hexb(b):
    return "(bytes %s)" % gen.hx(b)


class C09(Property):
    pid = "C09"
    quick_n = 3000
    thorough_n = 120000

    def gen_def(self, rng):
        names = gen.Names(rng)
        fields = []
        for _ in range(rng.choice([0, 1, 2])):
            fields.append(gen.gen_named_item(rng, names))
        strict = rng.choice(["free", "strict", "nonstrict", "free", "strict"])
        shape = rng.choice(["one", "two", "many", "opt", "one_many", "some"])
        mk = lambda mv, st=None: gen.pos(mv, rng.choice(["osstring", "string", "osstring"]), st or strict)
        if shape == "one":
            fields.append(mk("A"))
        elif shape == "two":
            fields += [mk("A"), mk("B", rng.choice(["free", strict]))]
        elif shape == "many":
            fields.append(gen.wrap("many", mk("A")))
        elif shape == "opt":
            fields.append(gen.wrap("optional", mk("A")))
        elif shape == "one_many":
            fields += [mk("A", "free" if strict == "strict" else strict), gen.wrap("many", mk("B"))]
        else:
            fields.append(gen.wrap("some", mk("A"), msg="need one"))
        p = gen.con(*fields) if len(fields) > 1 else fields[0]
        if rng.random() < 0.3:
            inner = gen.options(p, descr="Lsub")
            outer_fields = [gen.gen_named_item(rng, names)] if rng.random() < 0.5 else []
            outer_fields.append(gen.cmd(names.cmdname(), inner, help="sub"))
            p = gen.con(*outer_fields) if len(outer_fields) > 1 else outer_fields[0]
        return gen.options(p, descr="Ltop", version="1.0" if rng.random() < 0.3 else None)

    def generate(self, rng, tier, n):
        cases = []
        k = 0
        while len(cases) < n:
            if rng.random() < 0.1:
                cases.append(self.split_case(rng, k) if rng.random() < 0.6 else self.rest_case(rng, k))
                k += 1
                continue
            opts = self.gen_def(rng)
            for _ in range(3):
                gid = "g%d" % k
                k += 1
                s = gen.Sentence()
                gen.gen_sentence(rng, opts["p"], s, 0.7)
                pieces = gen.pieces_of(rng, s, True)
                # words: unique sentinels so that substitution in the value is well defined
                left = [p for p in pieces if p.kind == "pos"]
                right = [p for p in pieces if p.kind == "rpos"]
                for i, p in enumerate(left + right):
                    p.items = [b"W%dq" % i]
                # sometimes move free words to the right of a `--` we add ourselves
                argv = gen.flatten(pieces)
                if b"--" not in argv and rng.random() < 0.6:
                    # put `--` somewhere after the last named chunk (or anywhere, to provoke errors)
                    posn = rng.randrange(0, len(argv) + 1)
                    argv = argv[:posn] + [b"--"] + argv[posn:]
                cases.append(Case(gid + "b", opts, argv, tags={"role": "base", "group": gid}))
                if b"--" in argv:
                    dd = argv.index(b"--")
                    # substitute each right-side sentinel by dash-looking data
                    j = 0
                    for ix in range(dd + 1, len(argv)):
                        if not (argv[ix].startswith(b"W") and argv[ix].endswith(b"q")):
                            # a name-looking / command-looking item that ended up right of `--`: opaque data too
                            a2 = list(argv)
                            # other data of the same lexical kind (what a typed positional can tell apart is the CONTENT of a
                            # word -- digits, valid UTF-8 -- never whether it looks like an option)
                            old = argv[ix]
                            if not common.is_utf8(old):
                                a2[ix] = b"Z\xff%dq" % ix
                            elif old.isdigit():
                                a2[ix] = b"7" * len(old)
                            elif old[:1] in (b"-", b"+") and old[1:].isdigit():
                                a2[ix] = old[:1] + b"7" * (len(old) - 1)
                            else:
                                a2[ix] = b"Z%dq" % ix
                            cases.append(Case("%ss%d" % (gid, j), opts, a2,
                                              tags={"role": "subst", "group": gid, "old": argv[ix], "new": a2[ix], "classonly": True}))
                            j += 1
                        else:
                            own = [x["name"].encode() for x in gen.walk(opts) if x["k"] == "cmd"]
                            for x in gen.walk(opts):
                                if x["k"] in ("flag", "arg"):
                                    own += [b"--" + l.encode() for l in x["n"]["long"]] + [b"-" + c.encode() for c in x["n"]["short"]]
                            for item in rng.sample(DASHY, 3) + (rng.sample(own, min(2, len(own))) if own else []):
                                a2 = list(argv)
                                a2[ix] = item
                                cases.append(Case("%ss%d" % (gid, j), opts, a2,
                                                  tags={"role": "subst", "group": gid, "old": argv[ix], "new": item}))
                                j += 1
                    # insert dash-looking data on the right side
                    for _ in range(2):
                        ix = rng.randrange(dd + 1, len(argv) + 1)
                        item = rng.choice(DASHY)
                        cases.append(Case("%si%d" % (gid, j), opts, argv[:ix] + [item] + argv[ix:],
                                          tags={"role": "rinsert", "group": gid, "new": item}))
                        j += 1
                    # `--name --`: an argument name directly before the separator
                    args = [x for x in gen.walk(opts) if x["k"] == "arg" and not x["adjacent"]]
                    if args:
                        a = rng.choice(args)
                        key = (b"--" + a["n"]["long"][0].encode()) if a["n"]["long"] else (b"-" + a["n"]["short"][0].encode())
                        cases.append(Case(gid + "k", opts, argv[:dd] + [key] + argv[dd:],
                                          tags={"role": "keydd", "group": gid}))
        return cases

    @staticmethod
    def split_case(rng, k):
        """The documented way to split the words of a line at the separator: a `non_strict` positional under
        many/optional/fallback takes the words on the left, `strict().many()` the words on the right."""
        names = gen.Names(rng)
        sw = gen.flag(names.named())
        w = rng.choice(["many", "many", "optional", "fallback"])
        a = gen.pos("A", rng.choice(["string", "osstring"]), "nonstrict")
        if w == "many":
            first, nl = gen.wrap("many", a), rng.choice([0, 1, 2, 3])
        elif w == "optional":
            first, nl = gen.wrap("optional", a), rng.choice([0, 1])
        else:
            first, nl = gen.wrap("fallback", a, v=gen.vbytes(b"dflt"), show=False), rng.choice([0, 1])
        rest = gen.wrap("many", gen.pos("B", rng.choice(["string", "osstring"]), "strict"))
        opts = gen.options(gen.con(sw, first, rest), descr="Lsplit")
        nr = rng.choice([0, 1, 1, 2, 3])
        left = [b"W%dq" % i for i in range(nl)]
        right = [rng.choice([b"W%dq" % (nl + i), b"W%dq" % (nl + i), rng.choice(DASHY)]) for i in range(nr)]
        if rng.random() < 0.4:
            left.insert(rng.randrange(0, len(left) + 1), gen.spell_flag(rng, sw))
        argv = left + [b"--"] + right
        lw = [x for x in left if x.startswith(b"W")]
        if w == "many":
            fv = gen.vlist([hexb(x) for x in lw])
        elif w == "optional":
            fv = "(some %s)" % hexb(lw[0]) if lw else "none"
        else:
            fv = hexb(lw[0]) if lw else hexb(b"dflt")
        want = gen.vtuple(["true" if len(left) != len(lw) else "false", fv, gen.vlist([hexb(x) for x in right])])
        return Case("g%dz" % k, opts, argv, tags={"role": "split", "group": "g%dz" % k, "want": want, "wrap": w})

    @staticmethod
    def rest_case(rng, k):
        """The documented way to collect the rest of a line verbatim: `any("REST", Some).many()` (optionally inside a
        subcommand) receives every item to the right of `--` as it is -- dash-looking items and later `--` included."""
        names = gen.Names(rng)
        sw = gen.flag(names.named())
        rest = gen.wrap(rng.choice(["many", "many", "some"]), {"k": "anyp", "mv": "REST", "menu": 0, "txt": b"lit", "anywhere": False},
                        msg="need one", catch=False)
        p = gen.con(sw, rest)
        pre = []
        if rng.random() < 0.3:
            cn = names.cmdname()
            p = gen.cmd(cn, gen.options(p, descr="Lrun"), help="run")
            pre = [cn.encode()]
        opts = gen.options(p, descr="Lrest")
        nr = rng.choice([1, 1, 2, 3, 5])
        right = [rng.choice([b"W%dq" % i, b"W%dq" % i, rng.choice(DASHY)]) for i in range(nr)]
        flagged = rng.random() < 0.5
        argv = pre + ([gen.spell_flag(rng, sw)] if flagged else []) + [b"--"] + right
        want = gen.vtuple(["true" if flagged else "false", gen.vlist([hexb(x) for x in right])])
        return Case("g%dy" % k, opts, argv, tags={"role": "split", "group": "g%dy" % k, "want": want, "wrap": "any-rest",
                                                  "what": "`any(..)` under many/some must receive every item to the right of `--` verbatim"})

    def judge(self, cases, model, impl):
        out, base, nontrivial, dist = [], {}, [], {}
        for c in cases:
            if c.tags.get("role") == "split":
                nontrivial.append(c.line())
                ic = impl.get(c.id)
                if compare.impl_class(ic) != "OK" or ic[1] != c.tags["want"]:
                    out.append(Finding("violation", c, "%s: expected OK %s, got %s"
                                       % (c.tags.get("what", "a non_strict positional under `%s` followed by strict().many() must split "
                                                                     "the words at `--`" % c.tags["wrap"]),
                                          c.tags["want"], common.show(ic))))
        for c in cases:
            r = compare.agree_class_value(model.get(c.id), impl.get(c.id))
            if r:
                out.append(Finding("disagree", c, r))
            if c.tags.get("role") == "base":
                base[c.tags["group"]] = c
        for c in cases:
            role = c.tags.get("role")
            dist[role] = dist.get(role, 0) + 1
            b = base.get(c.tags.get("group"))
            ic = impl.get(c.id)
            if role == "base" and compare.impl_class(ic) == "OK" and b"--" in c.argv:
                # the separator itself is never delivered (no other `--` is on this line)
                if c.argv.count(b"--") == 1 and hexb(b"--") in ic[1]:
                    out.append(Finding("violation", c, "the `--` separator was delivered as a value: " + ic[1]))
            if role == "subst" and b is not None:
                bc = compare.impl_class(impl.get(b.id))
                if bc == "OK" and c.tags.get("classonly"):
                    nontrivial.append(c.line())
                    if compare.impl_class(ic) != "OK":
                        out.append(Finding("violation", c,
                                           "replacing %r (to the right of `--`) by the plain word %r turned an accepted line into %s: "
                                           "the item had been interpreted, not treated as positional data"
                                           % (c.tags["old"], c.tags["new"], common.show(ic)), related=[b]))
                elif bc == "OK":
                    nontrivial.append(c.line())
                    want = impl.get(b.id)[1].replace(hexb(c.tags["old"]), hexb(c.tags["new"]))
                    okv = compare.impl_class(ic) == "OK" and ic[1] == want
                    # (all substituted data is UTF-8, so string-typed positionals accept it)
                    if not okv:
                        out.append(Finding("violation", c,
                                           "data %r to the right of `--` was not delivered verbatim to the positional that took %r: "
                                           "expected %s, got %s" % (c.tags["new"], c.tags["old"], want, common.show(ic)), related=[b]))
                elif bc in ("STDERR", "HELP", "VERSION") and compare.impl_class(ic) != bc:
                    # data right of `--` is opaque: swapping one word for other data cannot change the class
                    out.append(Finding("violation", c,
                                       "replacing the word %r to the right of `--` by %r changed the outcome class from %s to %s: "
                                       "right-side data was interpreted (%s)" % (c.tags["old"], c.tags["new"], bc,
                                                                                 compare.impl_class(ic), common.show(ic)), related=[b]))
            if role == "rinsert":
                # whatever happens, it is never help/version output and never treated as a name: the
                # outcome class must not be HELP/VERSION
                if compare.impl_class(ic) in ("HELP", "VERSION") and b is not None and \
                        compare.impl_class(impl.get(b.id)) not in ("HELP", "VERSION"):
                    out.append(Finding("violation", c, "an item to the right of `--` (%r) was taken as a help/version request"
                                       % (c.tags["new"],), related=[b]))
            if role == "keydd":
                if compare.impl_class(ic) == "OK" and b is not None and c.argv.count(b"--") == 1 and hexb(b"--") in ic[1]:
                    out.append(Finding("violation", c, "`--name --` used the separator as the argument's value: " + ic[1]))
        stats = {"nontrivial_ids": nontrivial, "distribution": dist,
                 "rule": "definitions with 1-3 positionals of every strictness/arity (+ named items, optional subcommand) x "
                         "sentences with unique sentinel words x `--` at random positions; right-side words replaced by / "
                         "extended with dash-looking data (-x --y -- --help ...); `--name --`; non-trivial = substitution "
                         "on the right of `--` in a line the implementation accepted"}
        return out, stats


PROP = C09()
