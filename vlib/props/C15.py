"""C15 -- Completion scripts for real shells are well-formed and inert."""
import re
from .. import gen, compare, common, infra
from ..prop import Property, Case, Finding

NASTY = ["$(touch x)", "`id`", "; rm -rf /", "a b", "it's", "'", "''", "\\'", "x\\", "a\"b", "$HOME", "${IFS}", "&& true", "| cat",
         ">out", "<in", "*", "?", "[a]", "{a,b}", "~", "#c", "!!", "naïve", "日本", "--flag", "-x", "=", "a=b", "\\n", "tab\tin",
         "(paren)", "café 'q' $(x)", "x';id;'", "\\';id;'", "%s", "\\\\", "a\nb"]
PLAIN = ["--alpha", "--beta", "-a", "build", "run", "FILE", "val1", "--num=N", "x"]

QW = r"(?:'[^']*'|\\')+"


def unq(w):
    out, i = [], 0
    while i < len(w):
        if w[i] == "'":
            j = w.index("'", i + 1)
            out.append(w[i + 1:j])
            i = j + 1
        elif w[i] == "\\" and w[i + 1:i + 2] == "'":
            out.append("'")
            i += 2
        else:
            raise ValueError("unquoted text %r" % w[i:])
    return "".join(out)


def qtext(s):
    """Split text into lines without breaking inside single quotes (a quoted newline is data)."""
    lines, cur, inq, i = [], "", False, 0
    while i < len(s):
        ch = s[i]
        if ch == "'" and not (not inq and i > 0 and s[i - 1] == "\\"):
            inq = not inq
        if ch == "\n" and not inq:
            lines.append(cur)
            cur = ""
        else:
            cur += ch
        i += 1
    return lines, cur, inq


def show_item(it):
    subst, pretty, group, help_ = it
    if help_ is not None:
        if subst == "":
            return "%s: %s" % (pretty, help_)
        return "%s -- %s" % (pretty + " " * max(0, 24 - len(pretty)), help_)
    return pretty


class C15(Property):
    pid = "C15"
    quick_n = 3000
    thorough_n = 100000

    def build_impl(self):
        infra.ensure_driver()

    def gen_str(self, rng, nasty_p=0.5, allow_nl=True):
        if rng.random() < nasty_p:
            s = rng.choice(NASTY)
            if not allow_nl:
                s = s.replace("\n", " ").replace("\t", " ")
            if rng.random() < 0.3:
                s = s + rng.choice(PLAIN)
            return s
        return rng.choice(PLAIN)

    def generate(self, rng, tier, n):
        cases = []
        for k in range(n):
            rev = rng.choice([7, 8, 7, 8, 9, 1])
            lineish = rev in (1, 9)
            nitems = rng.choice([0, 1, 1, 2, 3, 5])
            items = []
            grp = None
            for _ in range(nitems):
                kind = rng.random()
                if kind < 0.2:
                    subst, pretty = "", rng.choice(["FILE", "<path>", self.gen_str(rng, 0.3, not lineish)])
                else:
                    subst = self.gen_str(rng, 0.5, not lineish)
                    pretty = subst if rng.random() < 0.6 else subst + "=" + rng.choice(["N", "VAL"])
                if rng.random() < 0.3:
                    grp = self.gen_str(rng, 0.4, False) if rng.random() < 0.5 else grp
                g = grp if rng.random() < 0.5 else None
                h = self.gen_str(rng, 0.4, False) if rng.random() < 0.5 else None
                items.append((subst, pretty, g, h))
            ops = []
            for _ in range(rng.choice([0, 0, 0, 1, 1, 2])):
                o = rng.random()
                mask = rng.choice([None, "*.rs", "*.(c|h)", "(txt|md)", self.gen_str(rng, 0.6, False)])
                if o < 0.35:
                    ops.append(("file", mask))
                elif o < 0.6:
                    ops.append(("dir", mask))
                elif o < 0.8:
                    ops.append(("raw", "_my_bash_fn", "_my_zsh_fn", "my_fish", "my_elvish"))
                else:
                    ops.append(("nothing",))
            lit = self.gen_str(rng, 0.7, not lineish)
            cases.append(ShellCase("s%d" % k, rev, items, ops, lit, "app"))
        return cases

    def execute(self, cases):
        lines = [c.line() for c in cases]
        return infra.run_model(lines), infra.run_driver(lines)

    def judge(self, cases, model, impl):
        out, nontrivial, dist = [], [], {}
        for c in cases:
            mc, ic = model.get(c.id), impl.get(c.id)
            dist["rev%d" % c.rev] = dist.get("rev%d" % c.rev, 0) + 1
            if ic is None or ic[0] != "SHELL":
                out.append(Finding("violation", c, "the renderer did not return normally: %s" % (ic,)))
                continue
            if mc is None or mc[0] != "SHELL" or mc[1] != ic[1]:
                out.append(Finding("disagree", c, "script text differs: model %r vs implementation %r" %
                                   (gen.unhx(mc[1])[:200] if mc and len(mc) > 1 and mc[0] == "SHELL" else mc, gen.unhx(ic[1])[:200])))
            text = gen.unhx(ic[1]).decode("utf-8")
            nontrivial.append(c.line())
            why = self.check(c, text)
            if why:
                out.append(Finding("violation", c, "rev %d output is not a well-formed, inert script: %s\n%s" % (c.rev, why, text[:400])))
        stats = {"nontrivial_ids": nontrivial, "distribution": dist,
                 "rule": "candidate lists (0-5 items: substitution, display, group, help), shell operations (File/Dir with masks, Raw, "
                         "Nothing) and typed words over shell metacharacters, quotes, backslashes, `$()`, `;`, newlines, non-ASCII x "
                         "revisions 7 (zsh), 8 (bash), 9 (fish), 1 (elvish), rendered by the library's renderers (hook) and by the model; "
                         "oracle: independent per-shell line lexers re-read the script"}
        return out, stats

    # ---------------------------------------------------------------- independent lexers
    def check(self, c, text):
        if c.rev in (7, 8):
            lines, rest, inq = qtext(text)
            if inq:
                return "unbalanced single quote"
            if rest != "":
                return "last directive is not newline-terminated: %r" % rest[:80]
            return self.check_zsh(c, lines) if c.rev == 7 else self.check_bash(c, lines)
        if text and not text.endswith("\n"):
            return "last row is not newline-terminated"
        rows = text.split("\n")[:-1] if text else []
        if c.rev == 9:
            want = [it for it in reversed(c.items) if it[0] != ""]
            exp = [(it[0] + ("\t" + it[3] if it[3] is not None else "")) for it in want]
            if not c.items and not c.ops:
                exp = [c.lit] + exp
        else:
            if len(c.items) == 1:
                exp = [c.items[0][0]]
            else:
                exp = [(it[0] + ("\t" + it[3].split("\n")[0] if it[3] is not None else "")) for it in c.items]
        if rows != exp:
            return "rows %r instead of %r" % (rows[:6], exp[:6])
        return None

    def expected_ops(self, c, shell):
        out = []
        for o in c.ops:
            if o[0] == "file":
                out.append(("file", o[1]))
            elif o[0] == "dir":
                out.append(("dir", o[1]))
            elif o[0] == "raw":
                out.append(("raw", o[1] if shell == "bash" else o[2]))
        return out

    @staticmethod
    def bashmask(m):
        if m.startswith("*."):
            m = m[2:]
        return "@" + m if m.startswith("(") else m

    def check_bash(self, c, lines):
        got_ops, got_words = [], []
        init = r"local cur prev words cword ; _init_completion \|\| return ; _filedir"
        for ln in lines:
            if ln == "":
                continue
            m = re.fullmatch(r"COMPREPLY\+=\( ?((?:%s)(?: (?:%s))*) ?\)" % (QW, QW), ln)
            if m:
                for w in re.findall(QW, m.group(1)):
                    got_words.append(unq(w))
                continue
            m = re.fullmatch(init + r"( -d)?(?: (%s))?" % QW, ln)
            if m:
                got_ops.append(("dir" if m.group(1) else "file", unq(m.group(2)) if m.group(2) else None))
                continue
            if any(o[0] == "raw" and o[1] == ln for o in c.ops):
                got_ops.append(("raw", ln))
                continue
            return "unrecognised directive %r" % ln[:120]
        want_ops = [(k, (self.bashmask(m) if (k != "raw" and m is not None) else m)) for k, m in self.expected_ops(c, "bash")]
        if got_ops != want_ops:
            return "shell completers %r instead of %r" % (got_ops, want_ops)
        # candidates
        if not c.items and not c.ops:
            want = [c.lit]
        elif len(c.items) == 1:
            it = c.items[0]
            want = [it[1], ""] if it[0] == "" else [it[0]]
        else:
            want, prev = [], ""
            for it in c.items:
                if it[2] is not None and it[2] != prev:
                    prev = it[2]
                    want.append(it[2])
                want.append(show_item(it))
        if got_words != want:
            return "COMPREPLY words %r instead of %r" % (got_words[:8], want[:8])
        return None

    def check_zsh(self, c, lines):
        got_ops, got = [], []
        for ln in lines:
            m = re.fullmatch(r"compadd -- (%s)" % QW, ln)
            if m:
                got.append(("add", unq(m.group(1))))
                continue
            if ln == "compadd ''":
                got.append(("add", ""))
                continue
            if ln == "local -a descr":
                continue
            m = re.fullmatch(r"descr=\((%s)\)" % QW, ln)
            if m:
                got.append(("descr", unq(m.group(1))))
                continue
            m = re.fullmatch(r"compadd -l -d descr -V (%s) -X (%s) -- (%s)" % (QW, QW, QW), ln)
            if m:
                if unq(m.group(1)) != unq(m.group(2)):
                    return "group mismatch"
                got.append(("gadd", unq(m.group(1)), unq(m.group(3))))
                continue
            m = re.fullmatch(r"compadd -l -V nosort -d descr -- (%s)" % QW, ln)
            if m:
                got.append(("nadd", unq(m.group(1))))
                continue
            m = re.fullmatch(r"_files( -/)?(?: -g (%s))?" % QW, ln)
            if m:
                got_ops.append(("dir" if m.group(1) else "file", unq(m.group(2)) if m.group(2) else None))
                continue
            if any(o[0] == "raw" and o[2] == ln for o in c.ops):
                got_ops.append(("raw", ln))
                continue
            return "unrecognised directive %r" % ln[:120]
        want_ops = self.expected_ops(c, "zsh")
        if got_ops != want_ops:
            return "shell completers %r instead of %r" % (got_ops, want_ops)
        if not c.items and not c.ops:
            want = [("add", c.lit)]
        elif len(c.items) == 1:
            it = c.items[0]
            want = [("add", it[1]), ("add", "")] if it[0] == "" else [("add", it[0])]
        else:
            want = []
            for it in c.items:
                want.append(("descr", show_item(it)))
                want.append(("gadd", it[2], it[0]) if it[2] is not None else ("nadd", it[0]))
        if got != want:
            return "directives %r instead of %r" % (got[:6], want[:6])
        return None

    def known_class(self, cls, f):
        return False


class ShellCase(Case):
    def __init__(self, cid, rev, items, ops, lit, app):
        Case.__init__(self, cid, None, [])
        self.rev, self.items, self.ops, self.lit, self.app = rev, items, ops, lit, app

    def line(self):
        def h(s):
            return "-" if s is None else gen.hx(s)
        its = " ".join("(i %s %s %s %s)" % (gen.hx(a), gen.hx(b), h(g), h(hh)) for a, b, g, hh in self.items)
        ops = []
        for o in self.ops:
            if o[0] in ("file", "dir"):
                ops.append("(%s %s)" % (o[0], h(o[1])))
            elif o[0] == "raw":
                ops.append("(raw %s %s %s %s)" % tuple(gen.hx(x) for x in o[1:]))
            else:
                ops.append("(nothing)")
        return "(shell %s %d (items %s) (ops %s) (lit %s) (app %s))" % (self.id, self.rev, its, " ".join(ops), gen.hx(self.lit), gen.hx(self.app))

    def describe(self):
        return {"id": self.id, "rev": self.rev, "items": self.items, "ops": self.ops, "typed_word": self.lit, "case": self.line()}


PROP = C15()
