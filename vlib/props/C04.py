"""C04 -- Running a parser is total, terminating and pure."""
from .. import gen, compare, common
from ..prop import Property, Case, Finding

WEIRD = [b"", b"-", b"--", b"---", b"-=", b"--=", b"--=x", b"-x=", b"=", b"\xff", b"-\xff", b"--\xff=1", b"-a\xff",
         b"--a\xffb", b"a" * 300, b"-" + b"v" * 400, b"--" + b"n" * 200 + b"=1", b" ", b"\t", b"-\xc3", "-é".encode(),
         "--é=é".encode(), b"-1", b"-1.5", b"--1", b"- ", b"-- ", b"-h", b"--help", b"-V", b"--version", b"-hh", b"-hV",
         # unknown names made of multi-byte characters (the "did you mean" machinery measures distances in characters)
         "--日本語日本語日本語".encode(), "日本語日本語".encode(), "--größenwahnsinnig".encode(), "ножницы-бумага".encode(),
         "--ключ=значение".encode(), "-日本".encode(), "--🦀🦀🦀🦀🦀".encode()]


def gen_any(rng):
    k = rng.choice([0, 1, 2])
    return {"k": "anyp", "mv": "ANY", "menu": k, "txt": b"lit", "anywhere": rng.random() < 0.5}


class C04(Property):
    pid = "C04"
    exact_text = True
    quick_n = 3000
    thorough_n = 150000
    partial = ["totality is proved for the definitions `oko` accepts (adjacent groups with `any`/subcommand/nested-group members "
               "are outside: their fuel/panic outcomes are explicit and compared); error rendering returns for EVERY definition; "
               "purity is not a theorem (Gallina functions are pure by construction) and is tied by re-running the same OptionParser"]

    def gen_def(self, rng):
        r = rng.random()
        if r < 0.08:
            # a short name declared both as a flag and as an argument (in two alternatives) next to plain flags
            names = gen.Names(rng, unicode_ok=rng.random() < 0.3)
            c = names.short()
            v = names.short()
            amb = gen.alt(gen.req_flag(gen.named(short=[c]), "unit"), gen.arg(gen.named(short=[c]), "X", "string"))
            fields = [gen.flag(gen.named(short=[v])), rng.choice([amb, gen.wrap("optional", amb), gen.wrap("many", amb)])]
            if rng.random() < 0.5:
                fields.append(gen.wrap("many", gen.pos("W", "string")))
            opts = gen.options(gen.con(*fields), descr="Lamb")
            opts["_argv_pool"] = [("-" + v + c).encode(), ("-" + c + v).encode(), ("-" + c).encode(), ("-" + v + v + c).encode(),
                                  ("-" + c + "x").encode(), ("-" + v + c + "x").encode(), ("-h" + c).encode(), ("-" + c + "=1").encode()]
            return opts
        if r < 0.14:
            # an adjacent group whose first field is a choice / is optional / is hidden
            names = gen.Names(rng)
            first = rng.choice([gen.alt(gen.req_flag(names.named(), "unit"), gen.req_flag(names.named(), "unit")),
                                gen.wrap("hide", gen.req_flag(names.named(), "unit")),
                                gen.wrap("optional", gen.req_flag(names.named(), "unit")),
                                gen.pure("unit")])
            g = gen.adj(first, gen.pos("A", "string"))
            # check_invariants reports such a group (fix: commit 1225acf) -- unless the whole group is hidden: hide() leaves
            # no metadata behind (known finding C04-hidden-adjacent-without-first-item)
            wrapped = rng.choice([g, gen.wrap("many", g), gen.wrap("optional", g), gen.wrap("hide", g), gen.wrap("hide", gen.wrap("optional", g))])
            opts = gen.options(gen.con(wrapped, gen.flag(names.named())), descr="Ladj")
            return opts
        if r < 0.19:
            # titled groups inside titled groups, also through adjacent groups / alternatives / subcommands, with further
            # titled groups behind them: the help and documentation writers walk the group markers in a loop
            names = gen.Names(rng)
            gh = lambda p, t: gen.wrap("group-help", p, d=t)
            leafs = lambda: rng.choice([gen.flag(names.named(help_p=0.5)), gen.wrap("optional", gen.arg(names.named(help_p=0.5), "V", "string"))])
            inner = gh(leafs(), "inner title")
            mid = rng.choice([
                gen.adj(gen.req_flag(names.named(), "unit"), inner),
                gen.adj(gen.req_flag(names.named(), "unit"), inner, gen.pos("A", "string")),
                gen.con(leafs(), inner),
                gen.alt(gen.req_flag(names.named(), "unit"), inner),
                inner])
            mid = rng.choice([mid, gen.wrap("optional", mid), gen.wrap("many", mid)]) if mid["k"] in ("adj",) else mid
            top = [gh(mid, "outer title")]
            for _ in range(rng.choice([0, 1, 1, 2])):
                top.append(gh(leafs(), rng.choice(["later title", "another"])))
            if rng.random() < 0.3:
                top.insert(0, leafs())
            p = gen.con(*top)
            if rng.random() < 0.3:
                p = gen.con(gen.flag(names.named()), gen.cmd(names.cmdname(), gen.options(p, descr="Lgs"), help="c"))
            opts = gen.options(p, descr="Lgg")
            opts["_argv_pool"] = [b"--help", b"-h", b"--help", b"-x"]
            return opts
        if r < 0.5:
            opts, names = gen.gen_options(rng, features=("alt", "adj", "cmd", "pos", "grp"), allow_catch=rng.random() < 0.5,
                                          env_p=0.25)
        elif r < 0.65:
            # nested adjacent groups and adjacent commands
            names = gen.Names(rng)
            inner = gen.adj(gen.req_flag(names.named(), "unit"), gen.pos("A", "string"))
            outer = gen.adj(gen.req_flag(names.named(), "unit"), rng.choice([inner, gen.wrap("optional", inner), gen.wrap("many", inner)]),
                            gen.pos("B", "string"))
            sub = gen.options(gen.con(gen.flag(names.named()), gen.wrap("optional", gen.pos("P", "string"))), descr="Ls")
            c = gen.cmd(names.cmdname(), sub, adjacent=True, help="c")
            top = [rng.choice([outer, gen.wrap("many", outer)]), gen.flag(names.named())]
            if rng.random() < 0.5:
                top.append(gen.wrap("many", c))
            top.append(gen.wrap("many", gen.pos("R", "string")))
            opts = gen.options(gen.con(*top), descr="Ln")
        elif r < 0.8:
            names = gen.Names(rng)
            fields = [gen.gen_named_item(rng, names) for _ in range(rng.choice([0, 1, 2]))]
            a = gen_any(rng)
            fields.append(rng.choice([a, gen.wrap("many", a), gen.wrap("optional", a)]))
            if rng.random() < 0.5:
                fields.append(gen.wrap("many", gen.pos("W", "osstring")))
            opts = gen.options(gen.con(*fields) if len(fields) > 1 else fields[0], descr="La")
        else:
            # degenerate shapes
            names = gen.Names(rng)
            shape = rng.choice(["empty", "pure", "fail", "lonely_alt", "deep_wrap", "hidden_all"])
            if shape == "empty":
                p = gen.con()
            elif shape == "pure":
                p = gen.pure(gen.vnum(1))
            elif shape == "fail":
                p = rng.choice([{"k": "fail", "msg": "nope"}, gen.wrap("optional", {"k": "fail", "msg": "nope"}),
                                gen.alt({"k": "fail", "msg": "nope"}, gen.flag(names.named()))])
            elif shape == "lonely_alt":
                p = gen.alt(gen.pure("unit"), gen.req_flag(names.named(), "unit"))
            elif shape == "deep_wrap":
                p = gen.arg(names.named(), "X", "u32")
                for w in rng.sample(["optional", "many", "some", "last", "count_", "fallback", "hide", "boxed"], 4):
                    if w == "some":
                        p = gen.wrap("some", p, msg="m")
                    elif w == "fallback":
                        p = gen.wrap("fallback", p, v="unit")
                    elif w == "count_":
                        continue
                    else:
                        p = gen.wrap(w, p)
            else:
                p = gen.wrap("hide", gen.con(gen.flag(names.named()), gen.arg(names.named(), "X", "string")))
            opts = gen.options(p, descr="Ld", fallback_to_usage=rng.random() < 0.3, version="1" if rng.random() < 0.3 else None)
        return opts

    @staticmethod
    def styled_helps(rng, opts):
        """Help texts built from several styled fragments, a line break inside a fragment that is not the last, multi-byte
        characters right after it (what Doc::first_line / to_completion and the short form of --help walk over)."""
        for x in gen.walk(opts):
            if x["k"] in ("flag", "arg") and rng.random() < 0.5:
                a = rng.choice(["a\n\u00e9", "\n\u00e9", "first line\nsecond \u65e5\u672c", "x\n\n\u00e9t\u00e9", "plain"])
                b = rng.choice(["ab", "\u00e9", "lit\nmore", "z"])
                x["n"]["help"] = [("text", a), (rng.choice(["literal", "emphasis", "invalid"]), b)] + \
                    ([("text", " tail \u00fc")] if rng.random() < 0.5 else [])

    def generate(self, rng, tier, n):
        # the three renderers on explicit documents (deeply nested blocks, random balanced/unbalanced lists): no panic
        from .C13 import C13
        cases = C13.explicit_docs(rng, 30 if tier == "quick" else 300)
        # one definition + line per arm of Message::render (conflict, only-once, suggestions, expected/got, ...)
        for r in range(4 if tier == "quick" else 150):
            for i, (tag, opts, argv, unset) in enumerate(gen.message_cases(rng)):
                cases.append(Case("m%d_%di" % (r, i), opts, [], mode="invariant", tags={"role": "inv", "group": "m%d_%d" % (r, i)}))
                cases.append(Case("m%d_%d" % (r, i), opts, argv, unset=unset, tags={"role": "parse", "group": "m%d_%d" % (r, i), "msg": tag}))
        k = 0
        while len(cases) < n:
            opts = self.gen_def(rng)
            if rng.random() < 0.2:
                self.styled_helps(rng, opts)
            cases.append(Case("g%di" % k, opts, [], mode="invariant", tags={"role": "inv", "group": "g%d" % k}))
            for j in range(6):
                gid = "g%d" % k
                try:
                    argv = gen.gen_argv(rng, opts)
                except Exception:
                    argv = []
                m = rng.random()
                if "_argv_pool" in opts and m < 0.7:
                    argv = [rng.choice(opts["_argv_pool"]) for _ in range(rng.choice([1, 1, 2]))] + \
                        ([b"val"] if rng.random() < 0.4 else [])
                elif m < 0.3:
                    argv = gen.mutate(rng, argv, opts)
                elif m < 0.7:
                    for _ in range(rng.choice([1, 1, 2, 3])):
                        argv.insert(rng.randrange(len(argv) + 1), rng.choice(WEIRD))
                elif m < 0.8:
                    argv = [rng.choice(WEIRD) for _ in range(rng.choice([1, 2, 5, 40]))]
                # the declared environment variables hold arbitrary byte strings (also when help is rendered: `[env:NAME = ..]`)
                envd = gen.env_names(opts["p"])
                env = []
                if envd and rng.random() < 0.6:
                    env = [(e.encode(), rng.choice([b"\xff\xfe", b"/var/\xff", b"", b"12", b"caf\xc3\xa9", b"x y"])) for e in envd
                           if rng.random() < 0.7]
                    if rng.random() < 0.5:
                        argv = list(argv)
                        argv.insert(rng.randrange(len(argv) + 1), rng.choice([b"--help", b"-h"]))
                cases.append(Case("%sp%d" % (gid, j), opts, argv, env=env, unset=[e.encode() for e in envd if e.encode() not in [a for a, _ in env]],
                                  tags={"role": "parse", "group": gid}))
                if j < 2:
                    cases.append(Case("%st%d" % (gid, j), opts, argv, mode="twice", tags={"role": "twice", "group": gid}))
                if j in (2, 3):
                    # the whole history on one OptionParser: parse, completion at revisions 0/1/7/8/9, html/markdown/manpage; twice.
                    # j == 2: no application name (Args::from without set_name), j == 3: with one
                    hv = list(argv)
                    if rng.random() < 0.5 and hv:
                        hv[-1] = hv[-1][:rng.randrange(len(hv[-1]) + 1)]        # a partially typed last word
                    cases.append(Case("%sh%d" % (gid, j), opts, hv, mode="history", name=(b"app" if j == 3 else None),
                                      tags={"role": "history", "group": gid}))
            k += 1
        return cases

    def execute(self, cases):
        from .. import infra
        lines = [c.line() for c in cases]
        # the completion steps of every history, through the model of the autocomplete build (Model/CompEval.v)
        extra = []
        for c in cases:
            if c.tags.get("role") == "history" and c.argv and c.opts is not None:
                for rev in (0, 1, 7, 8, 9):
                    extra.append(gen.case_line("%s_r%d" % (c.id, rev), c.opts, c.argv, c.env, c.name, "comp %d" % rev, c.feat, c.unset))
        return infra.run_model(lines + extra), infra.run_driver(lines)

    def judge(self, cases, model, impl):
        out, nontrivial, dist = [], [], {}
        inv_ok, total_ok = {}, {}
        for c in cases:
            if c.tags["role"] == "rdoc":
                ic = impl.get(c.id)
                dist["explicit_docs"] = dist.get("explicit_docs", 0) + 1
                nontrivial.append(c.line())
                if not ic or ic[0] != "RDOC" or len(ic) < 4:
                    out.append(Finding("violation", c, "the renderers did not return on an explicit document: %s" % common.show(ic)))
                elif ic[3] == "PANIC":
                    # (html panics on Block::Meta and roff on Block::TermRef by design -- todo!() -- and bpaf never hands them
                    # such a document: C16_render_html_succeeds; the console renderer has no such case)
                    out.append(Finding("violation", c, "console rendering of an explicit document panicked"))
                mc = model.get(c.id)
                if mc and mc[0] == "RDOC" and len(mc) > 3 and mc[3] not in ("NOTUTF8", ic[3] if ic and len(ic) > 3 else None):
                    out.append(Finding("disagree", c, "console text of an explicit document differs"))
                continue
            if c.tags["role"] == "inv":
                ic = impl.get(c.id)
                inv_ok[c.tags["group"]] = bool(ic) and ic[0] == "INVARIANT" and ic[1] == "true"
                mc = model.get(c.id)
                if mc and ic and mc[0] == "INVARIANT" and mc[1] != ic[1]:
                    out.append(Finding("disagree", c, "check_invariants: model %s vs implementation %s" % (mc[1], ic[1])))
                # `oko`: the premise of C04_total, evaluated by the extracted model
                total_ok[c.tags["group"]] = bool(mc) and mc[0] == "INVARIANT" and len(mc) > 2 and mc[2] == "true"
        for c in cases:
            role = c.tags["role"]
            if role in ("inv", "rdoc"):
                continue
            if not inv_ok.get(c.tags["group"], False):
                dist["skipped(invariant)"] = dist.get("skipped(invariant)", 0) + 1
                continue
            ic = impl.get(c.id)
            dist[role] = dist.get(role, 0) + 1
            if role == "parse":
                r = compare.agree_class_value(model.get(c.id), ic)
                if r:
                    out.append(Finding("disagree", c, r))
                if total_ok.get(c.tags["group"]):
                    dist["theorem_applies(C04_total)"] = dist.get("theorem_applies(C04_total)", 0) + 1
                    mc = model.get(c.id)
                    if mc and mc[0] in ("PANIC", "FUEL"):
                        out.append(Finding("model", c, "the extracted model contradicts C04_total: %s" % (mc,)))
                cls = compare.impl_class(ic)
                nontrivial.append(c.line())
                if cls in ("PANIC", "HANG", "EXIT", "MISSING"):
                    what = gen.unhx(ic[1]).decode("utf-8", "replace") if cls == "PANIC" and len(ic) > 1 else ""
                    out.append(Finding("violation", c, "run_inner did not return normally: %s %s" % (cls, what[:200])))
            elif role == "history":
                if ic is None or ic[0] != "HISTORY":
                    out.append(Finding("violation", c, "a run did not return normally (parse / completion / documentation history): %s" % (ic,)))
                    continue
                parts = "\t".join(ic[1:]).split("\t|\t")
                nontrivial.append(c.line())
                half = len(parts) // 2
                # the completion steps against the model: the same text, byte for byte
                for st in parts[:half]:
                    head = st.split("\t")
                    if head[0].startswith("rev") and " " in head[0] and c.argv:
                        rv, cls = head[0].split(" ", 1)
                        mc = model.get("%s_r%s" % (c.id, rv[3:]))
                        if mc is None:
                            continue
                        dist["completion steps compared with the model"] = dist.get("completion steps compared with the model", 0) + 1
                        ok = (mc[0] == "COMP" and cls == "COMP" and mc[1:2] == head[1:2]) or (mc[0] != "COMP" and cls == mc[0])
                        if cls == "PANIC":
                            continue            # reported below
                        if not ok:
                            out.append(Finding("disagree", c, "completion at revision %s: model %r vs implementation %r"
                                               % (rv[3:], mc[:2], [cls] + head[1:2])))
                            break
                for st in parts:
                    if "PANIC" in st.split("\t")[0]:
                        what = gen.unhx(st.split("\t")[1]).decode("utf-8", "replace") if "\t" in st else ""
                        out.append(Finding("violation", c, "a step of the history panicked: %s: PANIC %s" % (st.split("\t")[0], what[:200])))
                        break
                else:
                    if len(parts) % 2 or parts[:half] != parts[half:]:
                        k = next((i for i in range(half) if parts[i] != parts[half + i]), None)
                        out.append(Finding("violation", c, "the second round on the same OptionParser differs from the first at step %s: %r vs %r"
                                           % (k, parts[k][:200] if k is not None else None, parts[half + k][:200] if k is not None else None)))
            else:
                if ic is None or ic[0] in ("HANG", "EXIT"):
                    out.append(Finding("violation", c, "run_inner did not return normally (repeated run): %s" % (ic,)))
                    continue
                parts = "\t".join(ic[1:]).split("\t|\t")
                nontrivial.append(c.line())
                if len(parts) != 2 or parts[0] != parts[1]:
                    out.append(Finding("violation", c, "two runs of the same OptionParser on the same vector differ: %r" % (parts,)))
        stats = {"nontrivial_ids": nontrivial, "distribution": dist,
                 "rule": "definitions of every shape (random levels; nested adjacent groups and adjacent commands; `any`; empty/pure/"
                         "fail/lonely alternatives/deep wrapper stacks/all hidden) that pass check_invariants in the implementation x "
                         "vectors from the grammar, mutated, or salted with odd byte strings (empty, lone dashes, `=` forms, invalid "
                         "UTF-8, 400-letter clusters) x {one run, two runs on the same OptionParser, a history on one OptionParser: parse, "
                         "completion at revisions 0/1/7/8/9 with and without an application name and a partially typed last word, html/"
                         "markdown/manpage -- twice, second round must repeat the first}; non-trivial = every case run"}
        return out, stats

    @staticmethod
    def has_first_item(p):
        k = p["k"]
        if k in ("flag", "arg", "pos", "cmd", "anyp"):
            if k in ("flag", "arg") and not (p["n"]["short"] or p["n"]["long"]):
                return False
            return True
        if k in ("alt", "hide", "pure", "pure-with", "fail"):
            return False
        if k in ("con", "adj"):
            if not p["fields"]:
                return False
            if len(p["fields"]) == 1:
                return C04.has_first_item(p["fields"][0])
            return C04.has_first_item(p["fields"][0])
        return C04.has_first_item(p["p"])

    def known_class(self, cls, f):
        if cls != "hidden_adjacent_without_first_item" or f.case.opts is None:
            return False
        if "adjacent should start with a required argument" not in f.detail:
            return False
        # the definition contains, UNDER hide(), an adjacent group whose metadata has no first item (it starts with a choice,
        # a hidden or a pure parser): hide() leaves Meta::Skip behind, check_invariants cannot see the group, every
        # evaluation of it hits unreachable!().  (A visible group of that kind is reported by check_invariants since fix
        # 1225acf: such definitions do not pass it and are outside the property.)
        hidden_groups = [y for x in gen.walk(f.case.opts) if x["k"] == "hide" for y in gen.walk(x["p"]) if y["k"] == "adj"]
        return any(not self.has_first_item(y) for y in hidden_groups)


PROP = C04()
