"""C10 -- Asking for help or version always wins and never runs the program."""
from .. import gen, compare, common
from ..prop import Property, Case, Finding


def level_options(opts):
    """{level index in DFS-by-path: options node}; returns function mapping a path of cmd nodes to options."""
    return opts


class C10(Property):
    pid = "C10"
    quick_n = 3000
    thorough_n = 120000
    partial = ["C10_nested (help of the innermost command, whatever else fails) holds only with the provisos proved in "
               "Props/C10.v; the two refuted shapes are known findings"]

    @staticmethod
    def conflict_family(rng, k):
        """Items of two different alternatives of one choice on the line (a conflict), the request to their right."""
        names = gen.Names(rng, unicode_ok=False)
        alts = [gen.req_flag(names.named(help_p=0.0), gen.vnum(100 + i)) if rng.random() < 0.7 else gen.arg(names.named(help_p=0.0), "V", "string")
                for i in range(rng.choice([2, 3]))]
        choice = gen.alt(*alts)
        if rng.random() < 0.4:
            choice = gen.wrap("optional", choice)
        level = gen.con(gen.flag(names.named(help_p=0.0)), choice)
        ver = "3.1" if rng.random() < 0.6 else None
        if rng.random() < 0.5:
            opts = gen.options(level, descr="Lc0", version=ver)
            pre, lvl, o = [], 0, opts
        else:
            sub = gen.options(level, descr="Lc1", version=ver)
            cn = names.cmdname()
            opts = gen.options(gen.con(gen.flag(names.named(help_p=0.0)), gen.cmd(cn, sub, help="c")), descr="Lc0")
            pre, lvl, o = [cn.encode()], 1, sub
        a, b = rng.sample(alts, 2)
        def occ(x, i):
            return [gen.spell_flag(rng, x)] if x["k"] == "flag" else gen.spell_arg(rng, x, b"v%d" % i)[1]
        line = pre + occ(a, 0) + occ(b, 1)
        out = [Case("g%dzb" % k, opts, line, tags={"role": "base", "group": "g%dz" % k})]
        for j, what in enumerate(["help", "help", "version"]):
            if what == "version" and ver is None:
                continue
            item = rng.choice([b"--help", b"-h"]) if what == "help" else rng.choice([b"--version", b"-V"])
            tail = [item] + ([item] if what == "help" and rng.random() < 0.2 else [])
            out.append(Case("g%dz%d" % (k, j), opts, line + tail,
                            tags={"role": what, "valid": False, "group": "g%dz" % k, "level": lvl, "marker": o["descr"],
                                  "has_version": ver is not None, "version": ver, "adj": False}))
        return out

    def group_family(self, rng, k):
        """An adjacent group cut short (its last member missing, or a member that does not convert) next to a switch, at the
        top or inside a subcommand; the request to the LEFT of the group, inside it, or to its right."""
        names = gen.Names(rng, unicode_ok=False)
        head = gen.req_flag(names.named(help_p=0.0))
        mvs = rng.sample(["X", "Y", "Z"], rng.choice([1, 2]))
        members = [head] + [gen.pos(m, rng.choice(["u32", "string"])) for m in mvs]
        g = gen.adj(*members)
        if rng.random() < 0.4:
            g = gen.wrap(rng.choice(["many", "optional"]), g, catch=False)
        sw = gen.flag(names.named(help_p=0.0))
        level = gen.con(g, sw) if rng.random() < 0.5 else gen.con(sw, g)
        ver = "3.1" if rng.random() < 0.6 else None
        if rng.random() < 0.5:
            opts = gen.options(level, descr="Lg0", version=ver)
            pre, lvl, o = [], 0, opts
        else:
            sub = gen.options(level, descr="Lg1", version=ver)
            cn = names.cmdname()
            opts = gen.options(gen.con(gen.flag(names.named(help_p=0.0)), gen.cmd(cn, sub, help="c")), descr="Lg0")
            pre, lvl, o = [cn.encode()], 1, sub
        vals = [b"%d" % rng.randrange(100) for _ in mvs]
        if rng.random() < 0.6 or all(m["ty"] == "string" for m in members[1:]):
            vals = vals[:-1]                                    # the last member is missing
        else:
            i = rng.choice([j for j, m in enumerate(members[1:]) if m["ty"] == "u32"])
            vals[i] = b"x%d" % i                                # a member that is not a number
        block = [gen.spell_flag(rng, head)] + vals
        lead = [gen.spell_flag(rng, sw)] if rng.random() < 0.4 else []
        out = [Case("g%dyb" % k, opts, pre + lead + block, tags={"role": "base", "group": "g%dy" % k})]
        for j, (what, where) in enumerate([("help", "left"), ("help", "inside"), ("help", "right"), ("version", "left"), ("version", "right")]):
            if what == "version" and ver is None:
                continue
            item = rng.choice([b"--help", b"-h"]) if what == "help" else rng.choice([b"--version", b"-V"])
            if where == "left":
                line = pre + [item] + lead + block if rng.random() < 0.5 else pre + lead + [item] + block
            elif where == "inside":
                line = pre + lead + block[:1] + [item] + block[1:]
            else:
                line = pre + lead + block + [item]
            out.append(Case("g%dy%d" % (k, j), opts, line,
                            tags={"role": what, "valid": False, "group": "g%dy" % k, "level": lvl, "marker": o["descr"],
                                  "has_version": ver is not None, "version": ver, "adj": True, "where": where}))
        return out

    def generate(self, rng, tier, n):
        cases = []
        k = 0
        while len(cases) < n:
            if rng.random() < 0.12:
                cases.extend(self.conflict_family(rng, k) if rng.random() < 0.6 else self.group_family(rng, k))
                k += 1
                continue
            opts, names = gen.gen_options(rng, features=rng.choice([("alt", "cmd", "pos"), ("alt", "cmd", "pos", "adj"), ("pos",)]),
                                          allow_catch=False)
            has_version = lambda o: o["version"] is not None
            for _ in range(3):
                gid = "g%d" % k
                k += 1
                pieces = gen.gen_pieces(rng, opts)
                valid = True
                # sometimes make the line invalid first (delete a piece / add a stray item)
                r = rng.random()
                if r < 0.35 and pieces:
                    del pieces[rng.randrange(len(pieces))]
                    valid = False
                elif r < 0.5:
                    ix = rng.randrange(len(pieces) + 1)
                    lvl = (pieces[ix - 1].level + (1 if pieces[ix - 1].kind == "cmdname" else 0)) if ix > 0 else 0
                    pieces.insert(ix, gen.Piece("stray", [rng.choice([b"--nope", b"-!", b"stray"])], level=lvl))
                    valid = False
                # levels along the line
                dd = next((i for i, p in enumerate(pieces) if p.kind == "dd"), len(pieces))
                # the options node of each level
                lv_opts = {0: opts}
                for p in pieces:
                    if p.kind == "cmdname":
                        lv_opts[p.level + 1] = p.node["options"]
                cases.append(Case(gid + "b", opts, gen.flatten(pieces), tags={"role": "base", "group": gid}))
                for pos_ix in range(0, dd + 1):
                    if rng.random() < 0.5 and dd > 3:
                        continue
                    lvl = pieces[pos_ix - 1].level + (1 if pieces[pos_ix - 1].kind == "cmdname" else 0) if pos_ix > 0 else 0
                    o = lv_opts.get(lvl, opts)
                    for what in ("help", "version", "both"):
                        if what in ("version", "both") and rng.random() < 0.5:
                            continue
                        item = rng.choice([b"--help", b"-h"]) if what == "help" else rng.choice([b"--version", b"-V"])
                        ins = [item]
                        if what == "both":
                            # the help flag AND the version flag of the same level, in either order: help is what the
                            # property promises whenever the help flag is there
                            ins = [rng.choice([b"--help", b"-h"]), rng.choice([b"--version", b"-V"])]
                            if rng.random() < 0.5:
                                ins.reverse()
                        argv = gen.flatten(pieces[:pos_ix]) + ins + gen.flatten(pieces[pos_ix:])
                        cases.append(Case("%s%s%d" % (gid, what[0], pos_ix), opts, argv,
                                          tags={"role": what, "valid": valid, "group": gid, "level": lvl, "marker": o["descr"],
                                                "has_version": has_version(o), "version": o["version"],
                                                "adj": common.has_kind(opts, ("adj",)) or any(x["k"] == "cmd" and x["adjacent"] for x in gen.walk(opts))}))
        return cases

    def judge(self, cases, model, impl):
        out, nontrivial, dist = [], [], {}
        base_ok = {}
        for c in cases:
            if c.tags.get("role") == "base":
                base_ok[c.tags["group"]] = compare.impl_class(impl.get(c.id)) == "OK"
        for c in cases:
            r = compare.agree_class_value(model.get(c.id), impl.get(c.id))
            if r:
                out.append(Finding("disagree", c, r))
            t = c.tags
            if t.get("role") == "base":
                continue
            # a line is valid when the implementation accepts it without the request
            t["valid"] = base_ok.get(t["group"], False)
            ic = impl.get(c.id)
            cls = compare.impl_class(ic)
            key = "%s:%s:L%d" % (t["role"], "valid" if t["valid"] else "invalid", min(t["level"], 2))
            dist[key] = dist.get(key, 0) + 1
            if t["role"] == "version" and not t["has_version"]:
                # an ordinary unknown flag: never a value (C05), nothing else demanded here
                if cls == "OK":
                    out.append(Finding("violation", c, "`--version` with no version configured was swallowed: " + ic[1]))
                continue
            nontrivial.append(c.line())
            if cls == "OK":
                out.append(Finding("violation", c, "a %s request on the line, yet the run yields a parsed value: %s" % (t["role"], ic[1])))
                continue
            want_cls = "HELP" if t["role"] in ("help", "both") else "VERSION"
            if cls != want_cls:
                out.append(Finding("violation", c, "a %s request (item of its own, left of `--`) did not win: outcome is %s"
                                   % (t["role"], common.show(ic))))
            elif t["role"] in ("help", "both"):
                got = compare.help_marker(gen.unhx(ic[1]))
                if got != t["marker"].encode():
                    out.append(Finding("violation", c, "help describes level %r instead of the innermost command entered (%r)"
                                       % (got, t["marker"])))
            else:
                got = gen.unhx(ic[1])[len(b"Version: "):].rstrip(b"\n")
                if got != t["version"].encode():
                    out.append(Finding("violation", c, "version output %r is not the version of the innermost command (%r)"
                                       % (got, t["version"])))
        stats = {"nontrivial_ids": nontrivial, "distribution": dist,
                 "rule": "random definitions (flat, alternatives, subcommand trees, adjacent groups) x sentences (valid, or made "
                         "invalid by deleting a piece / adding a stray item) x a help or version item inserted at every piece "
                         "boundary left of `--` (never between an argument name and its value); expected level = innermost "
                         "command name to the left; non-trivial = request for a configured help/version"}
        return out, stats

    def known_class(self, cls, f):
        if f.kind != "violation":
            return False
        t = f.case.tags
        if "yields a parsed value" in f.detail or "swallowed" in f.detail:
            return False
        if cls == "parent_field_fails_first":
            # construct! reports the first failing field: a failing sibling field of an enclosing level hides the
            # help/version produced inside a subcommand
            return (not t["valid"]) and t["level"] >= 1
        return False


PROP = C10()
