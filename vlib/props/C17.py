"""C17 -- Derive and combinatoric APIs define the same parser.

A family of type definitions is generated from the seed.  For each type two parsers are compiled into one crate built
against /repo and its bpaf_derive: the `#[derive(Bpaf)]` one, and the hand-written combinator one PRINTED FROM THE PLAN that
the Coq model of the derive rules (coq/Model/Derive.v, extracted) computes for every field and variant.  Both are run on the
same vectors and must agree: Debug of the value, failure class, help text."""
import os
import re
import subprocess
from .. import gen, infra, common
from ..prop import Property, Case, Finding, RawCase

CRATE = os.path.join(infra.CACHE, "derive-crate")
TARGET = os.path.join(infra.CACHE, "cargo-target", "derive")

RUST_TYPES = {"string": "String", "u32": "u32"}
IDENTS = ["verbose", "name", "file_name", "max_depth", "dry_run", "x", "v", "n", "outputFile", "logLevel", "a_b_c", "level2",
          "input", "jobs", "color_mode", "q", "Z", "keep_going", "retries", "tag", "user_id", "noCache", "r", "w",
          # identifiers need not be ASCII: one CHARACTER (not one byte) makes a short name
          "ä", "ñ", "größe", "naïve_mode", "λ",
          # keywords, written as raw identifiers (`r#type`) in the source: the names come from the identifier WITHOUT `r#`
          "type", "in", "move", "match"]
RAW = {"type", "in", "move", "match"}


def src_ident(f):
    return ("r#" + f["ident"]) if f["ident"] in RAW else f["ident"]

VARIANTS = ["Alpha", "Beta", "GammaRay", "Delta", "E", "ListAll", "DryRun", "Quiet", "X", "ShowHelpText", "Fast", "Slow2"]
CMD_VARIANTS = ["Build", "RunTests", "Add", "RemoveAll", "Sync", "DoIt"]
DOCS = ["help text", "Two words", "line one\nline two", "uses -dashes- and 'quotes'", "trailing period."]
ENVS = ["BPAF_VT_A", "BPAF_VT_B", "BPAF_VT_C", "BPAF_VT_D"]
SHORT_POOL = list("abcdefgijklmopstuyBCDFGIJKLMN")
LONG_POOL = ["alt-name", "other", "long-x", "second", "renamed", "opt7"]


class Used:
    def __init__(self):
        self.shorts, self.longs, self.cmds = {"h", "V"}, {"help", "version"}, set()


def kebab_py(s):
    """Only used to keep generated names unique; the names the hand-written side uses come from the Coq model."""
    res = ""
    for c in s:
        if c.isupper() and c.isascii():
            if res:
                res += "-"
            res += c.lower()
        elif c in "-_":
            res += "-"
        else:
            res += c
    return res


def gen_field(rng, used, idents, named=True, allow_pos=False, last_pos=False):
    """A field specification, or None when no fresh name is available."""
    f = {"ident": None, "shape": None, "ty": rng.choice(["string", "u32"]), "names": [], "cons": None, "fallback": None,
         "help": rng.choice(DOCS) if rng.random() < 0.5 else None}
    if named:
        cand = [i for i in idents if i not in used.fields]
        if not cand:
            return None
        f["ident"] = rng.choice(cand)
        used.fields.add(f["ident"])
    positional = (not named) or (allow_pos and rng.random() < 0.5)
    if positional:
        f["shape"] = rng.choice(["multiple", "optional", "direct"]) if last_pos else "direct"
        if named:
            f["cons"] = ("positional", rng.choice([None, "FILE", "N"]))
        elif rng.random() < 0.4:
            f["cons"] = ("positional", rng.choice(["FILE", "N"]))
        return f
    f["shape"] = rng.choice(["bool", "bool", "unit", "optional", "multiple", "direct", "direct", "optional"])
    # naming annotations
    r = rng.random()
    anns = []
    if r < 0.45:
        pass                                            # implicit name
    else:
        for _ in range(rng.choice([1, 1, 2, 3])):
            k = rng.choice(["s", "s?", "l", "l?", "e"])
            if k == "s":
                c = rng.choice([x for x in SHORT_POOL if x not in used.shorts] or ["!"])
                if c == "!":
                    continue
                anns.append(("s", c))
            elif k == "s?":
                anns.append(("s", None))
            elif k == "l":
                l = rng.choice([x for x in LONG_POOL if x not in used.longs] or ["!"])
                if l == "!":
                    continue
                anns.append(("l", l))
            elif k == "l?":
                anns.append(("l", None))
            else:
                anns.append(("e", rng.choice(ENVS)))
    # uniqueness of the resulting names (approximated with the Python kebab; the check itself uses Coq's)
    kb = kebab_py(f["ident"])
    naming = [a for a in anns if a[0] != "e"]
    shorts = [a[1] if a[1] is not None else kb[0] for a in naming if a[0] == "s"]
    longs = [a[1] if a[1] is not None else kb for a in naming if a[0] == "l"]
    if not naming:
        if len(f["ident"]) == 1:
            shorts = [kb[0]]
        else:
            longs = [kb]
    if len(set(shorts)) != len(shorts) or len(set(longs)) != len(longs) or any(s in used.shorts for s in shorts) or \
            any(l in used.longs for l in longs) or any(len(l) < 2 for l in longs):
        return None
    used.shorts.update(shorts)
    used.longs.update(longs)
    f["names"] = anns
    if f["shape"] in ("optional", "multiple", "direct") and rng.random() < 0.3:
        f["cons"] = ("argument", rng.choice(["FILE", "N", "KEY"]))
    if f["shape"] == "direct" and rng.random() < 0.25:
        f["fallback"] = "7" if f["ty"] == "u32" else '"dflt".to_string()'
    return f


def gen_fields(rng, used, named, n, allow_pos=True):
    used.fields = set()
    out = []
    for _ in range(n * 3):
        if len(out) >= n:
            break
        f = gen_field(rng, used, IDENTS, named=named)
        if f is not None:
            out.append(f)
    if allow_pos and rng.random() < 0.5:
        for j in range(rng.choice([1, 2])):
            last = j == 1 or rng.random() < 0.5
            f = gen_field(rng, used, IDENTS, named=named, allow_pos=True, last_pos=last) if named else None
            if named and f is not None and f["cons"] and f["cons"][0] == "positional":
                out.append(f)
                if f["shape"] != "direct":
                    break
    return out


def gen_type(rng, ix):
    used = Used()
    kind = rng.choice(["struct", "struct", "tuple", "enum", "enum"])
    # every tenth type carries the combination that is rare otherwise: a nested plain parser with BOTH a doc comment and an
    # explicit group_help (the annotation overrides exactly what it names)
    forced = ix % 10 == 3
    forced_cmd = ix % 10 == 7       # ... and every tenth one a nested subcommand struct (bare `#[bpaf(command)]`)
    if forced or forced_cmd:
        kind = "struct"
    t = {"name": "T%d" % ix, "kind": kind, "doc": rng.choice(DOCS + [None])}
    if rng.random() < 0.3:
        # a doc comment of several blocks (description / header / footer, cut at double empty lines), with explicit
        # descr(..) / header(..) / footer(..) annotations naming some of the parts
        t["doc"] = rng.choice(["Does things", "Does things\n\n\nHeader block", "Does things\n\n\nHeader block\n\n\nFooter block",
                               "Does things\nsecond line\n\nstill the description\n\n\nHeader block\n\n\nFooter one\n\n\nFooter two",
                               "Does things\n\n\n\n\nFooter after an empty header"])
        t["ann"] = {k: "explicit %s" % k for k in ("descr", "header", "footer") if rng.random() < 0.35}
    if kind == "struct":
        t["fields"] = gen_fields(rng, used, True, rng.choice([1, 2, 3, 4]), allow_pos=not forced_cmd)
        if not t["fields"]:
            return None
        if forced or forced_cmd or rng.random() < 0.4:
            # a nested plain parser (derive without `options`): doc comment -> group_help unless given explicitly
            keep = used.fields
            inner_fields = gen_fields(rng, used, True, rng.choice([1, 2]), allow_pos=False)
            used.fields = keep
            if inner_fields:
                t["inner"] = {"name": "In%d" % ix, "fields": inner_fields, "doc": rng.choice([None, "inner doc", "Group of things"]),
                              "group_help": rng.choice([None, None, "explicit group title"])}
                if forced:
                    t["inner"]["doc"] = rng.choice(["inner doc", "Group of things"])
                    t["inner"]["group_help"] = "explicit group title"
                elif (forced_cmd or rng.random() < 0.25) and not any(f["cons"] and f["cons"][0] == "positional" for f in t["fields"]):
                    # a nested SUBCOMMAND instead: a bare `#[bpaf(command)]` on a multi-word type -- the command name is the
                    # type name in kebab-case, the doc comment its description
                    t["inner"]["command"] = True
                    t["inner"]["group_help"] = None
                    t["inner"]["name"] = rng.choice(["DryRun", "RunTests", "ListAll", "Sync"]) + "%d" % ix
    elif kind == "tuple":
        n = rng.choice([1, 2, 3])
        fs = []
        for j in range(n):
            f = gen_field(rng, used, IDENTS, named=False, last_pos=(j == n - 1))
            fs.append(f)
        t["fields"] = fs
    else:
        vs = []
        vnames = rng.sample(VARIANTS, rng.choice([2, 3, 4]))
        for vn in vnames:
            r = rng.random()
            v = {"name": vn, "doc": rng.choice(DOCS + [None]), "command": None, "names": []}
            if r < 0.45:
                v["kind"] = "unit"
                kb = kebab_py(vn)
                anns = []
                if rng.random() < 0.3:
                    c = rng.choice([x for x in SHORT_POOL if x not in used.shorts] or ["!"])
                    if c != "!":
                        anns.append(("s", c))
                if rng.random() < 0.3:
                    anns.append(("l", None))
                naming = [a for a in anns if a[0] != "e"]
                shorts = [a[1] for a in naming if a[0] == "s"]
                longs = [kb for a in naming if a[0] == "l"] if naming else [kb]
                if any(l in used.longs or len(l) < 2 for l in longs) or any(s in used.shorts for s in shorts):
                    if len(kb) < 2 or kb in used.longs:
                        continue
                    anns, shorts, longs = [], [], [kb]
                used.shorts.update(shorts)
                used.longs.update(longs)
                v["names"] = anns
            elif r < 0.75:
                v["kind"] = "struct"
                v["fields"] = gen_fields(rng, used, True, rng.choice([1, 2]), allow_pos=False)
                if not v["fields"]:
                    continue
            else:
                v["kind"] = "struct"
                v["command"] = True
                sub = Used()
                v["fields"] = gen_fields(rng, sub, True, rng.choice([0, 1, 2]), allow_pos=True)
                cn = kebab_py(vn)
                if cn in used.cmds:
                    continue
                used.cmds.add(cn)
            vs.append(v)
        if len(vs) < 2:
            return None
        t["variants"] = vs
    return t


def rust_ty(f):
    base = RUST_TYPES[f["ty"]]
    return {"bool": "bool", "unit": "()", "optional": "Option<%s>" % base, "multiple": "Vec<%s>" % base, "direct": base}[f["shape"]]


def rs_str(s):
    return '"' + s.replace("\\", "\\\\").replace('"', '\\"').replace("\n", "\\n") + '"'


def doc_lines(doc, indent):
    if doc is None:
        return ""
    return "".join(("%s/// %s\n" % (indent, l)) if l else ("%s///\n" % indent) for l in doc.split("\n"))


def doc_blocks(doc):
    """bpaf_derive's LineIter: a doc comment is cut into blocks at DOUBLE empty lines (a single empty line stays inside a
    block); every block is trimmed at its end."""
    out, cur, prev_empty = [], "", False
    lines = doc.split("\n")
    if lines and lines[-1] == "":
        lines.pop()
    for line in lines:
        if line == "":
            if prev_empty:
                prev_empty = False
                out.append(cur.rstrip())
                cur = ""
            else:
                prev_empty = True
        else:
            if prev_empty:
                cur += "\n"
            cur += line + "\n"
            prev_empty = False
    if cur != "":
        out.append(cur.rstrip())
    return out


def options_help(t):
    """(descr, header, footer) of an `options` type: the first block of the doc comment is the description, the second
    (when not empty) the header, the rest the footer; an explicit descr(..) / header(..) / footer(..) annotation
    overrides exactly the part it names."""
    ann = t.get("ann") or {}
    blocks = doc_blocks(t["doc"]) if t["doc"] is not None else []
    d = blocks[0] if blocks else None
    h = blocks[1] if len(blocks) > 1 and blocks[1] != "" else None
    rest = ""
    for b in blocks[2:]:            # LineIter::rest: a newline only between what is already there and the next block
        if rest != "":
            rest += "\n"
        rest += b
    f = rest if rest != "" else None
    return (ann.get("descr") or d, ann.get("header") or h, ann.get("footer") or f)


def options_attr(t):
    ann = t.get("ann") or {}
    return "".join(", %s(%s)" % (k, rs_str(ann[k])) for k in ("descr", "header", "footer") if ann.get(k))


def options_tail(t):
    d, h, f = options_help(t)
    return "".join(".%s(%s)" % (k, rs_str(v)) for k, v in (("descr", d), ("header", h), ("footer", f)) if v is not None)


def field_attr(f):
    parts = []
    for k, v in f["names"]:
        if k == "s":
            parts.append("short" if v is None else "short('%s')" % v)
        elif k == "l":
            parts.append("long" if v is None else "long(%s)" % rs_str(v))
        else:
            parts.append("env(%s)" % rs_str(v))
    if f["cons"]:
        kind, mv = f["cons"]
        parts.append(kind if mv is None else "%s(%s)" % (kind, rs_str(mv)))
    if f["fallback"]:
        parts.append("fallback(%s)" % f["fallback"])
    return "    #[bpaf(%s)]\n" % ", ".join(parts) if parts else ""


def dfield_line(fid, f):
    names = " ".join("(%s %s)" % (k, ("-" if v is None else (str(ord(v)) if k == "s" else gen.hx(v)))) for k, v in f["names"])
    cons = "-"
    if f["cons"]:
        cons = "(%s %s)" % (f["cons"][0], "-" if f["cons"][1] is None else gen.hx(f["cons"][1]))
    return "(dfield %s %s %s (names %s) %s %d %s)" % (fid, "-" if f["ident"] is None else gen.hx(f["ident"]), f["shape"], names, cons,
                                                      1 if f["fallback"] else 0, "-" if f["help"] is None else gen.hx(f["help"]))


def hand_field(f, plan):
    """The combinator chain for one field, from the plan the Coq model computed."""
    shorts, longs, envs, cons, post, help_ = plan
    chain = []
    for c in shorts:
        chain.append("short('%s')" % c)
    for l in longs:
        chain.append("long(%s)" % rs_str(l))
    for e in envs:
        chain.append("env(%s)" % rs_str(e))
    base = RUST_TYPES[f["ty"]]
    kind = cons.split(":")[0]
    if kind == "positional":
        mv = gen.unhx(cons.split(":")[1]).decode()
        chain.append("positional::<%s>(%s)" % (base, rs_str(mv)))
        if help_ is not None:
            chain.append("help(%s)" % rs_str(help_))
    else:
        if help_ is not None:
            chain.append("help(%s)" % rs_str(help_))
        if kind == "switch":
            chain.append("switch()")
        elif kind == "reqflag":
            chain.append("req_flag(())")
        elif kind == "argument":
            mv = gen.unhx(cons.split(":")[1]).decode()
            chain.append("argument::<%s>(%s)" % (base, rs_str(mv)))
    for p in post:
        if p == "optional":
            chain.append("optional()")
        elif p == "many":
            chain.append("many()")
        elif p == "fallback":
            chain.append("fallback(%s)" % f["fallback"])
    return "bpaf::" + ".".join(chain)


class C17(Property):
    pid = "C17"
    quick_n = 40
    thorough_n = 600
    partial = ["the proc-macro itself is not modelled; the documented rules are (coq/Model/Derive.v) and are tied to it by printing "
               "the hand-written parser from the model's plan"]

    def build_impl(self):
        return None

    # ---------------------------------------------------------------- generation
    def generate(self, rng, tier, n):
        types = []
        while len(types) < n:
            t = gen_type(rng, len(types))
            if t is not None:
                types.append(t)
        self.types = types
        # ask the Coq model for the plan of every field / the names of every unit variant / command names
        q, self.fkeys = [], {}
        for t in types:
            groups = [("f", t.get("fields", []))] + [("v%d" % vi, v.get("fields", [])) for vi, v in enumerate(t.get("variants", []))]
            if "inner" in t:
                groups.append(("i", t["inner"]["fields"]))
                if t["inner"].get("command"):
                    q.append("(kebab %s_ic %s)" % (t["name"], gen.hx(t["inner"]["name"])))
                q.append("(grouphelp %s_gh %s %s)" % (t["name"], "-" if t["inner"]["doc"] is None else gen.hx(t["inner"]["doc"]),
                                                     "-" if t["inner"]["group_help"] is None else gen.hx(t["inner"]["group_help"])))
            # descr / header / footer of the OptionParser: the doc comment's blocks and the explicit annotations (Model/Derive.v)
            ann = t.get("ann") or {}
            o = lambda v: "-" if v is None else gen.hx(v)
            q.append("(optionshelp %s_oh %s %s %s %s)" % (t["name"], o(t["doc"]), o(ann.get("descr")), o(ann.get("header")), o(ann.get("footer"))))
            for gname, fs in groups:
                for fi, f in enumerate(fs):
                    fid = "%s_%s_%d" % (t["name"], gname, fi)
                    q.append(dfield_line(fid, f))
                    f["fid"] = fid
            for vi, v in enumerate(t.get("variants", [])):
                vid = "%s_u%d" % (t["name"], vi)
                v["vid"] = vid
                if v["kind"] == "unit":
                    names = " ".join("(%s %s)" % (k, ("-" if x is None else (str(ord(x)) if k == "s" else gen.hx(x)))) for k, x in v["names"])
                    q.append("(unitnames %s %s (names %s))" % (vid, gen.hx(v["name"]), names))
                if v.get("command"):
                    q.append("(kebab %s %s)" % (vid + "c", gen.hx(v["name"])))
        infra.ensure_vpmodel()
        self.plans = infra.run_model(q, per=400)
        self.write_crate(types)
        cases = []
        for ti, t in enumerate(types):
            for j, argv in enumerate(self.vectors(rng, t)):
                rc = RawCase("c%d_%d\t%d\t%s" % (ti, j, ti, " ".join(gen.hx(a) for a in argv)))
                rc.id = "c%d_%d" % (ti, j)
                rc.tags = {"type": ti, "argv": argv}
                cases.append(rc)
        return cases

    def plan_of(self, f):
        p = self.plans.get(f["fid"])
        if p is None or p[0] != "PLAN" or p[1] == "ERROR":
            return None
        sh = [] if p[1] == "-" else [chr(int(x)) for x in p[1].split(",")]
        lo = [] if p[2] == "-" else [gen.unhx(x).decode() for x in p[2].split(",")]
        en = [] if p[3] == "-" else [gen.unhx(x).decode() for x in p[3].split(",")]
        post = [] if p[5] == "-" else p[5].split(",")
        return (sh, lo, en, p[4], post, None if p[6] == "-" else gen.unhx(p[6]).decode())

    def unit_names(self, v):
        p = self.plans.get(v["vid"])
        if p is None or p[0] != "UNITNAMES" or p[1] == "ERROR":
            return None
        sh = [] if p[1] == "-" else [chr(int(x)) for x in p[1].split(",")]
        lo = [] if p[2] == "-" else [gen.unhx(x).decode() for x in p[2].split(",")]
        return sh, lo

    # ---------------------------------------------------------------- the generated crate
    def fields_src(self, fields, named, indent="    "):
        out = ""
        for f in fields:
            out += doc_lines(f["help"], indent) + field_attr(f).replace("    #[", indent + "#[")
            out += "%s%s%s,\n" % (indent, (src_ident(f) + ": ") if named else "", rust_ty(f))
        return out

    def hand_fields(self, fields, named):
        lets, names = "", []
        for i, f in enumerate(fields):
            var = src_ident(f) if named else "f%d" % i
            plan = self.plan_of(f)
            if plan is None:
                raise RuntimeError("the model rejects a field the generator considers valid: %r" % (f,))
            lets += "        let %s = %s;\n" % (var, hand_field(f, plan))
            names.append(var)
        return lets, names

    def write_crate(self, types):
        src = ["#![allow(non_snake_case, dead_code, unused_imports, clippy::all)]", "use bpaf::*;", ""]
        for t in types:
            d = "#[derive(Debug, Clone, PartialEq, Bpaf)]\n#[bpaf(options%s)]\n" % options_attr(t) + doc_lines(t["doc"], "")
            if t["kind"] == "struct":
                extra = ""
                if "inner" in t:
                    inn = t["inner"]
                    pre = "#[derive(Debug, Clone, PartialEq, Bpaf)]\n" + doc_lines(inn["doc"], "")
                    if inn["group_help"] is not None:
                        pre += "#[bpaf(group_help(%s))]\n" % rs_str(inn["group_help"])
                    if inn.get("command"):
                        pre += "#[bpaf(command)]\n"
                    pre += "struct %s {\n%s}\n\n" % (inn["name"], self.fields_src(inn["fields"], True))
                    d = pre + d
                    fn_name = kebab_py(inn["name"]).replace("-", "_") if inn.get("command") else inn["name"].lower()
                    extra = "    #[bpaf(external(%s))]\n    inner_part: %s,\n" % (fn_name, inn["name"])
                nonpos = [f for f in t["fields"] if not (f["cons"] and f["cons"][0] == "positional")]
                pos = [f for f in t["fields"] if f["cons"] and f["cons"][0] == "positional"]
                d += "struct %s {\n%s%s%s}\n" % (t["name"], self.fields_src(nonpos, True), extra, self.fields_src(pos, True))
            elif t["kind"] == "tuple":
                d += "struct %s(\n%s);\n" % (t["name"], self.fields_src(t["fields"], False))
            else:
                d += "enum %s {\n" % t["name"]
                for v in t["variants"]:
                    d += doc_lines(v["doc"], "    ")
                    ann = []
                    if v.get("command"):
                        ann.append("command")
                    for k, x in v["names"]:
                        ann.append(("short" if x is None else "short('%s')" % x) if k == "s" else ("long" if x is None else "long(%s)" % rs_str(x)))
                    if ann:
                        d += "    #[bpaf(%s)]\n" % ", ".join(ann)
                    if v["kind"] == "unit":
                        d += "    %s,\n" % v["name"]
                    else:
                        d += "    %s {\n%s    },\n" % (v["name"], self.fields_src(v["fields"], True, "        "))
                d += "}\n"
            src.append(d)
            # the hand-written equivalent
            h = "fn hand_%s() -> OptionParser<%s> {\n" % (t["name"].lower(), t["name"])
            if t["kind"] in ("struct", "tuple"):
                named = t["kind"] == "struct"
                lets, names = self.hand_fields(t["fields"], named)
                h += lets
                if "inner" in t:
                    inn = t["inner"]
                    il, inames = self.hand_fields(inn["fields"], True)
                    gh = self.plans[t["name"] + "_gh"][1]
                    if inn.get("command"):
                        cname = gen.unhx(self.plans[t["name"] + "_ic"][1]).decode()
                        tail = ".to_options()" + ((".descr(%s)" % rs_str(inn["doc"])) if inn["doc"] is not None else "") + \
                               ".command(%s)" % rs_str(cname)
                    else:
                        tail = "" if gh == "-" else ".group_help(%s)" % rs_str(gen.unhx(gh).decode())
                    h += "        let inner_part = {\n%s        construct!(%s { %s })\n        }%s;\n" % (
                        il.replace("        let", "            let"), inn["name"], ", ".join(inames), tail)
                    npos = len([f for f in t["fields"] if f["cons"] and f["cons"][0] == "positional"])
                    names.insert(len(names) - npos, "inner_part")
                body = "construct!(%s %s)" % (t["name"], ("{ %s }" if named else "(%s)") % ", ".join(names))
            else:
                alts = []
                for vi, v in enumerate(t["variants"]):
                    if v["kind"] == "unit":
                        sh, lo = self.unit_names(v)
                        chain = ["short('%s')" % c for c in sh] + ["long(%s)" % rs_str(l) for l in lo]
                        if v["doc"] is not None:
                            chain.append("help(%s)" % rs_str(v["doc"]))
                        chain.append("req_flag(%s::%s)" % (t["name"], v["name"]))
                        h += "    let alt%d = bpaf::%s;\n" % (vi, ".".join(chain))
                    else:
                        lets, names = self.hand_fields(v["fields"], True)
                        inner = "{\n%s        construct!(%s::%s { %s })\n    }" % (lets, t["name"], v["name"], ", ".join(names))
                        if v.get("command"):
                            cname = gen.unhx(self.plans[v["vid"] + "c"][1]).decode()
                            inner += ".to_options()"
                            if v["doc"] is not None:
                                inner += ".descr(%s)" % rs_str(v["doc"])
                            inner += ".command(%s)" % rs_str(cname)
                        h += "    let alt%d = %s;\n" % (vi, inner)
                    alts.append("alt%d" % vi)
                body = "construct!([%s])" % ", ".join(alts)
            # the hand-written equivalent takes its descr / header / footer from the extracted model; the Python transcription
            # (options_help above) must say the same
            oh = self.plans[t["name"] + "_oh"]
            parts = [None if x == "-" else gen.unhx(x).decode() for x in oh[1:4]]
            assert oh[0] == "OPTHELP" and tuple(parts) == options_help(t), (oh, options_help(t))
            h += "    %s.to_options()%s\n}\n" % (body, "".join(".%s(%s)" % (k, rs_str(v)) for k, v in zip(("descr", "header", "footer"), parts) if v is not None))
            src.append(h)
        # dispatcher
        src.append(RUNNER_HEAD)
        arms_d = "\n".join("        %d => show(%s().run_inner(args)),"
                           % (i, t["name"].lower()) for i, t in enumerate(types))
        arms_h = "\n".join("        %d => show(hand_%s().run_inner(args)),"
                           % (i, t["name"].lower()) for i, t in enumerate(types))
        src.append(RUNNER_TAIL.replace("@DERIVED@", arms_d).replace("@HAND@", arms_h))
        os.makedirs(os.path.join(CRATE, "src"), exist_ok=True)
        os.makedirs(os.path.join(CRATE, ".cargo"), exist_ok=True)
        with open(os.path.join(CRATE, "src", "main.rs"), "w") as f:
            f.write("\n".join(src))
        with open(os.path.join(CRATE, "Cargo.toml"), "w") as f:
            f.write('[package]\nname = "derivecheck"\nversion = "0.1.0"\nedition = "2021"\n\n[dependencies]\n'
                    'bpaf = { path = "/repo", features = ["derive"] }\n\n[workspace]\n\n[profile.dev]\nopt-level = 0\ndebug = false\n')
        with open(os.path.join(CRATE, ".cargo", "config.toml"), "w") as f:
            f.write('[net]\noffline = true\n[build]\ntarget-dir = "%s"\n' % TARGET)
        infra.sh(["cp", os.path.join(infra.REPO, "Cargo.lock"), os.path.join(CRATE, "Cargo.lock")])
        rc, out = infra.sh(["cargo", "build", "--offline", "--quiet"], cwd=CRATE, env=dict(infra.OFFLINE_ENV), check=False, timeout=3000)
        self.build_error = None if rc == 0 else out[-6000:]

    # ---------------------------------------------------------------- vectors
    def field_tokens(self, rng, f, plan):
        """argv fragments for one occurrence of a named field"""
        sh, lo, _, cons, post, _ = plan
        names = ["-" + c for c in sh] + ["--" + l for l in lo]
        kind = cons.split(":")[0]
        if kind == "positional":
            return [rng.choice(["7", "12"]) if f["ty"] == "u32" else rng.choice(["word", "a b", "x"])]
        nm = rng.choice(names)
        if kind in ("switch", "reqflag"):
            return [nm]
        val = rng.choice(["7", "42"]) if f["ty"] == "u32" else rng.choice(["val", "x=y", "two words"])
        return rng.choice([[nm, val], [nm + "=" + val]])

    def level_vector(self, rng, fields):
        named, pos = [], []
        for f in fields:
            plan = self.plan_of(f)
            if plan is None:
                continue
            kind = plan[3].split(":")[0]
            post = plan[4]
            if "many" in post:
                reps = rng.choice([0, 1, 2, 3])
            elif "optional" in post or "fallback" in post or kind == "switch":
                reps = rng.choice([0, 1, 1])
            else:
                reps = 1 if rng.random() < 0.9 else 0
            for _ in range(reps):
                (pos if kind == "positional" else named).append(self.field_tokens(rng, f, plan))
        rng.shuffle(named)
        return [x for chunk in named for x in chunk] + [x for chunk in pos for x in chunk]

    def vectors(self, rng, t):
        out = [[b"--help"]]
        for _ in range(12):
            if t["kind"] in ("struct", "tuple"):
                if "inner" in t and t["inner"].get("command"):
                    cname = gen.unhx(self.plans[t["name"] + "_ic"][1]).decode()
                    snake = cname.replace("-", "_")
                    v = self.level_vector(rng, t["fields"]) + [rng.choice([cname, cname, cname, snake])] + \
                        (["--help"] if rng.random() < 0.15 else self.level_vector(rng, t["inner"]["fields"]))
                else:
                    v = self.level_vector(rng, t["fields"] + (t["inner"]["fields"] if "inner" in t else []))
            else:
                var = rng.choice(t["variants"])
                if var["kind"] == "unit":
                    sh, lo = self.unit_names(var)
                    v = [rng.choice(["-" + c for c in sh] + ["--" + l for l in lo])]
                else:
                    v = self.level_vector(rng, var["fields"])
                    if var.get("command"):
                        cname = gen.unhx(self.plans[var["vid"] + "c"][1]).decode()
                        v = [cname] + (["--help"] if rng.random() < 0.15 else v)
                if rng.random() < 0.15:
                    other = rng.choice(t["variants"])
                    if other["kind"] == "unit":
                        sh, lo = self.unit_names(other)
                        v.append(rng.choice(["-" + c for c in sh] + ["--" + l for l in lo]))
            v = [x.encode() for x in v]
            r = rng.random()
            if r < 0.25 and v:
                k = rng.randrange(len(v))
                v = rng.choice([v[:k] + v[k + 1:], v + [v[k]], v[:k] + [b"--bogus"] + v[k:], v[:k] + [b"notanumber"] + v[k:]])
            out.append(v)
        return out

    # ---------------------------------------------------------------- run
    def execute(self, cases):
        if self.build_error:
            return {}, {"__build__": ["BUILD", self.build_error]}
        path = os.path.join(infra.CACHE, "work", "derive_%d.cases" % os.getpid())
        os.makedirs(os.path.dirname(path), exist_ok=True)
        with open(path, "w") as f:
            f.write("\n".join(c.line() for c in cases) + "\n")
        env = {k: v for k, v in os.environ.items() if not k.startswith("BPAF_")}
        p = subprocess.run([os.path.join(TARGET, "debug", "derivecheck"), path], stdout=subprocess.PIPE, stderr=subprocess.PIPE,
                           env=env, timeout=1200)
        impl = {}
        for line in p.stdout.decode().splitlines():
            parts = line.split("\t")
            impl[parts[0]] = parts[1:]
        return {}, impl

    def judge(self, cases, model, impl):
        out, nontrivial = [], []
        dist = {"types": len(self.types), "fields": sum(1 for k in self.plans if self.plans[k][0] == "PLAN"), "OK": 0, "STDOUT": 0, "STDERR": 0}
        if "__build__" in impl:
            c = RawCase("build\t0\t")
            c.id = "build"
            out.append(Finding("violation", c, "the generated crate (derive + hand-written equivalents) does not compile: %s"
                               % impl["__build__"][1][-1500:]))
            return out, {"nontrivial_ids": [], "distribution": dist, "rule": "build failed"}
        for c in cases:
            r = impl.get(c.id)
            if r is None or len(r) < 2:
                out.append(Finding("violation", c, "no result for the case: %r" % (r,)))
                continue
            d, h = r[0], r[1]
            nontrivial.append(c.line())
            dc, hc = d.split(" ", 1)[0], h.split(" ", 1)[0]
            dist[dc] = dist.get(dc, 0) + 1
            if dc == "PANIC" and hc == "PANIC":
                out.append(Finding("model", c, "both parsers panic: the generator produced a definition bpaf rejects"))
                continue
            same = (dc == hc) and (dc == "STDERR" or d == h)
            if not same:
                t = self.types[c.tags["type"]]
                out.append(Finding("violation", c, "type %s (%s) on %r: derived %s vs hand-written %s" % (
                    t["name"], t["kind"], [a.decode() for a in c.tags["argv"]], self.show(d), self.show(h))))
        stats = {"nontrivial_ids": nontrivial, "distribution": dist,
                 "rule": "a seeded family of struct / tuple struct / enum definitions (implicit names incl. camelCase, single-character and "
                         "multi-underscore identifiers; bool, (), T, Option<T>, Vec<T>; short/long with and without values, env, "
                         "argument(..)/positional(..) overrides, fallback, doc comments, unit variants with explicit names, command "
                         "variants) compiled with #[derive(Bpaf)] and with the hand-written combinators printed from the Coq plan; "
                         "13 vectors per type (help, sentences in both value spellings, subcommand help, mutated); equal Debug value, "
                         "equal class, equal help text; non-trivial = both parsers ran"}
        return out, stats

    @staticmethod
    def show(x):
        cls, _, payload = x.partition(" ")
        try:
            return "%s %r" % (cls, gen.unhx(payload).decode("utf-8", "replace")[:400])
        except Exception:
            return x[:200]

    def run(self, tier, seed, replay=None):
        # a replay regenerates the family of that run (same tier and seed) and re-judges it
        if replay:
            import json
            obj = json.load(open(replay))
            tier, seed = obj.get("tier", tier), obj.get("seed", seed)
            print("replaying the generated family of tier=%s seed=%s; the recorded failing case: %s" % (tier, seed, obj.get("detail", "")[:300]))
        self._ctx = (tier, seed)
        return Property.run(self, tier, seed, None)

    def write_replay(self, f, model, impl, broken):
        import json
        path = Property.write_replay(self, f, model, impl, broken)
        obj = json.load(open(path))
        obj["tier"], obj["seed"] = self._ctx
        if f is not None and "type" in getattr(f.case, "tags", {}):
            t = self.types[f.case.tags["type"]]
            src = open(os.path.join(CRATE, "src", "main.rs")).read()
            i = src.find("struct %s" % t["name"]) if t["kind"] != "enum" else src.find("enum %s" % t["name"])
            j = src.find("\n}\n", src.find("fn hand_%s" % t["name"].lower()))
            obj["rust_source"] = src[max(0, src.rfind("#[derive", 0, i)):j + 3]
        infra.write_json(path, obj)
        return path

    def known_class(self, cls, f):
        return False


RUNNER_HEAD = r'''
fn to_hex(b: &[u8]) -> String {
    let mut s = String::from("x");
    for c in b {
        s.push_str(&format!("{:02x}", c));
    }
    s
}
fn from_hex(s: &str) -> Vec<u8> {
    let s = &s[1..];
    (0..s.len() / 2).map(|i| u8::from_str_radix(&s[2 * i..2 * i + 2], 16).unwrap()).collect()
}
fn show<T: std::fmt::Debug>(r: Result<T, ParseFailure>) -> String {
    match r {
        Ok(v) => format!("OK {}", to_hex(format!("{:?}", v).as_bytes())),
        Err(ParseFailure::Stdout(d, full)) => format!("STDOUT {}", to_hex(d.monochrome(full).as_bytes())),
        Err(ParseFailure::Stderr(d)) => format!("STDERR {}", to_hex(d.monochrome(true).as_bytes())),
        Err(ParseFailure::Completion(s)) => format!("COMP {}", to_hex(s.as_bytes())),
    }
}
'''

RUNNER_TAIL = r'''
fn run_derived(ix: usize, args: Args) -> String {
    match ix {
@DERIVED@
        _ => "BAD".into(),
    }
}
fn run_hand(ix: usize, args: Args) -> String {
    match ix {
@HAND@
        _ => "BAD".into(),
    }
}
fn main() {
    use std::os::unix::ffi::OsStringExt;
    let path = std::env::args().nth(1).unwrap();
    let text = std::fs::read_to_string(path).unwrap();
    for line in text.lines() {
        let parts: Vec<&str> = line.split('\t').collect();
        if parts.len() < 3 {
            continue;
        }
        let ix: usize = parts[1].parse().unwrap();
        let argv: Vec<std::ffi::OsString> =
            parts[2].split(' ').filter(|s| !s.is_empty()).map(|h| std::ffi::OsString::from_vec(from_hex(h))).collect();
        let d = std::panic::catch_unwind(|| run_derived(ix, Args::from(argv.as_slice()))).unwrap_or_else(|_| "PANIC".into());
        let h = std::panic::catch_unwind(|| run_hand(ix, Args::from(argv.as_slice()))).unwrap_or_else(|_| "PANIC".into());
        println!("{}\t{}\t{}", parts[0], d, h);
    }
}
'''

PROP = C17()
