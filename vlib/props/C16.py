"""C16 -- Generated documentation is complete and well-formed."""
import re
from .. import gen, compare, common, infra
from ..prop import Property, Case, Finding, RawCase
from . import C12 as c12

# user strings with roff / HTML / markdown metacharacters at line starts, after line breaks and paragraph breaks
SPICE = [
    ".br at the start", "'sp 3", "text\n.so /etc/passwd", "first\n\n.de XX", "a\\fBbold\\fP b", "back\\slash", "<b>bold</b> & <i>",
    "</dd></dl><script>alert(1)</script>", "x > y < z", "`code` *emph* _under_ [link](http://x) # heading", "- dash-first",
    "  leading spaces", "line one\n second line starts with a space", "para one\n\npara two\n\n.third paragraph", "'quoted' \"double\"",
    "日本語 テキスト", "tab\there", "a\n'b", "-", ".", "'", "\\", "\\&", "C:\\temp\\new", "ends with newline\n", "a\n.b\n'c\n\\d",
    "mixed <tt> and \\fI and .PP", "..", "''", ".\\\" comment", "\n.leading newline", "a--b -- c",
    # preformatted chunks: 4-space indented lines and fenced blocks
    "usage:\n    --filter <field>=<value>", "example\n\n    convert </dl></div><i> & .so x\n    'second", "text\n\n```\n<script>x</script>\n.de Q\n```\n\nafter",
]
TITLES = ["options group", "", ".SH injected", "'title", "title\\fB", "C:\\dir", "<h1>title</h1>", "two\nlines", "two\nlines\nthree\n", "日本語"]
METAVARS = ["FILE", "<x>", "a.b", "'Q", ".M", "A B", "x\\y", "N", "KEY=VAL", "<>"]
APPS = ["app", "my app", "tool-x", "a\\b", "App.Name"]

STYLES = ["text", "emphasis", "literal", "metavar", "invalid"]
BLOCKS = ["header", "section2", "section3", "itemterm", "itembody", "definitionlist", "block", "inlineblock", "mono"]

TAGS_OK = {"tt", "b", "i", "p", "div", "dl", "dt", "dd", "li", "br", "div style='padding-left: 0.5em'"}
REQ = re.compile(r"^\.(TH|SH|SS|PP|TP|nf|fi)( |$)")
PREAMBLE = [".ie \\n(.g .ds Aq \\(aq", ".el .ds Aq '"]


def spice(rng, opts):
    """Replace help texts, group titles, descriptions, headers, footers and some metavariables by adversarial strings."""
    for x in gen.walk(opts):
        k = x.get("k")
        if k in ("flag", "arg") and rng.random() < 0.5:
            x["n"]["help"] = rng.choice(SPICE)
        if k in ("arg", "pos") and rng.random() < 0.3:
            x["mv"] = rng.choice(METAVARS)
        if k == "pos" and rng.random() < 0.6:
            x["help"] = rng.choice(SPICE)
        if k == "cmd" and rng.random() < 0.5:
            x["help"] = rng.choice(SPICE)
        if k == "group-help" and rng.random() < 0.7:
            x["d"] = rng.choice(TITLES)
        if k == "options":
            for fld in ("descr", "header", "footer"):
                r = rng.random()
                if r < 0.35:
                    x[fld] = rng.choice(SPICE)
                elif r < 0.45:
                    x[fld] = None


def same_name_twice(rng, opts):
    """Give two subcommands with DIFFERENT parents the same name (`tool remote add` / `tool stash add`, or `tool add` /
    `tool stash add`): every level still has its own section."""
    pairs = []
    def go(o):
        kids = c12.C12.level_cmds(o["p"])
        for c in kids:
            pairs.append((o, c, kids))
            go(c["options"])
    go(opts)
    rng.shuffle(pairs)
    for pa, a, _ in pairs:
        for pb, b, kids_b in pairs:
            if pa is not pb and a is not b and a["name"] != b["name"] and \
                    all(a["name"] not in [k["name"]] + k["aliases"] for k in kids_b if k is not b):
                b["name"] = a["name"]
                return True
    return False


def cased_non_ascii(opts):
    """Any string of the definition with a cased non-ASCII letter (the model's to_uppercase/to_lowercase are the ASCII ones)
    or a non-ASCII command name."""
    def cased(t):
        return any(ord(c) > 127 and (c.lower() != c or c.upper() != c) for c in t)

    def strings(v):
        if isinstance(v, str):
            yield v
        elif isinstance(v, (list, tuple)):
            for y in v:
                yield from strings(y)
        elif isinstance(v, dict):
            for kk, y in v.items():
                if kk not in ("k", "p", "fields", "alts", "options"):
                    yield from strings(y)
    for x in gen.walk(opts):
        if any(cased(t) for t in strings(x)):
            return True
        if x.get("k") == "cmd" and any(ord(c) > 127 for c in x["name"] + "".join(x["aliases"]) + "".join(x["shorts"])):
            return True
    return False


def gen_tokens(rng, balanced, depth=0):
    out = []
    for _ in range(rng.choice([1, 2, 3, 4])):
        r = rng.random()
        if r < 0.5 or depth > 3:
            out.append("(t %s %s)" % (rng.choice(STYLES), gen.hx(rng.choice(SPICE + TITLES + METAVARS))))
        else:
            b = rng.choice(BLOCKS)
            out.append("(s %s)" % b)
            out.extend(gen_tokens(rng, balanced, depth + 1))
            out.append("(e %s)" % (b if balanced or rng.random() < 0.7 else rng.choice(BLOCKS)))
    return out


def doc_balanced(docsexp):
    st = []
    for kind, a in re.findall(r"\((s|e) (\w+)\)", docsexp):
        if kind == "s":
            st.append(a)
        else:
            if not st or st[-1] != a:
                return False
            st.pop()
    return not st


def html_tags(html):
    """Independent HTML lexer: list of ('open'|'close'|'void', name) or an error string."""
    tags, i = [], 0
    while i < len(html):
        c = html[i]
        if c == ">":
            return "stray '>' at %d: %r" % (i, html[max(0, i - 20):i + 20])
        if c == "<":
            j = html.find(">", i)
            if j < 0:
                return "unterminated '<' at %d" % i
            inner = html[i + 1:j]
            if "<" in inner:
                return "'<' inside a tag at %d: %r" % (i, inner[:40])
            if inner == "br":
                tags.append(("void", "br"))
            elif inner.startswith("/"):
                tags.append(("close", inner[1:]))
            else:
                tags.append(("open", inner))
            i = j + 1
        else:
            i += 1
    return tags


def html_check(html):
    tags = html_tags(html)
    if isinstance(tags, str):
        return tags
    st = []
    for kind, name in tags:
        if kind != "close" and name not in TAGS_OK:
            return "tag <%s> is not one of bpaf's" % name
        if kind == "open":
            st.append(name.split(" ")[0])
        elif kind == "close":
            if not st or st[-1] != name:
                return "</%s> closes %r" % (name, st[-1] if st else None)
            st.pop()
    if st:
        return "unclosed tags %r" % st
    return None


def man_check(man):
    """Control lines are bpaf's requests; every escape sequence is one bpaf writes."""
    lines = man.split("\n")
    for n, line in enumerate(lines):
        if line[:1] in (".", "'"):
            if n < 2 and line == PREAMBLE[n]:
                continue
            if not REQ.match(line):
                return "line %d begins with a control character and is not one of bpaf's requests: %r" % (n + 1, line[:80])
        if n < 2:
            continue
        i = 0
        while i < len(line):
            if line[i] == "\\":
                nxt = line[i + 1:i + 2]
                if nxt in ("\\", "-", "&", " "):
                    i += 2
                elif line.startswith("\\*(Aq", i):
                    i += 5
                elif re.match(r"\\f[BIRP]", line[i:i + 3]):
                    i += 3
                else:
                    return "line %d carries an escape sequence bpaf does not write: %r" % (n + 1, line[max(0, i - 10):i + 12])
            else:
                i += 1
    return None


def unroff_text(man):
    t = re.sub(r"\\f[BIRP]", "", man)
    t = t.replace("\\*(Aq", "'").replace("\\&", "").replace("\\-", "-").replace("\\ ", " ").replace("\\\\", "\\")
    return t


def html_text(html):
    return re.sub(r"<[^>]*>", "", html).replace("&lt;", "<").replace("&gt;", ">")


def ast_sections(opts, path):
    yield path, opts
    for c in c12.C12.level_cmds(opts["p"]):
        yield from ast_sections(c["options"], path + [c["name"]])


def header_spans(docsexp):
    """[(header text, tokens until the next top-level header)]"""
    toks = re.findall(r"\((t|s|e) (\w+)(?: (x[0-9a-f]*))?\)", docsexp)
    spans, cur_head, in_head, body = [], None, False, []
    for kind, a, b in toks:
        if kind == "s" and a == "header":
            if cur_head is not None:
                spans.append((cur_head, body))
            cur_head, in_head, body = "", True, []
        elif kind == "e" and a == "header":
            in_head = False
        elif in_head and kind == "t":
            cur_head += gen.unhx(b).decode("utf-8")
        elif cur_head is not None:
            body.append((kind, a, b))
    if cur_head is not None:
        spans.append((cur_head, body))
    return spans


def span_terms(body):
    terms, cur = [], None
    for kind, a, b in body:
        if kind == "s" and a == "itemterm":
            cur = ""
        elif kind == "e" and a == "itemterm":
            terms.append(cur)
            cur = None
        elif kind == "t" and cur is not None:
            cur += gen.unhx(b).decode("utf-8")
    return terms


class C16(Property):
    pid = "C16"
    quick_n = 900
    thorough_n = 12000
    partial = ["the theorems about the documents bpaf builds (existence, balanced blocks, well-nested HTML) assume that the "
               "definition's own documents are balanced -- all the Doc API can build; checked on every document of every run too"]

    def generate(self, rng, tier, n):
        cases = []
        k = 0
        while len(cases) < n:
            opts, names = gen.gen_options(rng, features=rng.choice([("alt", "cmd", "pos"), ("alt", "adj", "cmd", "pos")]),
                                          env_p=0.15, allow_catch=False, unicode_ok=False)
            c12.regroup(rng, opts, names)
            if rng.random() < 0.4:
                same_name_twice(rng, opts)
            if rng.random() < 0.5:
                opts["header"] = "HEADERTEXT here"
                opts["footer"] = "FOOTERTEXT here"
            spice(rng, opts)
            if cased_non_ascii(opts):
                continue
            app = rng.choice(APPS)
            cases.append(Case("d%d" % k, opts, [], mode="docs " + gen.hx(app), tags={"role": "docs", "app": app}))
            # the renderers on explicit documents: balanced and unbalanced token lists with adversarial text
            for j in range(2):
                balanced = rng.random() < 0.7
                toks = gen_tokens(rng, balanced)
                th = [rng.choice(APPS), "1"] + ([rng.choice(["-", "2026-01-01", ""]), "-", rng.choice(["", "a title"])] if rng.random() < 0.5 else [])
                line = "(rdoc r%d_%d (doc %s) (full %d) (th %s))" % (k, j, " ".join(toks), rng.random() < 0.8,
                                                                     " ".join(gen.hx(t) for t in th))
                rc = RawCase(line)
                rc.tags = {"role": "rdoc"}
                cases.append(rc)
            k += 1
        return cases

    def execute(self, cases):
        lines = [c.line() for c in cases]
        impl = infra.run_driver(lines, per=40)
        model = infra.run_model(lines, per=40)
        return model, impl

    def judge(self, cases, model, impl):
        out, nontrivial = [], []
        dist = {"docs": 0, "rdoc": 0, "rdoc_balanced": 0, "sections": 0, "html_bytes": 0, "man_bytes": 0, "md_bytes": 0}
        for c in cases:
            ic, mc = impl.get(c.id), model.get(c.id)
            role = c.tags.get("role")
            if role == "rdoc":
                dist["rdoc"] += 1
                if ic is None or ic[0] != "RDOC":
                    out.append(Finding("violation", c, "renderer did not return: %s" % common.show(ic)))
                    continue
                if mc is not None and mc[0] == "RDOC" and len(mc) > 4 and len(ic) > 4 and mc[4] != ic[4]:
                    out.append(Finding("disagree", c, "markdown rendering of an explicit document differs: model %r vs implementation %r" % (
                        mc[4] if mc[4] == "PANIC" else gen.unhx(mc[4])[:200], ic[4] if ic[4] == "PANIC" else gen.unhx(ic[4])[:200])))
                if mc is None or mc[0] != "RDOC" or mc[1:3] != ic[1:3]:
                    which = "html" if (mc is None or mc[1] != ic[1]) else "roff"
                    out.append(Finding("disagree", c, "%s rendering of an explicit document differs: model %r vs implementation %r" % (
                        which, self.show(mc, which), self.show(ic, which))))
                nontrivial.append(c.line())
                bal = doc_balanced(c.line())
                dist["rdoc_balanced"] += bal
                if ic[1] != "PANIC":
                    html = gen.unhx(ic[1]).decode("utf-8")
                    tags = html_tags(html)
                    if isinstance(tags, str):
                        out.append(Finding("violation", c, "HTML: user text opens or breaks a tag: %s" % tags))
                    elif bal:
                        e = html_check(html)
                        if e:
                            out.append(Finding("violation", c, "HTML of a balanced document: %s" % e))
                if ic[2] != "PANIC":
                    e = man_check(gen.unhx(ic[2]).decode("utf-8"))
                    if e:
                        out.append(Finding("violation", c, "manpage: %s" % e))
                continue
            dist["docs"] += 1
            if ic is None or ic[0] != "DOCS":
                out.append(Finding("violation", c, "documentation rendering did not return: %s" % common.show(ic)))
                continue
            html_h, man_h, dh, dr, md_h = ic[1], ic[2], ic[3], ic[4], ic[5]
            if "PANIC" in (html_h, man_h, md_h):
                what = [n for n, v in (("render_html", html_h), ("render_manpage", man_h), ("render_markdown", md_h)) if v == "PANIC"]
                out.append(Finding("violation", c, "%s panicked" % ", ".join(what)))
                continue
            if mc is None or mc[0] != "DOCS":
                out.append(Finding("disagree", c, "model produced no documentation: %s" % (mc,)))
            else:
                for name, a, b in (("html document (token list)", mc[3], dh), ("manpage document (token list)", mc[4], dr),
                                   ("html text", mc[1], html_h), ("manpage text", mc[2], man_h),
                                   ("markdown text", mc[5] if len(mc) > 5 else None, md_h)):
                    if a != b:
                        out.append(Finding("disagree", c, "%s differs: model %s vs implementation %s" % (name, self.first_diff(a, b), "")))
                        break
            if ic[6] != "1":
                out.append(Finding("violation", c, "render_markdown was given a different document than render_html"))
            nontrivial.append(c.line())
            html = gen.unhx(html_h).decode("utf-8")
            man = gen.unhx(man_h).decode("utf-8")
            md = gen.unhx(md_h).decode("utf-8")
            dist["html_bytes"] += len(html)
            dist["man_bytes"] += len(man)
            dist["md_bytes"] += len(md)
            # ---- well-formedness, from the texts alone
            for d, nm in ((dh, "html"), (dr, "manpage")):
                if not doc_balanced(d):
                    out.append(Finding("violation", c, "the %s document has unbalanced blocks" % nm))
            e = html_check(html)
            if e:
                out.append(Finding("violation", c, "HTML: %s" % e))
            e = man_check(man)
            if e:
                out.append(Finding("violation", c, "manpage: %s" % e))
            # ---- completeness: every command level, every visible item, nothing hidden
            app = c.tags["app"]
            secs = list(ast_sections(c.opts, []))
            dist["sections"] += len(secs)
            spans = header_spans(dh)
            if len(secs) > 1 and spans and spans[0][0] == "Command summary":
                spans = spans[1:]
            want_heads = [" ".join([app] + p) for p, _ in secs]
            got_heads = [h for h, _ in spans]
            if want_heads != got_heads:
                out.append(Finding("violation", c, "sections of the HTML/markdown document %r are not the reachable command levels %r"
                                   % (got_heads, want_heads)))
                continue
            plain = {"html": html_text(html), "markdown": md.replace("`", "").replace("**", ""), "manpage": unroff_text(man)}
            bad = None
            for (path, o), (_, body) in zip(secs, spans):
                vis = c12.visible_terms(o["p"])
                expected = [t for t, in_adj, has_help in vis if not (in_adj and not has_help)]
                extra = ["-h, --help"] + (["-V, --version"] if o["version"] is not None else [])
                shown = [t for t in span_terms(body) if t != ""]
                miss = [t for t in expected + extra if t not in shown]
                over = [t for t in shown if t not in [t for t, _, _ in vis] + extra]
                if miss or over:
                    bad = "section %r: items missing %r, items that are not visible items of the level %r" % (" ".join([app] + path), miss, over)
                    break
                for t in expected:
                    for nm in re.findall(r"--[^\s=,]+", t):
                        for fmt, text in plain.items():
                            if nm not in text:
                                bad = "%s does not mention %s (section %r)" % (fmt, nm, " ".join([app] + path))
            if bad:
                out.append(Finding("violation", c, bad))
            # the manpage document lists, for every command level, that level's own help flag -- and its version flag exactly
            # when the level has a version
            mterms = span_terms([(k_, a_, b_) for k_, a_, b_ in re.findall(r"\((t|s|e) (\w+)(?: (x[0-9a-f]*))?\)", dr)])
            n_help, n_ver = mterms.count("-h, --help"), mterms.count("-V, --version")
            w_help, w_ver = len(secs), sum(1 for _, o in secs if o["version"] is not None)
            if (n_help, n_ver) != (w_help, w_ver):
                out.append(Finding("violation", c, "the manpage lists the help flag %d times and the version flag %d times, but the "
                                                   "definition has %d command levels, %d of them with a version"
                                   % (n_help, n_ver, w_help, w_ver)))
            hidden = set()
            for x in gen.walk(c.opts):
                if x.get("k") == "hide":
                    for y in gen.walk(x["p"]):
                        if y.get("k") in ("flag", "arg"):
                            hidden.update(y["n"]["long"])
            for nm in hidden:
                rx = re.compile(r"(?<![\w-])--%s(?![\w-])" % re.escape(nm))
                for fmt, text in plain.items():
                    if rx.search(text):
                        out.append(Finding("violation", c, "%s mentions the hidden item --%s" % (fmt, nm)))
                        break
        stats = {"nontrivial_ids": nontrivial, "distribution": dist,
                 "rule": "random definitions (nested commands, groups, group_help over nested construct!, hidden parts, adjacent blocks, "
                         "alternatives) whose help / description / header / footer / group titles / metavariables / application name "
                         "carry roff, HTML and markdown metacharacters at line starts, after line and paragraph breaks x {render_html, "
                         "render_markdown, render_manpage}; plus the html and roff renderers on explicit balanced and unbalanced token "
                         "lists (hook). Model vs implementation: documents token for token, html and manpage byte for byte. Oracle: "
                         "independent HTML tag lexer (balance, alphabet), roff control-line whitelist and escape audit, sections = "
                         "reachable command levels, items per section = visible leaves (AST), names present in all three texts, hidden "
                         "names absent; non-trivial = documentation obtained"}
        return out, stats

    @staticmethod
    def show(c, which):
        if c is None:
            return None
        v = c[1] if which == "html" else c[2]
        return v if v == "PANIC" else gen.unhx(v)[:300]

    @staticmethod
    def first_diff(a, b):
        if a in ("PANIC", "NONE") or b in ("PANIC", "NONE"):
            return "%r vs %r" % (a[:80], b[:80])
        if a.startswith("x") and b.startswith("x"):
            a, b = gen.unhx(a), gen.unhx(b)
        i = 0
        while i < min(len(a), len(b)) and a[i] == b[i]:
            i += 1
        return "%r vs %r" % (a[max(0, i - 40):i + 60], b[max(0, i - 40):i + 60])

    def known_class(self, cls, f):
        return False


PROP = C16()
