"""C20 -- Optional cargo features do not change parsing."""
from concurrent.futures import ThreadPoolExecutor
from .. import gen, compare, common, infra
from ..prop import Property, Case, Finding

TAGS = ["none", "autocomplete", "full", "dull", "bright"]


class C20(Property):
    pid = "C20"
    quick_n = 2000
    thorough_n = 50000
    partial = ["derive/batteries add items and change none: no model content, tie only"]

    def build_impl(self):
        with ThreadPoolExecutor(5) as ex:
            self.drivers = dict(zip(TAGS, ex.map(infra.ensure_driver_variant, TAGS)))

    def generate(self, rng, tier, n):
        cases = []
        k = 0
        while len(cases) < n:
            r = rng.random()
            if r < 0.06:
                # ambiguous short name (flag in one alternative, argument in another)
                names = gen.Names(rng, unicode_ok=False)
                c, v = names.short(), names.short()
                amb = gen.alt(gen.req_flag(gen.named(short=[c]), "unit"), gen.arg(gen.named(short=[c]), "X", "string"))
                opts = gen.options(gen.con(gen.flag(gen.named(short=[v])), gen.wrap("optional", amb)), descr="Lamb")
                pool = [("-" + v + c).encode(), ("-" + c + v).encode(), ("-" + c).encode(), ("-" + c + "x").encode()]
                for j in range(3):
                    cases.append(Case("g%dp%d" % (k, j), opts, [rng.choice(pool)], tags={"role": "parse", "ambig": True}))
                k += 1
                continue
            opts, names = gen.gen_options(rng, features=("alt", "adj", "cmd", "pos", "grp"), allow_catch=rng.random() < 0.3, env_p=0.1)
            if r < 0.15:
                # a help text with a fenced code block
                for x in gen.walk(opts):
                    if x["k"] in ("flag", "arg"):
                        x["n"]["help"] = "first line\n\n```\nfenced code\n```\n\nafter"
                        break
            for j in range(6):
                argv = gen.gen_argv(rng, opts)
                m = rng.random()
                if m < 0.3:
                    argv = gen.mutate(rng, argv, opts)
                elif m < 0.5:
                    argv.insert(rng.randrange(len(argv) + 1), rng.choice([b"--help", b"-h", b"--version", b"-V"]))
                elif m < 0.55:
                    argv = argv + [b"--help", b"--help"]
                elif m < 0.67:
                    # an item the parser does not expect, holding characters a terminal would interpret (escape sequences, tab,
                    # bell, backspace, CR): error messages quote the user's input -- the same bytes in every build
                    argv = list(argv)
                    argv.insert(rng.randrange(len(argv) + 1),
                                rng.choice([b"\x1b[2Jboom", b"a\tb", b"--no\x07pe", b"x\x08y", b"-\x1b[31mred", b"cr\rlf", b"--k=\x1b[0m"]))
                cases.append(Case("g%dp%d" % (k, j), opts, argv, tags={"role": "parse"}))
            k += 1
        return cases

    def execute(self, cases):
        lines = [c.line() for c in cases]
        model = infra.run_model(lines)
        impl = {}
        for tag in TAGS:
            impl[tag] = infra.run_driver(lines, driver=self.drivers[tag], tag="d" + tag)
        # the generic flow indexes impl by case id: keep the reference build there, the rest aside
        self.by_build = impl
        # OptionParser::run() in a real process with piped streams and NO_COLOR: what print_message writes must be the
        # same bytes whatever the build (colours are not wanted here, so the colour builds fall back to monochrome)
        import os, subprocess
        work = os.path.join(infra.CACHE, "work")
        os.makedirs(work, exist_ok=True)
        env = {k: v for k, v in os.environ.items() if not (k.startswith("BPAF_") or k.startswith("VT_"))}
        sample = [c for c in cases if getattr(c, "opts", None) is not None][::max(1, len(cases) // 60)]

        def spawn(job):
            c, tag, nocolor = job
            path = os.path.join(work, "c20_%d_%s_%s.case" % (os.getpid(), c.id, tag))
            with open(path, "w") as f:
                f.write(c.line())
            e = dict(env, VERIF_CHILD_CASE_FILE=path)
            e.pop("NO_COLOR", None)
            e.pop("CLICOLOR_FORCE", None)
            e.pop("FORCE_COLOR", None)
            if nocolor:
                e["NO_COLOR"] = "1"
            try:
                p = subprocess.run(["app"] + list(c.argv), executable=self.drivers[tag], env=e, stdout=subprocess.PIPE,
                                   stderr=subprocess.PIPE, stdin=subprocess.DEVNULL, timeout=20)
                r = (p.returncode, p.stdout, p.stderr)
            except subprocess.TimeoutExpired:
                r = ("HANG", b"", b"")
            except (OSError, ValueError) as ex:
                r = ("SPAWN", str(ex).encode(), b"")
            os.unlink(path)
            return (c.id, tag), r
        jobs = [(c, tag, i % 2 == 0) for i, c in enumerate(sample) for tag in ("none", "dull", "bright")]
        with ThreadPoolExecutor(infra.NPROC) as ex:
            self.children = dict(ex.map(spawn, jobs))
        self.sample = sample
        return model, impl["full"]

    def judge(self, cases, model, impl):
        out, nontrivial, dist = [], [], {}
        for c in cases:
            r = compare.agree_class_value(model.get(c.id), impl.get(c.id))
            if r:
                out.append(Finding("disagree", c, r))
            ref = self.by_build["none"].get(c.id)
            nontrivial.append(c.line())
            cls = compare.impl_class(ref)
            dist[cls] = dist.get(cls, 0) + 1
            for tag in TAGS[1:]:
                other = self.by_build[tag].get(c.id)
                if other != ref:
                    out.append(Finding("violation", c, "builds `none` and `%s` differ: %s  vs  %s" % (tag, common.show(ref), common.show(other))))
                    break
        for c in self.sample:
            ref = self.children.get((c.id, "none"))
            if ref is None or ref[0] == "SPAWN":
                continue
            dist["child_processes"] = dist.get("child_processes", 0) + 1
            for tag in ("dull", "bright"):
                other = self.children.get((c.id, tag))
                if other != ref:
                    out.append(Finding("violation", c, "a real process with piped streams prints different bytes in builds `none` and "
                                                       "`%s` (colours are not wanted there): %r  vs  %r" % (tag, ref, other)))
                    break
        stats = {"nontrivial_ids": nontrivial, "distribution": dist,
                 "rule": "one seeded corpus (random definitions of every shape, sentences, mutations, help/version requests, a few "
                         "ambiguous short names and fenced code blocks in help) run by the SAME harness built against /repo with "
                         "feature sets none / autocomplete / autocomplete+docgen+batteries / dull-color / bright-color; outcome "
                         "lines (class, value, monochrome help and error text) compared pairwise; a sample of the corpus also "
                         "through OptionParser::run() in child processes of the none/dull/bright builds with piped streams "
                         "(every other one with NO_COLOR=1): exit status, stdout and stderr bytes compared"}
        return out, stats

    def known_class(self, cls, f):
        if f.kind != "violation" or f.case.opts is None:
            return False
        if cls == "ambiguity_needs_autocomplete":
            return bool(f.case.tags.get("ambig")) or "ambiguity" in f.detail.lower() or "is ambiguous" in f.detail
        if cls == "fenced_code_needs_docgen":
            return any(x["k"] in ("flag", "arg") and x["n"].get("help") and "```" in x["n"]["help"] for x in gen.walk(f.case.opts))
        return False


PROP = C20()
