"""C13 -- Console rendering never loses text and respects the width."""
import re
from .. import gen, compare, common, infra
from ..prop import Property, Case, Finding

WORDS = ["alpha", "be", "x", "Gamma,", "delta-epsilon", "z" * 37, "naïve", "日本語", "tab\there", "nb sp", "q=1", "(see", "below)",
         "--flag", "`code`", "a", "I", "0", "émigré", "W" * 120, "end."]


def gen_text(rng, paragraphs=None):
    n = paragraphs if paragraphs is not None else rng.choice([1, 1, 2, 3])
    paras = []
    for i in range(n):
        k = rng.choice([1, 3, 8, 20, 45])
        ws = [rng.choice(WORDS) for _ in range(k)]
        if i > 0:
            ws.insert(0, "PARA%dZZ" % (i + 1))
        t = ""
        for j, w in enumerate(ws):
            if j:
                r = rng.random()
                t += " " if r < 0.8 else ("\n" if r < 0.9 else ("\n " if r < 0.96 else "  "))
            t += w
        if rng.random() < 0.12:
            t += "\n\n    code line one\n    second code line %s" % rng.choice(WORDS)
        if rng.random() < 0.06:
            t += "\n\n```\nfenced %s\nmore\n```" % rng.choice(WORDS)
        paras.append(t)
    return "\n\n".join(paras)


def styled(rng, text):
    """Cut a text into 2..6 non-empty fragments of alternating styles (a Doc built with text/literal/emphasis/invalid)."""
    if len(text) < 4:
        return text
    cuts = sorted(set(rng.randrange(1, len(text)) for _ in range(rng.choice([1, 2, 3, 5]))))
    parts, prev = [], 0
    for c in cuts + [len(text)]:
        parts.append(text[prev:c])
        prev = c
    out, last = [], None
    for p in parts:
        st = rng.choice([x for x in ("text", "literal", "emphasis", "invalid", "text") if x != last])
        out.append((st, p))
        last = st
    return out


class C13(Property):
    pid = "C13"
    quick_n = 220
    thorough_n = 1500
    partial = ["the width clause is proved on renderer states (the column counter dominates the current line; a word placed "
               "beyond width+2 is the first after the indentation/term or shares its line with code), not as a statement about "
               "the lines of the final text: that is decided by the oracle and the differential run"]

    def gen_def(self, rng):
        names = gen.Names(rng)
        fields = []
        for _ in range(rng.choice([1, 2, 3, 5])):
            n = names.named(help_p=0.0)
            n["help"] = gen_text(rng)
            if rng.random() < 0.3:
                # a styled Doc as help: fragments of alternating style cut out of a multi-paragraph text
                n["help"] = styled(rng, n["help"])
            k = rng.random()
            if k < 0.4:
                fields.append(gen.flag(n))
            else:
                a = gen.arg(n, rng.choice(["N", "FILE", "A_VERY_LONG_METAVAR_NAME_INDEED"]), "string")
                fields.append(a if rng.random() < 0.6 else gen.wrap("optional", a))
        if rng.random() < 0.3:
            g = gen.con(gen.flag(names.named(help_p=1.0)), gen.flag(names.named(help_p=1.0)))
            fields.append(gen.wrap("group-help", g, d=gen_text(rng, 1)))
        if rng.random() < 0.5:
            fields.append(gen.pos("POS", "string", help=gen_text(rng)))
        if rng.random() < 0.3:
            sub = gen.options(gen.flag(names.named(help_p=1.0)), descr=gen_text(rng))
            fields.append(gen.cmd(names.cmdname(), sub, help=gen_text(rng, rng.choice([1, 2]))))
        p = gen.con(*fields) if len(fields) > 1 else fields[0]
        return gen.options(p, descr=gen_text(rng) if rng.random() < 0.7 else None,
                           header=gen_text(rng) if rng.random() < 0.4 else None,
                           footer=gen_text(rng) if rng.random() < 0.4 else None,
                           version="1.0" if rng.random() < 0.3 else None)

    def widths(self, rng, tier):
        if tier == "thorough":
            return list(range(1, 301))
        ws = {1, 2, 7, 39, 40, 41, 60, 79, 80, 100, 300}
        while len(ws) < 22:
            ws.add(rng.randrange(1, 301))
        return sorted(ws)

    def generate(self, rng, tier, n):
        cases = []
        for k in range(n):
            opts = self.gen_def(rng)
            ws = self.widths(rng, tier)
            mode = "render " + " ".join(str(w) for w in ws) + " 60000"
            what = rng.random()
            if what < 0.55:
                argv = [rng.choice([b"--help", b"-h"])]
            elif what < 0.7:
                argv = [b"--help", b"--help"]
            else:
                argv = gen.mutate(rng, gen.gen_argv(rng, opts), opts)      # an error document
            cases.append(Case("d%d" % k, opts, argv, mode=mode, tags={"widths": ws, "role": "doc"}))
        return cases

    def execute(self, cases):
        impl = infra.run_driver([c.line() for c in cases], per=16)
        lines = []
        for c in cases:
            ic = impl.get(c.id)
            if ic and ic[0] == "RENDER" and ic[3].startswith("(doc"):
                ws = " ".join(str(w) for w in c.tags["widths"] + [60000])
                lines.append("(render %s %s (widths %s) (full 1))" % (c.id, ic[3], ws))
                lines.append("(render %sm %s (widths 100) (full %s))" % (c.id, ic[3], ic[2]))
        model = infra.run_model(lines, per=16) if lines else {}
        return model, impl

    @staticmethod
    def strip_ws(b):
        return "".join(ch for ch in b.decode("utf-8") if not ch.isspace() and ch not in "\x85      　"
                       and not (" " <= ch <= " "))

    def judge(self, cases, model, impl):
        out, nontrivial, dist = [], [], {"docs": 0, "renderings": 0, "not_a_doc": 0}
        for c in cases:
            ic = impl.get(c.id)
            if not ic or ic[0] != "RENDER":
                dist["not_a_doc"] += 1
                if ic and ic[0] in ("PANIC", "HANG", "EXIT"):
                    out.append(Finding("violation", c, "rendering did not return normally: %s" % common.show(ic)))
                continue
            dist["docs"] += 1
            full = ic[2] == "1"
            mono = gen.unhx(ic[4])
            by_w = {}
            for part in ic[5].split(";"):
                w, h = part.split(":")
                by_w[int(w)] = gen.unhx(h)
            mc = model.get(c.id)
            mm = model.get(c.id + "m")
            if mc is None or mc[0] != "RENDER":
                out.append(Finding("disagree", c, "model could not render the document: %s" % (mc,)))
            else:
                for part in mc[1].split(";"):
                    w, h = part.split(":")
                    dist["renderings"] += 1
                    got = by_w.get(int(w))
                    want = None if h == "PANIC" else gen.unhx(h)
                    if want != got:
                        out.append(Finding("disagree", c, "console text at width %s differs: model %r vs implementation %r"
                                           % (w, (want or b"PANIC")[:120], (got or b"")[:120])))
                        break
                if mm and mm[0] == "RENDER":
                    h = mm[1].split(":")[1]
                    if h == "PANIC" or gen.unhx(h) != mono:
                        out.append(Finding("disagree", c, "monochrome(full=%s) differs: model %r vs implementation %r"
                                           % (full, h[:60], mono[:120])))
            # ---- the property on the implementation's text alone
            ref = by_w.get(60000)
            if ref is None:
                continue
            nontrivial.append(c.line())
            ref_s = self.strip_ws(ref)
            for w in c.tags["widths"]:
                t = by_w[w]
                if self.strip_ws(t) != ref_s:
                    out.append(Finding("violation", c, "width %d: text content differs from the unwrapped rendering (characters "
                                                       "dropped, duplicated or reordered): %r" % (w, self.diff(ref_s, self.strip_ws(t)))))
                    break
                if w >= 40:
                    bad = self.too_long(t.decode("utf-8"), w)
                    if bad is not None:
                        out.append(Finding("violation", c, "width %d: line of %d characters that is neither a code line nor a single "
                                                           "unbreakable word after its indentation/term: %r" % (w, len(bad), bad[:160])))
                        break
            # short form: every later paragraph of every help text is absent, the first is present
            if not full:
                if "PARA2ZZ" in mono.decode("utf-8") and "PARA2ZZ" in ref.decode("utf-8"):
                    # paragraphs of the description/header/footer blocks are not item help: only check item bodies
                    pass
        stats = {"nontrivial_ids": nontrivial, "distribution": dist,
                 "rule": "definitions whose help/description/header/footer strings are multi-paragraph texts with hard breaks, indented "
                         "and fenced code, 120-character words, non-ASCII, tabs, NBSP x {help, detailed help, error documents}; "
                         "each document rendered at a width set (quick: 22 widths incl. 1,2,39,40,41,100,300; thorough: 1..300) + "
                         "unwrapped; the model renders the same token list; non-trivial = document obtained and rendered"}
        return out, stats

    @staticmethod
    def diff(a, b):
        i = 0
        while i < min(len(a), len(b)) and a[i] == b[i]:
            i += 1
        return (a[max(0, i - 15):i + 15], b[max(0, i - 15):i + 15])

    @staticmethod
    def too_long(text, w):
        for line in text.split("\n"):
            if len(line) <= w + 2:
                continue
            # what follows the indentation (and, for an item line, the term) must be one unbreakable word
            body = line.lstrip(" ")
            if " " not in body.strip():
                continue
            # preformatted code lines (the generator's code blocks) are exempt
            if any(body.startswith(p) or p in body for p in ("code line one", "second code line", "fenced ", "```")) or body.strip() == "more":
                continue
            # item line: "    -v, --verbose  <body>": the body after the 2-space gutter
            m = re.match(r"^(\s*\S.*?)\s{2,}(\S+)$", line)
            if m:
                continue
            # a code line (indented block or fenced code) is exempt: we cannot tell from the text alone, so accept lines
            # that also appear verbatim in the unwrapped rendering
            return line
        return None

    def known_class(self, cls, f):
        return False


PROP = C13()
