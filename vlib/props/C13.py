"""C13 -- Console rendering never loses text and respects the width."""
import re
from .. import gen, compare, common, infra
from ..prop import Property, Case, Finding

WORDS = ["alpha", "be", "x", "Gamma,", "delta-epsilon", "z" * 37, "naïve", "日本語", "tab\there", "nb sp", "q=1", "(see", "below)",
         "--flag", "`code`", "a", "I", "0", "émigré", "W" * 120, "end."]


def gen_text(rng, paragraphs=None):
    n = paragraphs if paragraphs is not None else rng.choice([1, 1, 2, 3])
    paras = []
    for i in range(n):
        k = rng.choice([1, 3, 8, 20, 45])
        ws = [rng.choice(WORDS) for _ in range(k)]
        if i > 0:
            ws.insert(0, "PARA%dZZ" % (i + 1))
        t = ""
        for j, w in enumerate(ws):
            if j:
                r = rng.random()
                t += " " if r < 0.8 else ("\n" if r < 0.9 else ("\n " if r < 0.96 else "  "))
            t += w
        if rng.random() < 0.12:
            t += "\n\n    code line one\n    second code line %s" % rng.choice(WORDS)
        if rng.random() < 0.06:
            t += "\n\n```\nfenced %s\nmore\n```" % rng.choice(WORDS)
        paras.append(t)
    return "\n\n".join(paras)


def styled(rng, text):
    """Cut a text into 2..6 non-empty fragments of alternating styles (a Doc built with text/literal/emphasis/invalid)."""
    if len(text) < 4:
        return text
    cuts = sorted(set(rng.randrange(1, len(text)) for _ in range(rng.choice([1, 2, 3, 5]))))
    parts, prev = [], 0
    for c in cuts + [len(text)]:
        parts.append(text[prev:c])
        prev = c
    out, last = [], None
    for p in parts:
        st = rng.choice([x for x in ("text", "literal", "emphasis", "invalid", "text") if x != last])
        # sometimes as an embedded document (Doc::doc) holding that one fragment
        out.append((("doc-" + st) if rng.random() < 0.3 else st, p))
        last = st
    return out


def first_paragraph(h, innermost=False):
    """A help text (string or styled fragments) cut at its first paragraph break.  A break is a blank line INSIDE one
    fragment: every fragment is split on its own, so a newline ending one fragment and one starting the next do not meet.
    `innermost`: the recorded deviation C13-para-break-inside-embedded-doc instead -- a break inside an embedded document
    hides only the rest of THAT document."""
    if h is None:
        return None
    if isinstance(h, str):
        return h.split("\n\n")[0]
    out = []
    for st, tx in h:
        if "\n\n" in tx:
            tx = tx.split("\n\n")[0]
            if tx:
                out.append((st, tx))
            if innermost and st.startswith("doc-"):
                continue
            break
        out.append((st, tx))
    return out


def embedded_break(opts):
    """Does some help text hold an embedded document with a paragraph break inside it, followed by more of the text?"""
    for x in gen.walk(opts["p"]):
        h = x["n"]["help"] if x["k"] in ("flag", "arg") else None
        if isinstance(h, list) and any(st.startswith("doc-") and "\n\n" in tx for st, tx in h[:-1]):
            return True
    return False


def truncated(opts, innermost=False):
    """The same definition with every help text, description, header and footer cut at its first paragraph break."""
    import copy
    o = copy.deepcopy(opts)
    for x in [o] + list(gen.walk(o["p"])):
        if x["k"] == "options":
            for f in ("descr", "header", "footer"):
                x[f] = first_paragraph(x[f])
        if x["k"] in ("flag", "arg"):
            x["n"]["help"] = first_paragraph(x["n"]["help"], innermost)
        if x["k"] in ("pos", "cmd"):
            x["help"] = first_paragraph(x["help"])
        if x["k"] == "group-help" and "\n" in x["d"]:
            # a group title is split at its first line break (Doc::em_doc: the first line is the section header, the rest
            # its body, whatever the break looks like); paragraphs are those of the body
            a, b = x["d"].split("\n", 1)
            x["d"] = a + "\n" + first_paragraph(b)
    return o


class C13(Property):
    pid = "C13"
    quick_n = 220
    thorough_n = 1500
    partial = ["the width clause is proved on renderer states (the column counter dominates the current line; a word placed "
               "beyond width+2 is the first after the indentation/term or shares its line with code), not as a statement about "
               "the lines of the final text: that is decided by the oracle and the differential run"]

    def gen_def(self, rng):
        names = gen.Names(rng)
        fields = []
        for _ in range(rng.choice([1, 2, 3, 5])):
            n = names.named(help_p=0.0)
            n["help"] = gen_text(rng)
            if rng.random() < 0.3:
                # a styled Doc as help: fragments of alternating style cut out of a multi-paragraph text
                n["help"] = styled(rng, n["help"])
            k = rng.random()
            if k < 0.4:
                fields.append(gen.flag(n))
            else:
                a = gen.arg(n, rng.choice(["N", "FILE", "A_VERY_LONG_METAVAR_NAME_INDEED"]), "string")
                fields.append(a if rng.random() < 0.6 else gen.wrap("optional", a))
        if rng.random() < 0.3:
            g = gen.con(gen.flag(names.named(help_p=1.0)), gen.flag(names.named(help_p=1.0)))
            fields.append(gen.wrap("group-help", g, d=gen_text(rng, 1)))
        if rng.random() < 0.5:
            fields.append(gen.pos("POS", "string", help=gen_text(rng)))
        if rng.random() < 0.3:
            sub = gen.options(gen.flag(names.named(help_p=1.0)), descr=gen_text(rng))
            fields.append(gen.cmd(names.cmdname(), sub, help=gen_text(rng, rng.choice([1, 2]))))
        p = gen.con(*fields) if len(fields) > 1 else fields[0]
        return gen.options(p, descr=gen_text(rng) if rng.random() < 0.7 else None,
                           header=gen_text(rng) if rng.random() < 0.4 else None,
                           footer=gen_text(rng) if rng.random() < 0.4 else None,
                           version="1.0" if rng.random() < 0.3 else None)

    def widths(self, rng, tier):
        if tier == "thorough":
            return list(range(1, 301))
        ws = {1, 2, 7, 39, 40, 41, 60, 79, 80, 100, 300}
        while len(ws) < 22:
            ws.add(rng.randrange(1, 301))
        return sorted(ws)

    @staticmethod
    def explicit_docs(rng, count):
        """Explicit token lists for the console renderer: blocks nested 1..45 deep (margins far beyond the 50 columns of the
        padding constant: the renderer used to panic there, `fixed: property=C04`), and random (un)balanced lists."""
        from .C16 import gen_tokens
        from ..prop import RawCase
        out = []
        for j in range(count):
            if j % 2 == 0:
                depth = rng.choice([1, 3, 8, 12, 17, 18, 19, 25, 26, 30, 45])
                opens, closes = [], []
                for lv in range(depth):
                    b = rng.choice(["section3", "section3", "itemterm", "itembody", "block", "inlineblock"])
                    opens.append("(s %s) (t %s %s)" % (b, rng.choice(["text", "emphasis", "literal"]),
                                                      gen.hx("lv%d %s" % (lv, rng.choice(["word", "two words", "a\nb", "x\n\ny"])))))
                    closes.append("(e %s)" % b)
                toks = opens + ["(t text %s)" % gen.hx(gen_text(rng, 1))] + closes[::-1]
            else:
                toks = gen_tokens(rng, rng.random() < 0.7)
            rc = RawCase("(rdoc x%d (doc %s) (full %d) (th %s))" % (j, " ".join(toks), rng.random() < 0.7, gen.hx("app")))
            rc.tags = {"role": "rdoc"}
            out.append(rc)
        return out

    def generate(self, rng, tier, n):
        cases = self.explicit_docs(rng, 40 if tier == "quick" else 400)
        for k in range(n):
            opts = self.gen_def(rng)
            ws = self.widths(rng, tier)
            mode = "render " + " ".join(str(w) for w in ws) + " 60000"
            what = rng.random()
            if what < 0.55:
                argv = [rng.choice([b"--help", b"-h"])]
            elif what < 0.7:
                argv = [b"--help", b"--help"]
            else:
                argv = gen.mutate(rng, gen.gen_argv(rng, opts), opts)      # an error document
            cases.append(Case("d%d" % k, opts, argv, mode=mode, tags={"widths": ws, "role": "doc"}))
            if what < 0.55:
                # the short form against the full form of the same definition holding only first paragraphs
                cases.append(Case("d%dt" % k, truncated(opts), [b"--help", b"--help"], mode="render 100 60000",
                                  tags={"widths": [100], "role": "trunc", "of": "d%d" % k}))
                if embedded_break(opts):
                    cases.append(Case("d%dk" % k, truncated(opts, True), [b"--help", b"--help"], mode="render 100 60000",
                                      tags={"widths": [100], "role": "trunc-known", "of": "d%d" % k}))
        return cases

    def execute(self, cases):
        impl = infra.run_driver([c.line() for c in cases], per=16)
        lines = [c.line() for c in cases if c.tags.get("role") == "rdoc"]
        for c in cases:
            ic = impl.get(c.id)
            if ic and ic[0] == "RENDER" and ic[3].startswith("(doc"):
                ws = " ".join(str(w) for w in c.tags["widths"] + [60000])
                lines.append("(render %s %s (widths %s) (full 1))" % (c.id, ic[3], ws))
                lines.append("(render %sm %s (widths 100) (full %s))" % (c.id, ic[3], ic[2]))
        model = infra.run_model(lines, per=16) if lines else {}
        return model, impl

    @staticmethod
    def strip_ws(b):
        return "".join(ch for ch in b.decode("utf-8") if not ch.isspace() and ch not in "\x85      　"
                       and not (" " <= ch <= " "))

    def judge(self, cases, model, impl):
        out, nontrivial, dist = [], [], {"docs": 0, "renderings": 0, "not_a_doc": 0}
        for c in cases:
            ic = impl.get(c.id)
            if c.tags.get("role") == "rdoc":
                dist["explicit_docs"] = dist.get("explicit_docs", 0) + 1
                mc = model.get(c.id)
                if not ic or ic[0] != "RDOC" or len(ic) < 4:
                    out.append(Finding("violation", c, "the renderers did not return on an explicit document: %s" % common.show(ic)))
                    continue
                nontrivial.append(c.line())
                if ic[3] == "PANIC":
                    out.append(Finding("violation", c, "console rendering of an explicit document panicked"))
                if mc is None or mc[0] != "RDOC" or len(mc) < 4 or (mc[3] != "NOTUTF8" and mc[3] != ic[3]):
                    out.append(Finding("disagree", c, "console text of an explicit document differs: model %r vs implementation %r"
                                       % ((mc[3][:80] if mc and len(mc) > 3 else mc), ic[3][:80])))
                    if mc is not None and len(mc) >= 4 and mc[3] not in ("NOTUTF8", "PANIC") and ic[3] != "PANIC":
                        v = self.needlessly_wide(gen.unhx(mc[3]), gen.unhx(ic[3]), 100)
                        if v:
                            out.append(Finding("violation", c, v))
                continue
            if not ic or ic[0] != "RENDER":
                dist["not_a_doc"] += 1
                if ic and ic[0] in ("PANIC", "HANG", "EXIT"):
                    out.append(Finding("violation", c, "rendering did not return normally: %s" % common.show(ic)))
                continue
            dist["docs"] += 1
            full = ic[2] == "1"
            mono = gen.unhx(ic[4])
            by_w = {}
            for part in ic[5].split(";"):
                w, h = part.split(":")
                by_w[int(w)] = gen.unhx(h)
            mc = model.get(c.id)
            mm = model.get(c.id + "m")
            if mc is None or mc[0] != "RENDER":
                out.append(Finding("disagree", c, "model could not render the document: %s" % (mc,)))
            else:
                for part in mc[1].split(";"):
                    w, h = part.split(":")
                    dist["renderings"] += 1
                    got = by_w.get(int(w))
                    want = None if h == "PANIC" else gen.unhx(h)
                    if want != got:
                        out.append(Finding("disagree", c, "console text at width %s differs: model %r vs implementation %r"
                                           % (w, (want or b"PANIC")[:120], (got or b"")[:120])))
                        if want is not None and got is not None and 40 <= int(w) < 60000:
                            v = self.needlessly_wide(want, got, int(w))
                            if v:
                                out.append(Finding("violation", c, v))
                        break
                if mm and mm[0] == "RENDER":
                    h = mm[1].split(":")[1]
                    if h == "PANIC" or gen.unhx(h) != mono:
                        out.append(Finding("disagree", c, "monochrome(full=%s) differs: model %r vs implementation %r"
                                           % (full, h[:60], mono[:120])))
            # ---- the property on the implementation's text alone
            ref = by_w.get(60000)
            if ref is None:
                continue
            nontrivial.append(c.line())
            ref_s = self.strip_ws(ref)
            for w in c.tags["widths"]:
                t = by_w[w]
                if self.strip_ws(t) != ref_s:
                    out.append(Finding("violation", c, "width %d: text content differs from the unwrapped rendering (characters "
                                                       "dropped, duplicated or reordered): %r" % (w, self.diff(ref_s, self.strip_ws(t)))))
                    break
                if w >= 40:
                    bad = self.too_long(t.decode("utf-8"), w)
                    if bad is not None:
                        out.append(Finding("violation", c, "width %d: line of %d characters that is neither a code line nor a single "
                                                           "unbreakable word after its indentation/term: %r" % (w, len(bad), bad[:160])))
                        break
            # short form: exactly the first paragraph of each help text -- the text content of the full form of the same
            # definition with every text cut at its first paragraph break
            if c.tags["role"] == "trunc":
                oc = impl.get(c.tags["of"])
                if oc and oc[0] == "RENDER" and oc[2] == "0":
                    dist["short_forms"] = dist.get("short_forms", 0) + 1
                    short = self.strip_ws(gen.unhx(oc[4]))
                    if short != ref_s:
                        orig = next(x for x in cases if x.id == c.tags["of"])
                        kc = impl.get(c.tags["of"] + "k")
                        explained = bool(kc and kc[0] == "RENDER" and ("60000:" + kc[5].split("60000:")[1].split(";")[0]) and
                                         self.strip_ws(gen.unhx(kc[5].split("60000:")[1].split(";")[0])) == short)
                        orig.tags["embedded_break_explains"] = explained
                        out.append(Finding("violation", orig, "the short form of help is not exactly the first paragraph of each help text: "
                                                              "it differs from the full form of the same definition with only first "
                                                              "paragraphs: %r" % (self.diff(ref_s, short),), related=[c]))
        stats = {"nontrivial_ids": nontrivial, "distribution": dist,
                 "rule": "definitions whose help/description/header/footer strings are multi-paragraph texts with hard breaks, indented "
                         "and fenced code, 120-character words, non-ASCII, tabs, NBSP x {help, detailed help, error documents}; "
                         "each document rendered at a width set (quick: 22 widths incl. 1,2,39,40,41,100,300; thorough: 1..300) + "
                         "unwrapped; the model renders the same token list; non-trivial = document obtained and rendered"}
        return out, stats

    def known_class(self, cls, f):
        if cls != "para_break_inside_embedded_doc" or f.kind != "violation" or "short form" not in f.detail:
            return False
        # some help text holds an embedded document with a paragraph break inside it, followed by more of the text, AND the
        # short form is exactly what "the break hides only the rest of the embedded document" gives (rendered by the
        # implementation from the accordingly cut definition): any other difference is still reported
        return embedded_break(f.case.opts) and bool(f.case.tags.get("embedded_break_explains"))

    @staticmethod
    def diff(a, b):
        i = 0
        while i < min(len(a), len(b)) and a[i] == b[i]:
            i += 1
        return (a[max(0, i - 15):i + 15], b[max(0, i - 15):i + 15])

    @staticmethod
    def needlessly_wide(reference, text, w):
        """The implementation's text holds a line beyond the requested width that no unbreakable word or margin forces: the
        reference rendering of the same document at the same width (the transcribed renderer, for which the width theorems
        are proved) keeps every line shorter."""
        try:
            ref_l = max(len(l) for l in reference.decode("utf-8").split("\n"))
            worst = max(text.decode("utf-8").split("\n"), key=len)
        except UnicodeDecodeError:
            return None
        if len(worst) > w + 2 and len(worst) > ref_l:
            return ("width %d: a line of %d columns although the same document fits in lines of at most %d columns (reference "
                    "rendering): %r" % (w, len(worst), ref_l, worst[:200]))
        return None

    @staticmethod
    def too_long(text, w):
        for line in text.split("\n"):
            if len(line) <= w + 2:
                continue
            # what follows the indentation (and, for an item line, the term) must be one unbreakable word
            body = line.lstrip(" ")
            if " " not in body.strip():
                continue
            # preformatted code lines (the generator's code blocks) are exempt
            if any(body.startswith(p) or p in body for p in ("code line one", "second code line", "fenced ", "```")) or body.strip() == "more":
                continue
            # item line: "    -v, --verbose  <body>": the body after the 2-space gutter
            m = re.match(r"^(\s*\S.*?)\s{2,}(\S+)$", line)
            if m:
                continue
            # a code line (indented block or fenced code) is exempt: we cannot tell from the text alone, so accept lines
            # that also appear verbatim in the unwrapped rendering
            return line
        return None

PROP = C13()
