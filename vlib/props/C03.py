"""C03 -- Order of named options is irrelevant."""
from .. import gen, compare, common
from ..prop import Property, Case, Finding


class C03(Property):
    pid = "C03"
    quick_n = 3000
    thorough_n = 120000
    partial = ["C03_general (invariance of the whole run under permutation) is decided by the metamorphic oracle and the "
               "differential run; the theorems cover tokenisation and the position-independence of the named consumers"]

    def generate(self, rng, tier, n):
        cases = []
        k = 0
        while len(cases) < n:
            # no `any`, no adjacent groups (the property's quantifier)
            opts, names = gen.gen_options(rng, features=("alt", "cmd", "pos"), allow_catch=False)
            for _ in range(2):
                gid = "g%d" % k
                k += 1
                pieces = gen.gen_pieces(rng, opts, present_p=0.8)
                # a short name declared under hide() is unknown to the tokenizer (known finding C02-hidden-short): do not
                # write such an argument as `-Jvalue`, which bpaf reads as a plain word, not as a named occurrence
                pieces = common.avoid_hidden_short_adj(opts, pieces)
                base = gen.flatten(pieces)
                cases.append(Case(gid + "b", opts, base, tags={"role": "base", "group": gid}))
                seen = {tuple(base)}
                for j in range(5):
                    perm = common.constrained_shuffle(rng, pieces)
                    if rng.random() < 0.4:
                        # an option of an enclosing level written right of the command name may stand anywhere there
                        perm = common.move_outer(rng, perm) or perm
                    argv = gen.flatten(perm)
                    if tuple(argv) in seen:
                        continue
                    seen.add(tuple(argv))
                    cases.append(Case("%sp%d" % (gid, j), opts, argv, tags={"role": "perm", "group": gid}))
        return cases

    def judge(self, cases, model, impl):
        out, nontrivial, dist, base = [], [], {"perm": 0, "base_ok": 0, "base_fail": 0}, {}
        for c in cases:
            r = compare.agree_class_value(model.get(c.id), impl.get(c.id))
            if r:
                out.append(Finding("disagree", c, r))
            if c.tags["role"] == "base":
                base[c.tags["group"]] = c
                dist["base_ok" if compare.impl_class(impl.get(c.id)) == "OK" else "base_fail"] += 1
        for c in cases:
            if c.tags["role"] != "perm":
                continue
            dist["perm"] += 1
            b = base[c.tags["group"]]
            if compare.impl_class(impl.get(b.id)) == "OK":
                nontrivial.append(c.line())
            if not common.same_outcome(impl.get(b.id), impl.get(c.id)):
                out.append(Finding("violation", c, "permuting whole named occurrences (same-field order and positional order kept) "
                                                   "changed the outcome: %s  vs  %s" % (common.show(impl.get(b.id)),
                                                                                        common.show(impl.get(c.id))), related=[b]))
        stats = {"nontrivial_ids": nontrivial, "distribution": dist,
                 "rule": "definitions without any/adjacent x sentences generated from the definition x up to 5 random permutations "
                         "of the named occurrences of each command level among themselves and around positionals (occurrences "
                         "feeding one field keep their order, positionals keep theirs, nothing crosses `--` or a command name); "
                         "non-trivial = permutation of a line the implementation accepted"}
        return out, stats


PROP = C03()
