"""C11 -- Outcome classes map to streams and exit status."""
import os
import subprocess
from concurrent.futures import ThreadPoolExecutor
from .. import gen, compare, common, infra
from ..prop import Property, Case, Finding

ARGV0 = [b"/usr/local/bin/app", b"app", b"./rel/dir/app", b"my.tool", b"python3.11", b"a b", b"dir/sub/", b"\xff\xfeapp",
         b"/opt/\xc3\xa9t\xc3\xa9/pr\xc3\xb6g", b"", b".", b"x/..", "/usr/bin/名前".encode()]


def expected_name(argv0):
    """Documented rule: the program name is the file name of argv[0], when it is valid UTF-8."""
    comps = [c for c in argv0.split(b"/") if c not in (b"", b".")]
    if not comps or comps[-1] == b"..":
        return None
    try:
        comps[-1].decode("utf-8")
    except UnicodeDecodeError:
        return None
    return comps[-1]


class C11(Property):
    pid = "C11"
    exact_text = True
    quick_n = 300
    thorough_n = 20000
    partial = ["the theorem is about the model's Process.run; that a real child process behaves as run_inner predicts is "
               "established by the tie (spawned children), not by proof: write(2), buffering and process::exit live in the OS"]

    def generate(self, rng, tier, n):
        cases = []
        # one definition + line per arm of Message::render (the child must print the same text; no empty user texts here:
        # `some("")` is the user's own empty message)
        for r in range(1 if tier == "quick" else 30):
            for i, (tag, opts, argv, unset) in enumerate(gen.message_cases(rng)):
                if tag == "some" or unset:
                    continue
                argv0 = rng.choice(ARGV0)
                name = expected_name(argv0)
                cases.append(Case("m%d_%d" % (r, i), opts, argv, name=name, tags={"argv0": argv0, "name": name, "msg": tag}))
        k = 0
        while len(cases) < n:
            opts, names = gen.gen_options(rng, features=("alt", "cmd", "pos", "adj", "grp"), allow_catch=False, env_p=0.0)
            # fallback_to_usage turns failures on an EMPTY line into the usage screen (stdout, status 0); make it common
            # enough that failures on non-empty lines under it are exercised on every run
            if rng.random() < 0.3:
                for o in [opts] + [x["options"] for x in gen.walk(opts["p"]) if x["k"] == "cmd"]:
                    if rng.random() < 0.7:
                        o["fallback_to_usage"] = True
            # help texts of several paragraphs: `--help` once prints the short form, twice the full one -- in the child too
            paras = rng.random() < 0.3
            if paras:
                for x in gen.walk(opts["p"]):
                    if x["k"] in ("flag", "arg") and rng.random() < 0.6:
                        x["n"]["help"] = "First paragraph of %s.\n\nSecond paragraph, shown only in the detailed form." % x["k"]
            for j in range(3):
                argv = gen.gen_argv(rng, opts)
                m = rng.random()
                if paras and j == 0:
                    argv.insert(rng.randrange(len(argv) + 1), rng.choice([b"--help", b"-h"]))
                    m = 1.0
                if m < 0.3:
                    argv = gen.mutate(rng, argv, opts)
                elif m < 0.55:
                    argv.insert(rng.randrange(len(argv) + 1), rng.choice([b"--help", b"-h", b"--version", b"-V"]))
                elif m < 0.65:
                    argv.append(rng.choice([b"\xff\xfe", b"--\xff=1", b"caf\xc3\xa9", b""]))
                argv0 = rng.choice(ARGV0)
                name = expected_name(argv0)
                cases.append(Case("g%dp%d" % (k, j), opts, argv, name=name, tags={"argv0": argv0, "name": name}))
            if rng.random() < 0.15:
                # a completion request (what the shell glue sends): the candidates go to stdout, status 0 -- in the child too.
                # WHICH candidates is C14/C15's business (run_inner of the model has no completion mode): implementation in
                # process vs implementation as a process only
                words = gen.gen_argv(rng, opts)[:rng.choice([0, 1, 2])]
                last = rng.choice([b"", b"-", b"--", b"x"])
                argv = [b"--bpaf-complete-rev=%d" % rng.choice([1, 7, 8, 9])] + words + [last]
                argv0 = rng.choice([a for a in ARGV0 if expected_name(a) is not None])
                name = expected_name(argv0)
                cases.append(Case("g%dc" % k, opts, argv, name=name, tags={"argv0": argv0, "name": name, "comp": True}))
            k += 1
        return cases

    def execute(self, cases):
        lines = [c.line() for c in cases]
        model = infra.run_model(lines + ["(progname n%d %s)" % (i, gen.hx(a)) for i, a in enumerate(ARGV0)])
        impl = infra.run_driver(lines)
        drv = infra.driver_path()
        work = os.path.join(infra.CACHE, "work")
        os.makedirs(work, exist_ok=True)
        env = {k: v for k, v in os.environ.items() if not (k.startswith("BPAF_") or k.startswith("VT_"))}

        def spawn(c):
            path = os.path.join(work, "child_%d_%s.case" % (os.getpid(), c.id))
            with open(path, "w") as f:
                f.write(c.line())
            e = dict(env, VERIF_CHILD_CASE_FILE=path)
            try:
                p = subprocess.run([c.tags["argv0"]] + list(c.argv), executable=drv, env=e, stdout=subprocess.PIPE,
                                   stderr=subprocess.PIPE, timeout=20)
                r = (p.returncode, p.stdout, p.stderr)
            except subprocess.TimeoutExpired:
                r = ("HANG", b"", b"")
            except (OSError, ValueError) as ex:
                r = ("SPAWN", str(ex).encode(), b"")
            os.unlink(path)
            return c.id, r
        with ThreadPoolExecutor(infra.NPROC) as ex:
            self.children = dict(ex.map(spawn, cases))
        return model, impl

    def judge(self, cases, model, impl):
        out, nontrivial, dist = [], [], {}
        for i, a in enumerate(ARGV0):
            m = model.get("n%d" % i)
            want = expected_name(a)
            got = None if (m is None or m[1] == "-") else gen.unhx(m[1])
            if m is None or got != want:
                out.append(Finding("disagree", cases[0], "program name of argv[0]=%r: model %r vs documented rule %r" % (a, got, want)))
        for c in cases:
            r = None if c.tags.get("comp") else compare.agree_class_value(model.get(c.id), impl.get(c.id))
            if r:
                out.append(Finding("disagree", c, r))
            ic = impl.get(c.id)
            rc, so, se = self.children.get(c.id, ("MISSING", b"", b""))
            if rc == "SPAWN":
                dist["spawn_failed"] = dist.get("spawn_failed", 0) + 1
                continue
            cls = compare.impl_class(ic)
            dist[cls] = dist.get(cls, 0) + 1
            nontrivial.append(c.line())
            if ic[0] == "OK":
                want = (0, b"BODY-REACHED " + ic[1].encode() + b"\n", b"")
            elif ic[0] == "STDOUT":
                want = (0, gen.unhx(ic[1]) + b"\n", b"")
            elif ic[0] == "STDERR":
                want = (1, b"", b"Error: " + gen.unhx(ic[1]) + b"\n")
            elif ic[0] == "COMP":
                want = (0, gen.unhx(ic[1]), b"")
            else:
                out.append(Finding("violation", c, "run_inner did not return normally: %s" % common.show(ic)))
                continue
            got = (rc, so, se)
            if got != want:
                what = []
                if rc != want[0]:
                    what.append("exit status %s instead of %s" % (rc, want[0]))
                if so != want[1]:
                    what.append("stdout %r instead of %r" % (so[:150], want[1][:150]))
                if se != want[2]:
                    what.append("stderr %r instead of %r" % (se[:150], want[2][:150]))
                out.append(Finding("violation", c, "the process (argv[0]=%r) does not behave as run_inner predicts for the name %r: %s"
                                   % (c.tags["argv0"], c.tags["name"], "; ".join(what))))
            elif ic[0] == "STDERR" and not gen.unhx(ic[1]).strip():
                out.append(Finding("violation", c, "a failure with an empty message"))
            elif ic[0] == "STDOUT" and not self.request_possible(c):
                out.append(Finding("violation", c, "a help/version screen on stdout with status 0 although the line holds no help or version "
                                                   "request and no level with fallback_to_usage was given an empty line: a parse failure must "
                                                   "go to stderr with status 1 (line %r)" % (c.argv,)))
        stats = {"nontrivial_ids": nontrivial, "distribution": dist,
                 "rule": "random definitions x vectors (sentences, mutations, help/version requests, non-UTF-8 items) x argv[0] "
                         "variants (paths, dots, spaces, non-ASCII, non-UTF-8, empty, `.`, `x/..`); each case is run in-process "
                         "(run_inner with the documented program name) and as a real child process that calls OptionParser::run(); "
                         "(status, stdout, stderr, body-reached sentinel) must be exactly what the in-process outcome predicts"}
        return out, stats


    @staticmethod
    def request_possible(c):
        """Could this line legitimately produce a help/version screen?  (liberal: any spelling of a declared help/version
        name anywhere, an empty top-level line under fallback_to_usage, or the name of a command at or below which a level
        has fallback_to_usage)"""
        levels = []

        def walk(o, path_cmds):
            levels.append((o, path_cmds))
            for x in gen.walk(o["p"]):
                if x["k"] == "cmd":
                    walk(x["options"], path_cmds + [x])
        walk(c.opts, [])
        shorts, longs = set(), set()
        for o, _ in levels:
            hn = o["help_names"] or {"short": ["h"], "long": ["help"]}
            vn = o["version_names"] or {"short": ["V"], "long": ["version"]}
            shorts.update(hn["short"])
            longs.update(hn["long"])
            if o["version"] is not None:
                shorts.update(vn["short"])
                longs.update(vn["long"])
        for a in c.argv:
            t = a.decode("utf-8", "replace")
            if t.startswith("--"):
                if t[2:].split("=")[0] in longs:
                    return True
            elif t.startswith("-") and any(ch in shorts for ch in t[1:]):
                return True
        rest = [a for a in c.argv if a != b"--"]
        if c.opts["fallback_to_usage"] and not rest:
            return True
        for o, cmds in levels:
            if o["fallback_to_usage"]:
                for x in cmds:
                    names = [x["name"]] + list(x["aliases"]) + list(x["shorts"])
                    if any(a.decode("utf-8", "replace") in names for a in c.argv):
                        return True
        return False


PROP = C11()
