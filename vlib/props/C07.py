"""C07 -- Alternatives are exclusive and chosen by what the user typed."""
from .. import gen, compare, common
from ..prop import Property, Case, Finding


class C07(Property):
    pid = "C07"
    quick_n = 3000
    thorough_n = 120000
    partial = ["that collected values follow command-line order is a theorem for a repeated choice between two required flags "
               "(C07_repeated_choice_in_line_order); for argument and group alternatives it is decided by the oracle and the "
               "differential run"]

    def gen_def(self, rng):
        """A choice over 2..4 leaf alternatives (req_flag with distinct values / argument), wrapped bare/optional/many/some,
        among 0-2 other named items and an optional positional tail."""
        names = gen.Names(rng)
        nalt = rng.choice([2, 2, 3, 4])
        alts = []
        for i in range(nalt):
            if rng.random() < 0.55:
                alts.append(gen.req_flag(names.named(help_p=0.1), gen.vnum(100 + i)))
            else:
                a = gen.arg(names.named(help_p=0.1), "V", "string")
                alts.append(a)
        choice = gen.alt(*alts)
        wrap = rng.choice(["bare", "optional", "many", "some", "many"])
        if wrap == "optional":
            node = gen.wrap("optional", choice)
        elif wrap == "many":
            node = gen.wrap("many", choice)
        elif wrap == "some":
            node = gen.wrap("some", choice, msg="need one")
        else:
            node = choice
        fields = []
        for _ in range(rng.choice([0, 1, 2])):
            fields.append(gen.gen_named_item(rng, names))
        fields.insert(rng.randrange(len(fields) + 1), node)
        if rng.random() < 0.3:
            fields.append(gen.wrap("many", gen.pos("REST", "string")))
        p = gen.con(*fields) if len(fields) > 1 else gen.con(fields[0], gen.pure(gen.vnum(0)))
        return gen.options(p, descr="Lc7"), alts, wrap, node, fields

    def gen_def_nullable(self, rng):
        """A bare choice whose alternatives ALL succeed on nothing (flags with a default, optional / defaulted arguments),
        each with its own distinguishable null value: on a line with none of their items the first listed one wins."""
        names = gen.Names(rng)
        alts, nulls, leaves = [], [], []
        for i in range(rng.choice([2, 2, 3])):
            r = rng.random()
            if r < 0.5:
                a = gen.flag(names.named(help_p=0.1), gen.vnum(100 + i), gen.vnum(200 + i))
                alts.append(a); nulls.append(gen.vnum(200 + i)); leaves.append(a)
            elif r < 0.75:
                a = gen.arg(names.named(help_p=0.1), "V", "string")
                alts.append(gen.wrap("fallback", a, v=gen.vnum(300 + i), show=False)); nulls.append(gen.vnum(300 + i)); leaves.append(a)
            else:
                a = gen.arg(names.named(help_p=0.1), "V", "string")
                alts.append(gen.wrap("optional", a, catch=False)); nulls.append("none"); leaves.append(a)
        # two `optional` alternatives would both yield `none`: keep the null values pairwise different
        if len(set(nulls)) < len(nulls):
            return self.gen_def_nullable(rng)
        node = gen.alt(*alts)
        fields = [node]
        for _ in range(rng.choice([1, 2])):
            fields.append(gen.gen_named_item(rng, names))
        rng.shuffle(fields)
        return gen.options(gen.con(*fields), descr="Lc7n"), alts, nulls, leaves, node, fields

    def gen_group_cases(self, rng, k):
        """A choice where some alternatives are GROUPS of two required items: a line holding a proper part of a group next to
        a complete other alternative mixes two alternatives just as well (the group's present members must not be dropped)."""
        names = gen.Names(rng)
        def leaf(i):
            if rng.random() < 0.5:
                return gen.req_flag(names.named(help_p=0.0), gen.vnum(100 + i))
            return gen.arg(names.named(help_p=0.0), "V", "string")
        nalt = rng.choice([2, 3, 3])
        alts, members = [], []
        gi = rng.randrange(nalt)
        for i in range(nalt):
            if i == gi or rng.random() < 0.3:
                ms = [leaf(10 * i), leaf(10 * i + 1)]
                alts.append(gen.con(*ms)); members.append(ms)
            elif i == nalt - 1 and rng.random() < 0.3:
                f = gen.flag(names.named(help_p=0.0), gen.vnum(100 + 10 * i), gen.vnum(200 + 10 * i))
                alts.append(f); members.append([f])
            else:
                l = leaf(10 * i)
                alts.append(l); members.append([l])
        choice = gen.alt(*alts)
        wrap = rng.choice(["bare", "optional", "many"])
        node = choice if wrap == "bare" else gen.wrap(wrap, choice)
        sw = gen.flag(names.named(help_p=0.0))
        fields = [node, sw]
        rng.shuffle(fields)
        opts = gen.options(gen.con(*fields), descr="Lc7g")
        out = []
        for j in range(4):
            kind = rng.choice(["full", "part+other", "full+other", "part"])
            groups = [i for i in range(nalt) if len(members[i]) == 2]
            g = rng.choice(groups)
            chunks = []
            def occ_of(m, t):
                if m["k"] == "flag":
                    return [gen.spell_flag(rng, m)]
                return gen.spell_arg(rng, m, b"v%d" % t)[1]
            if kind == "full":
                a = rng.randrange(nalt)
                chunks = [occ_of(m, t) for t, m in enumerate(members[a])]
            else:
                part = [rng.choice(members[g])] if kind.startswith("part") else members[g]
                chunks = [occ_of(m, t) for t, m in enumerate(part)]
                if kind.endswith("other"):
                    o = rng.choice([i for i in range(nalt) if i != g])
                    chunks += [occ_of(m, 5 + t) for t, m in enumerate(members[o])]
            if rng.random() < 0.4:
                chunks.append([gen.spell_flag(rng, sw)])
            rng.shuffle(chunks)
            argv = [x for c in chunks for x in c]
            out.append(Case("g%dq%d" % (k, j), opts, argv, tags={"wrap": "group", "gwrap": wrap, "kind": kind, "picks": [g],
                                                                 "expect": [], "field": 0, "nfields": 2, "distinct": 1}))
        return out

    @staticmethod
    def occ(rng, alt, i):
        """(items, expected value sexp) of one occurrence of alternative alt"""
        if alt["k"] == "flag":
            return [gen.spell_flag(rng, alt)], alt["present"]
        v = b"v%d" % i
        form, items = gen.spell_arg(rng, alt, v)
        return items, gen.vbytes(v)

    def generate(self, rng, tier, n):
        cases = []
        k = 0
        while len(cases) < n:
            if rng.random() < 0.15:
                opts, nalts, nulls, leaves, node, fields = self.gen_def_nullable(rng)
                others = [f for f in fields if f is not node]
                for j in range(3):
                    s = gen.Sentence()
                    for f in others:
                        gen.gen_sentence(rng, f, s, 0.6)
                    argv = [i for c in s.named for i in c]
                    pick = None if j == 0 else rng.randrange(len(nalts))
                    want = nulls[0]
                    if pick is not None:
                        items, val = self.occ(rng, leaves[pick], j)
                        argv = argv[:rng.randrange(len(argv) + 1)]
                        rest = [i for c in s.named for i in c][len(argv):]
                        argv = argv + items + rest
                        want = val if nalts[pick]["k"] != "optional" else "(some %s)" % val
                    cases.append(Case("g%dn%d" % (k, j), opts, argv,
                                      tags={"wrap": "nullable", "picks": [] if pick is None else [pick], "expect": [want],
                                            "field": fields.index(node), "nfields": len(fields), "distinct": 0 if pick is None else 1}))
                k += 1
                continue
            if rng.random() < 0.12:
                cases.extend(self.gen_group_cases(rng, k))
                k += 1
                continue
            opts, alts, wrap, node, fields = self.gen_def(rng)
            others = [f for f in fields if f is not node]
            for _ in range(4):
                gid = "g%d" % k
                k += 1
                # the other fields' pieces
                s = gen.Sentence()
                for f in others:
                    gen.gen_sentence(rng, f, s, 0.6)
                other_chunks = [list(c) for c in s.named]
                tail = [w for w, _ in s.pos]
                kind = rng.choice(["one", "mixed", "multi", "none"])
                if kind == "one":
                    picks = [rng.randrange(len(alts))]
                elif kind == "mixed":
                    a, b = rng.sample(range(len(alts)), 2)
                    picks = [a, b]
                elif kind == "multi":
                    picks = [rng.randrange(len(alts)) for _ in range(rng.choice([2, 3, 4]))]
                else:
                    picks = []
                occs = [self.occ(rng, alts[a], i) for i, a in enumerate(picks)]
                # interleave: other chunks anywhere, choice occurrences in the order of `occs`
                seq = [("o", c) for c in other_chunks]
                rng.shuffle(seq)
                for it, _ in occs:
                    pass
                slots = sorted(rng.randrange(len(seq) + 1) for _ in occs)
                argv = []
                oi = 0
                for i, x in enumerate(seq + [None]):
                    while oi < len(occs) and slots[oi] == i:
                        argv.extend(occs[oi][0])
                        oi += 1
                    if x is not None:
                        argv.extend(x[1])
                argv.extend(tail)
                cases.append(Case(gid, opts, argv, tags={"wrap": wrap, "picks": picks, "expect": [e for _, e in occs],
                                                         "field": fields.index(node), "nfields": len(fields) if len(fields) > 1 else 2,
                                                         "distinct": len(set(picks))}))
        return cases

    @staticmethod
    def field_value(val, ix, n):
        """crude s-expression field extraction: the ix-th element of the top-level (tuple ...)"""
        from ..sexp_util import parse, show
        t = parse(val)
        if not (isinstance(t, list) and t and t[0] == "tuple" and len(t) == n + 1):
            return None
        return show(t[1 + ix])

    def judge(self, cases, model, impl):
        out, nontrivial, dist = [], [], {}
        for c in cases:
            r = compare.agree_class_value(model.get(c.id), impl.get(c.id))
            if r:
                out.append(Finding("disagree", c, r))
            ic = impl.get(c.id)
            cls = compare.impl_class(ic)
            t = c.tags
            wrap, picks, expect = t["wrap"], t["picks"], t["expect"]
            if wrap == "group":
                key = "group:%s:%s" % (t["gwrap"], t["kind"])
                dist[key] = dist.get(key, 0) + 1
                nontrivial.append(c.line())
                kind, gw = t["kind"], t["gwrap"]
                if kind == "full" and cls != "OK":
                    out.append(Finding("violation", c, "the line holds the items of exactly one alternative (a complete one) but the "
                                                       "run fails: " + common.show(ic)))
                if kind in ("part", "part+other") and cls == "OK":
                    out.append(Finding("violation", c, "the line holds only a part of a group alternative%s, yet the run yields a "
                                                       "value -- the present member was silently ignored: %s"
                                       % (" next to a complete other alternative" if kind == "part+other" else "", ic[1])))
                if kind == "full+other" and gw != "many" and cls == "OK":
                    out.append(Finding("violation", c, "items of two different alternatives on one line, yet the run yields a value "
                                                       "(one of them was silently ignored): " + ic[1]))
                if kind == "full+other" and gw == "many" and cls != "OK":
                    out.append(Finding("violation", c, "a repeated choice must collect both complete alternatives: " + common.show(ic)))
                continue
            key = "%s:%s" % (wrap, "none" if not picks else ("one" if t["distinct"] == 1 and len(picks) == 1 else
                                                               "same" if t["distinct"] == 1 else "mixed"))
            dist[key] = dist.get(key, 0) + 1
            if picks:
                nontrivial.append(c.line())
            fv = self.field_value(ic[1], t["field"], t["nfields"]) if cls == "OK" else None
            if wrap == "nullable":
                nontrivial.append(c.line())
                if cls == "OK" and fv != expect[0]:
                    what = ("no item of any alternative is on the line: ties go to the alternative listed first" if not picks
                            else "only one alternative has an item on the line: it wins")
                    out.append(Finding("violation", c, "a choice between alternatives that all succeed on nothing returned %s instead of "
                                                       "%s (%s)" % (fv, expect[0], what)))
                continue
            if wrap in ("bare", "optional"):
                if t["distinct"] >= 2 and cls == "OK":
                    out.append(Finding("violation", c, "items of two different alternatives on one line, yet the run yields a value "
                                                       "(one of them was silently ignored): " + ic[1]))
                if len(picks) == 1 and cls == "OK":
                    want = expect[0] if wrap == "bare" else "(some %s)" % expect[0]
                    if fv != want:
                        out.append(Finding("violation", c, "the line contains items of exactly one alternative but the choice "
                                                           "returned %s instead of %s" % (fv, want)))
                if len(picks) == 1 and cls != "OK" and cls == "STDERR":
                    # may be a failure caused by the other fields; the differential run decides
                    pass
            else:
                if cls == "OK" and picks:
                    want = "(list %s)" % " ".join(expect)
                    if fv != want:
                        out.append(Finding("violation", c, "repeated choice: collected values %s do not follow command-line order %s"
                                           % (fv, want)))
        stats = {"nontrivial_ids": nontrivial, "distribution": dist,
                 "rule": "choices over 2-4 leaf alternatives (required flags with distinct values, arguments) wrapped bare/"
                         "optional/many/some among other named items x lines with items of one alternative, of two different "
                         "alternatives, of repeated alternatives in random order; non-trivial = at least one alternative item"}
        return out, stats


PROP = C07()
