"""C19 -- Adjacent groups consume contiguous blocks only."""
import re
from .. import gen, compare, common
from ..prop import Property, Case, Finding
from ..sexp_util import parse


class C19(Property):
    pid = "C19"
    quick_n = 3000
    thorough_n = 120000
    partial = ["C19_blocks (full conformance to the declarative block decomposition) is decided by the oracle and the "
               "differential run; proved: the group's window is a contiguous run of live items starting at its first item, and "
               "the enclosing scope is restored"]

    def gen_def(self, rng):
        names = gen.Names(rng, unicode_ok=False)
        lead = gen.req_flag(names.named(help_p=0.1), "unit")
        shape = rng.choice(["pos", "pos", "named", "optnamed"])
        fields = [lead]
        if shape == "pos":
            for _ in range(rng.choice([1, 2, 3])):
                fields.append(gen.pos(rng.choice(gen.METAVARS), "string"))
        elif shape == "named":
            for _ in range(rng.choice([1, 2])):
                fields.append(gen.arg(names.named(help_p=0.0), "V", "string"))
        else:
            fields.append(gen.arg(names.named(help_p=0.0), "V", "string"))
            fields.append(gen.wrap("optional", gen.arg(names.named(help_p=0.0), "W", "string")))
        g = gen.adj(*fields)
        rep = rng.choice(["many", "many", "optional", "bare"])
        node = gen.wrap("many", g) if rep == "many" else gen.wrap("optional", g) if rep == "optional" else g
        others = [gen.flag(names.named(help_p=0.0)) for _ in range(rng.choice([0, 1, 2]))]
        if rng.random() < 0.5:
            others.append(gen.wrap("optional", gen.arg(names.named(help_p=0.0), "O", "string")))
        top = others + [node]
        rng.shuffle(top)
        if rng.random() < 0.4:
            top.append(gen.wrap("many", gen.pos("REST", "string")))
        return gen.options(gen.con(*top), descr="L19"), g, rep, others

    def block_items(self, rng, g, ctr):
        """One block of group g with unique sentinel values; returns list of argv items and the sentinels."""
        items, vals = [], []
        for f in g["fields"]:
            opt = f["k"] == "optional"
            leaf = f["p"] if opt else f
            if opt and rng.random() < 0.4:
                continue
            if leaf["k"] == "flag":
                items.append(gen.spell_flag(rng, leaf))
            elif leaf["k"] == "pos":
                v = b"B%dq" % ctr[0]
                ctr[0] += 1
                items.append(v)
                vals.append(v)
            else:
                v = b"B%dq" % ctr[0]
                ctr[0] += 1
                form, its = gen.spell_arg(rng, leaf, v)
                items.extend(its)
                vals.append(v)
        return items, vals

    def choice_family(self, rng, k):
        """A group holding a CHOICE between two flags (`--job (-v | -q) NAME`), next to an ordinary switch that has the name
        of one alternative: with both alternatives on the line the one the group did not take goes to the switch, and
        what stands right of it is no neighbour of the block any more."""
        names = gen.Names(rng, unicode_ok=False)
        lead = gen.req_flag(names.named(help_p=0.0), "unit")
        a = gen.req_flag(names.named(help_p=0.0), "(num 1)")
        b = gen.req_flag(names.named(help_p=0.0), "(num 2)")
        g = gen.adj(lead, gen.alt(a, b), gen.pos("NAME", "string"))
        outer = gen.flag(dict(rng.choice([a, b])["n"]))
        node = gen.wrap("many", g) if rng.random() < 0.6 else g
        group_first = rng.random() < 0.5
        top = [node, outer] if group_first else [outer, node]
        opts = gen.options(gen.con(*top), descr="L19c")
        out = []
        L, A, B = gen.spell_flag(rng, lead), gen.spell_flag(rng, a), gen.spell_flag(rng, b)
        # complete blocks: accepted
        # (when the switch is evaluated first it takes its name out of the block: no expectation then)
        for j, line in enumerate([[L, A, b"B0q"], [L, B, b"B0q"]]):
            out.append(Case("h%db%d" % (k, j), opts, line, tags={"role": "base" if group_first else "info", "group": "h%d" % k, "blocks": [[b"B0q"]], "gnames": []}))
        # both alternatives inside one block: whichever the group takes, the other one separates NAME from the block
        for j, line in enumerate([[L, A, B, b"B0q"], [L, B, A, b"B0q"]]):
            out.append(Case("h%dx%d" % (k, j), opts, line, tags={"role": "split", "group": "h%d" % k, "blocks": [[b"B0q"]], "gnames": []}))
        return out

    def generate(self, rng, tier, n):
        cases = []
        k = 0
        while len(cases) < n:
            if rng.random() < 0.06:
                cases.extend(self.choice_family(rng, k))
                k += 1
                continue
            opts, g, rep, others = self.gen_def(rng)
            gnames = []
            for f in g["fields"]:
                leaf = f["p"] if f["k"] == "optional" else f
                if leaf["k"] in ("flag", "arg"):
                    gnames += [b"--" + l.encode() for l in leaf["n"]["long"]] + [b"-" + c.encode() for c in leaf["n"]["short"]]
            for _ in range(4):
                gid = "g%d" % k
                k += 1
                ctr = [0]
                nblocks = {"many": rng.choice([0, 1, 2, 3]), "optional": rng.choice([0, 1]), "bare": 1}[rep]
                blocks = [self.block_items(rng, g, ctr) for _ in range(nblocks)]
                chunks = []
                for o in others:
                    s = gen.Sentence()
                    gen.gen_sentence(rng, o, s, 0.7)
                    chunks.extend(list(c) for c in s.named)
                units = [("blk", b[0]) for b in blocks] + [("oth", c) for c in chunks]
                # keep blocks in order among themselves
                order = list(range(len(units)))
                oth_ix = [i for i, u in enumerate(units) if u[0] == "oth"]
                seq = [u for u in units if u[0] == "blk"]
                for i in oth_ix:
                    seq.insert(rng.randrange(len(seq) + 1), units[i])
                argv = [it for _, u in seq for it in u]
                tail = [b"T%dq" % i for i in range(rng.choice([0, 0, 1, 2]))] if any(x["k"] == "many" and x["p"]["k"] == "pos" for x in opts["p"]["fields"]) else []
                argv_ok = argv + tail
                cases.append(Case(gid + "b", opts, argv_ok, tags={"role": "base", "group": gid, "blocks": [b[1] for b in blocks], "gnames": gnames}))
                if tail:
                    # the free words to the LEFT of the blocks: a block starts at its first item and takes nothing from its left
                    cases.append(Case(gid + "w", opts, tail + argv, tags={"role": "base", "group": gid, "blocks": [b[1] for b in blocks], "gnames": gnames}))
                # interruptions: put a foreign/other item inside a block, or cut a block short
                j = 0
                pos0 = 0
                for kind, u in seq:
                    if kind == "blk" and len(u) >= 2:
                        cut = rng.randrange(1, len(u))
                        filler = rng.choice(chunks) if chunks and rng.random() < 0.6 else [rng.choice([b"--nope", b"-!"])]
                        a2 = argv[:pos0 + cut] + list(filler) + argv[pos0 + cut:] + tail
                        a2 = [x for x in a2]
                        # if the filler came from the line, remove its original occurrence
                        cases.append(Case("%si%d" % (gid, j), opts, a2 if filler not in chunks else self.move(argv, seq, filler, pos0 + cut) + tail,
                                          tags={"role": "interrupt", "group": gid, "blocks": [b[1] for b in blocks], "gnames": gnames}))
                        j += 1
                        a3 = argv[:pos0 + cut] + argv[pos0 + len(u):] + tail
                        cases.append(Case("%sc%d" % (gid, j), opts, a3, tags={"role": "cut", "group": gid, "blocks": [b[1] for b in blocks], "gnames": gnames}))
                        j += 1
                    pos0 += len(u)
        return cases

    @staticmethod
    def move(argv, seq, filler, at):
        """argv with the chunk `filler` removed from its place and inserted at index `at`."""
        out, pos = [], 0
        removed_before = 0
        flat = []
        for kind, u in seq:
            if u is filler:
                if pos < at:
                    removed_before = len(u)
            else:
                flat.extend(u)
            pos += len(u)
        at2 = at - removed_before
        return flat[:at2] + list(filler) + flat[at2:]

    @staticmethod
    def sentinels_in(val):
        return [bytes.fromhex(h) for h in re.findall(r"\(bytes x((?:[0-9a-f]{2})+)\)", val)]

    def judge(self, cases, model, impl):
        out, nontrivial, dist = [], [], {}
        for c in cases:
            r = compare.agree_class_value(model.get(c.id), impl.get(c.id))
            if r:
                out.append(Finding("disagree", c, r))
            role = c.tags["role"]
            dist[role] = dist.get(role, 0) + 1
            ic = impl.get(c.id)
            if role == "base":
                # blocks in order, other options between them, trailing positionals after them: accepted, one value per block
                # in command-line order
                want = self.all_block_vals(c)
                got = [v for v in self.sentinels_in(ic[1]) if v.startswith(b"B")] if compare.impl_class(ic) == "OK" else None
                if got != want:
                    out.append(Finding("violation", c, "complete blocks in order (other options between them, positionals after them) "
                                                       "must yield one value per block in command-line order %r: %s"
                                       % (want, common.show(ic))))
            if role == "split" and compare.impl_class(ic) == "OK" and b"B0q" in self.sentinels_in(ic[1]):
                out.append(Finding("violation", c, "a block interrupted by an item the group did not take (it went to the switch "
                                                   "outside the group) still gave a group value: %s" % common.show(ic)))
            if compare.impl_class(ic) != "OK":
                continue
            nontrivial.append(c.line())
            # every block value the run returned must come from ONE contiguous run of the line: decode which argv
            # indices fed each returned group value
            tree = parse(ic[1])
            for grp in self.groups(tree):
                vals = [bytes.fromhex(x[1:]) for x in grp]
                vals = [v for v in vals if v.startswith(b"B") and v.endswith(b"q")]
                if len(vals) < 1:
                    continue
                ixs = []
                for v in vals:
                    hits = [i for i, a in enumerate(c.argv) if a == v or a.endswith(b"=" + v) or (a.startswith(b"-") and a.endswith(v) and not a.startswith(b"--"))]
                    if len(hits) != 1:
                        ixs = None
                        break
                    ixs.append(hits[0])
                if ixs is None:
                    continue
                lo, hi = min(ixs), max(ixs)
                # all items between lo and hi must belong to this block: i.e. be its values, their keys, or its members'
                # names -- approximated by: no sentinel of another block, no T-word, no undeclared item in between
                between = c.argv[lo:hi + 1]
                gn = c.tags["gnames"]

                def own(a):
                    if a in vals:
                        return True
                    for nme in gn:
                        if a == nme:
                            return True
                        if a.startswith(nme) and (a[len(nme):len(nme) + 1] == b"=" or not nme.startswith(b"--")) \
                                and any(a.endswith(v) for v in vals):
                            return True
                    return False
                foreign = [a for a in between if not own(a)]
                if foreign:
                    out.append(Finding("violation", c, "a group value %r was pieced together from non-neighbouring items: %r lies inside "
                                                       "its span %r" % (vals, foreign, between)))
        stats = {"nontrivial_ids": nontrivial, "distribution": dist,
                 "rule": "adjacent groups (flag + 1-3 positionals, flag + named arguments, optional members; bare/optional/many) among "
                         "other named items and trailing positionals, values are unique sentinels x lines with blocks placed in order, "
                         "interrupted by another item, or cut short; oracle: the argv indices that fed one returned group value form "
                         "one span containing nothing foreign; non-trivial = line accepted by the implementation"}
        return out, stats

    @staticmethod
    def all_block_vals(c):
        return [v for b in c.tags["blocks"] for v in b]

    @staticmethod
    def groups(tree):
        """tuples directly holding byte leaves = candidate group values"""
        out = []

        def go(t):
            if isinstance(t, list):
                if t and t[0] == "tuple":
                    leaves = []
                    for x in t[1:]:
                        y = x
                        while isinstance(y, list) and y and y[0] == "some":
                            y = y[1]
                        if isinstance(y, list) and len(y) == 2 and y[0] == "bytes":
                            leaves.append(y[1])
                    if leaves:
                        out.append(leaves)
                for x in t:
                    go(x)
        go(tree)
        return out


PROP = C19()
