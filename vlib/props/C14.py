"""C14 -- Dynamic completion offers real, visible, applicable candidates."""
from .. import gen, compare, common, infra
from ..prop import Property, Case, Finding

COMPLETER_VALUES = ["alpha", "alpine", "beta", "be ta", "it's", "--dashy"]
TRANSPARENT = ("optional", "many", "some", "collect", "count", "last", "fallback", "fallback-with", "guard", "parse", "map",
               "group-help", "usage", "hide-usage", "boxed", "complete", "complete-shell")


def preferred(n):
    if n["long"]:
        return "--" + n["long"][0]
    return "-" + n["short"][0]


def level_leaves(p, hidden=False, in_alt=None, in_adj=False, out=None):
    """Leaves of ONE command level: (node, hidden, in_alt, in_adj); in_alt = id of the outermost enclosing choice."""
    if out is None:
        out = []
    k = p["k"]
    if k in ("flag", "arg", "pos", "anyp"):
        out.append((p, hidden, in_alt, in_adj))
    elif k == "cmd":
        out.append((p, hidden, in_alt, in_adj))
    elif k == "con":
        for f in p["fields"]:
            level_leaves(f, hidden, in_alt, in_adj, out)
    elif k == "adj":
        for f in p["fields"]:
            level_leaves(f, hidden, in_alt, True, out)
    elif k == "alt":
        for f in p["alts"]:
            level_leaves(f, hidden, in_alt if in_alt is not None else id(p), in_adj, out)
    elif k == "hide":
        level_leaves(p["p"], True, in_alt, in_adj, out)
    elif "p" in p:
        level_leaves(p["p"], hidden, in_alt, in_adj, out)
    return out


def parse_rev0(text):
    """-> (rows [(subst, pretty, group, help)], echo or None)"""
    if "\t" not in text:
        if text.endswith("\n") and text.count("\n") == 1:
            return [], text[:-1]
        if "\n" not in text:
            return [(text, None, None, None)], None
    rows = []
    for ln in text.split("\n"):
        if ln == "":
            break
        parts = ln.split("\t")
        if len(parts) != 4:
            return None, None
        rows.append(tuple(parts))
    return rows, None


class C14(Property):
    pid = "C14"
    quick_n = 3000
    thorough_n = 100000
    partial = ["proved: the second stage (Complete::complete: deepest level only, positional-only and value-only modes, name filters, "
               "shapes of replacement and display strings) is sound and complete w.r.t. the collected hints; that hints are pushed only "
               "by visible leaves of the active path (the first stage, threaded through every parser) is decided by the oracle"]

    def gen_def(self, rng):
        opts, names = gen.gen_options(rng, features=rng.choice([("alt", "cmd", "pos"), ("cmd", "pos"), ("alt", "adj", "cmd", "pos")]),
                                      allow_catch=False, unicode_ok=rng.random() < 0.5)
        # attach completers to some string arguments / positionals
        def deco(p):
            # value checks would make generated lines invalid at a random place; completeness is only claimed for
            # lines that are acceptable so far
            while p["k"] in ("guard", "parse"):
                p = p["p"]
            for key in ("fields", "alts"):
                if key in p:
                    p[key] = [deco(x) for x in p[key]]
            if p["k"] == "cmd":
                p["options"]["p"] = deco(p["options"]["p"])
            elif "p" in p and isinstance(p["p"], dict):
                p["p"] = deco(p["p"])
            if p["k"] in ("arg", "pos") and p["ty"] == "string" and rng.random() < 0.4:
                if rng.random() < 0.7:
                    return gen.wrap("complete", p, menu=0)
                return {"k": "complete-shell", "p": p, "kind": rng.choice(["file", "filemask", "dir", "raw"])}
            # a completer attached to a WRAPPED item (`.optional().complete(f)`, `.many().complete(f)`): the names the inner
            # parser offers must still come through
            if p["k"] in ("optional", "many", "some", "fallback") and p["p"]["k"] in ("arg", "flag") and rng.random() < 0.25:
                return gen.wrap("complete", p, menu=0)
            return p
        opts["p"] = deco(opts["p"])
        # one-letter aliases for commands (`build` / `b`)
        for x in gen.walk(opts):
            if x["k"] == "cmd" and not x["shorts"] and rng.random() < 0.4:
                x["shorts"] = [names.short()]
        return opts

    def alt_pos_family(self, rng, k):
        """A choice between a named item and a positional, next to other items / inside a subcommand."""
        names = gen.Names(rng, unicode_ok=False)
        a = gen.flag(names.named(help_p=0.5))
        b = gen.req_flag(names.named(help_p=0.5), "unit") if rng.random() < 0.6 else gen.arg(names.named(), "V", "string")
        choice = gen.alt(b, gen.pos("FILE", "string")) if rng.random() < 0.7 else gen.alt(gen.pos("FILE", "string"), b)
        level = gen.con(a, rng.choice([choice, gen.wrap("optional", choice), gen.wrap("many", choice)]))
        out = []
        if rng.random() < 0.5:
            opts = gen.options(level, descr="La")
            lv = {0: opts}
            pre, lvl = [], 0
        else:
            sub = gen.options(level, descr="Ls")
            cn = names.cmdname()
            opts = gen.options(gen.con(gen.flag(names.named()), gen.cmd(cn, sub, help="c")), descr="La")
            lv = {0: opts, 1: sub}
            pre, lvl = [cn.encode()], 1
        given_a = rng.random() < 0.7
        before = pre + ([gen.spell_flag(rng, a)] if given_a else [])
        for j, typed in enumerate(["", "-", "--"]):
            out.append(Case("f%d_%d" % (k, j), opts, before + [typed.encode()], mode="comp 0",
                            tags={"kind": "fresh", "typed": typed, "level": lvl, "given": [id(a)] if given_a else [],
                                  "levels": lv, "awaiting": False, "family": "alt_pos"}))
        return out

    def generate(self, rng, tier, n):
        cases = []
        k = 0
        while len(cases) < n:
            if rng.random() < 0.1:
                cases.extend(self.alt_pos_family(rng, k))
                k += 1
                continue
            opts = self.gen_def(rng)
            for _ in range(3):
                pieces = common.avoid_hidden_short_adj(opts, gen.gen_pieces(rng, opts, present_p=0.6))
                lv_opts = {0: opts}
                for p in pieces:
                    if p.kind == "cmdname":
                        lv_opts[p.level + 1] = p.node["options"]
                cuts = sorted(set(rng.randrange(0, len(pieces) + 1) for _ in range(4)))
                for cut in cuts:
                    before = pieces[:cut]
                    if any(p.kind in ("dd", "rpos") for p in before):
                        continue
                    lvl = (before[-1].level + (1 if before[-1].kind == "cmdname" else 0)) if before else 0
                    nxt = pieces[cut] if cut < len(pieces) else None
                    typed_opts = [("", "fresh"), ("-", "fresh"), ("--", "fresh")]
                    if nxt is not None and nxt.kind == "chunk" and nxt.chunk.kind == "named":
                        first = nxt.items[0]
                        if first.startswith(b"--") and len(first) > 3:
                            cutp = first.split(b"=")[0]
                            typed_opts.append((cutp[:rng.randrange(3, len(cutp) + 1)].decode("utf-8", "ignore"), "prefix"))
                        nd = nxt.chunk.node
                        if nd["k"] == "arg":
                            key = preferred(nd["n"])
                            typed_opts.append(((key, ""), "value"))
                            typed_opts.append(((key, "al"), "value"))
                            typed_opts.append((key + "=b", "value="))
                    if nxt is not None and nxt.kind == "cmdname":
                        nm = nxt.items[0].decode("utf-8", "ignore")
                        typed_opts.append((nm[:max(1, len(nm) // 2)], "cmdprefix"))
                        if nxt.node["shorts"]:
                            # a word that merely BEGINS with the one-letter alias is not the alias
                            sh = nxt.node["shorts"][0]
                            typed_opts.append((sh, "cmdalias"))
                            typed_opts.append((sh + rng.choice(["x", "ar", ".txt", sh]), "cmdalias-longer"))
                            typed_opts.append((sh + rng.choice(["x", "ar", ".txt", sh]), "cmdalias-longer"))
                    for typed, kind in rng.sample(typed_opts, min(3, len(typed_opts))):
                        tail = list(typed) if isinstance(typed, tuple) else [typed]
                        argv = gen.flatten(before) + [t.encode() for t in tail]
                        tg = {"kind": kind, "typed": tail[-1], "level": lvl, "given": [id(p.chunk.node) for p in before if p.kind == "chunk"],
                              "levels": lv_opts, "awaiting": isinstance(typed, tuple)}
                        cases.append(Case("g%d" % k, opts, argv, mode="comp 0", tags=tg))
                        k += 1
                        r = rng.random()
                        if r < 0.12:
                            # the request written on the line itself (what the shell stubs do): `--bpaf-complete-rev=0` as an item of
                            # its own, at any position left of `--`; it is no item of the line, the outcome must be the same
                            lim = argv.index(b"--") if b"--" in argv else len(argv)
                            at = rng.randrange(0, lim + 1) if rng.random() < 0.7 else 0
                            marked = argv[:at] + [b"--bpaf-complete-rev=0"] + argv[at:]
                            cases.append(Case("g%d" % k, opts, marked, mode="parse", tags=dict(tg, marker=at)))
                            k += 1
                        elif r < 0.22:
                            # the other output revisions: differential only (the shells' formats are C15's subject)
                            cases.append(Case("g%d" % k, opts, argv, mode="comp %d" % rng.choice([1, 7, 8, 9]), tags={"rev": True}))
                            k += 1
        return cases

    def execute(self, cases):
        import random
        lines = [c.line() for c in cases]
        # the two name filters: model (Model/Shell.v) against the library (hook)
        rng = random.Random(len(cases))
        pool = ["", "-", "--", "-a", "-é", "--al", "--alpha", "--alphabet", "--beta", "a", "al", "alpha", "alphabet", "b", "é", "--é",
                "-ab", "---", "--=", "x"]
        self.filter_lines = []
        for i in range(600):
            arg = rng.choice(pool)
            short = rng.choice([None, "a", "é", "b"])
            long_ = rng.choice([None, "alpha", "beta", "é", "al"])
            if i % 2 == 0:
                if short is None and long_ is None:
                    continue
                self.filter_lines.append("(argmatch fm%d %s %s %s)" % (i, gen.hx(arg), "-" if short is None else str(ord(short)),
                                                                    "-" if long_ is None else gen.hx(long_)))
            else:
                name = rng.choice(["alpha", "beta", "al", "é"])
                self.filter_lines.append("(cmdmatch fm%d %s %s %s)" % (i, gen.hx(arg), gen.hx(name), "-" if short is None else str(ord(short))))
        # the second stage, Complete::complete, on explicit hint lists: model (Model/Complete.v) against the library (hook)
        self.comps_lines = []
        o = lambda v: "-" if v is None else gen.hx(v)
        sh = lambda v: "-" if v is None else str(ord(v))
        for i in range(800 if len(cases) < 10000 else 20000):
            hints = []
            depths = rng.choice([[0], [0, 1], [0, 1, 1, 2], [1, 1, 1, 3]])
            for _ in range(rng.choice([0, 1, 2, 3, 4, 6, 9])):
                d = rng.choice(depths)
                g = rng.choice([None, None, "grp", "g é"])
                h = rng.choice([None, None, "help text", "it's"])
                kind = rng.choice(["flag", "flag", "argument", "argument", "command", "value", "meta", "shell"])
                short = rng.choice([None, "a", "é", "b"])
                long_ = rng.choice([None, "alpha", "beta", "é", "al"])
                a = rng.choice(["0", "0", "1"])
                if kind == "flag":
                    hints.append("(flag %d %s %s %s %s)" % (d, o(g), o(h), sh(short), o(long_)))
                elif kind == "argument":
                    hints.append("(argument %d %s %s %s %s %s)" % (d, o(g), o(h), sh(short), o(long_), gen.hx(rng.choice(["ARG", "FILE", "é"]))))
                elif kind == "command":
                    hints.append("(command %d %s %s %s %s)" % (d, o(g), o(h), gen.hx(rng.choice(["alpha", "beta", "al", "é"])), sh(short)))
                elif kind == "value":
                    hints.append("(value %d %s %s %s %s)" % (d, o(g), o(h), gen.hx(rng.choice(COMPLETER_VALUES + ["--"])), a))
                elif kind == "meta":
                    hints.append("(meta %d %s %s %s %s)" % (d, o(g), o(h), gen.hx(rng.choice(["ARG", "FILE"])), a))
                else:
                    op = rng.choice(["(file -)", "(file %s)" % gen.hx("*.rs"), "(dir -)", "(nothing)",
                                     "(raw %s %s %s %s)" % (gen.hx("b"), gen.hx("z"), gen.hx("f"), gen.hx("e"))])
                    hints.append("(shell %d %s %s %s %s)" % (d, o(g), o(h), op, a))
            arg = rng.choice(pool)
            prefix = rng.choice(["na", "na", "(s %d)" % ord(rng.choice("aé")), "(l %s)" % gen.hx(rng.choice(["alpha", "é"]))])
            self.comps_lines.append("(comps cp%d (hints %s) (arg %s) (pos %s) (named %s) (prefix %s))"
                                    % (i, " ".join(hints), gen.hx(arg), rng.choice("001"), rng.choice("01"), prefix))
        model = infra.run_model(lines + self.filter_lines + self.comps_lines)
        impl = infra.run_driver(lines + self.filter_lines + self.comps_lines)
        return model, impl

    def judge(self, cases, model, impl):
        out, nontrivial, dist = [], [], {}
        for ln in self.filter_lines:
            fid = ln.split()[1]
            if model.get(fid) != impl.get(fid):
                out.append(Finding("disagree", cases[0], "name filter %s: model %s vs implementation %s" % (ln, model.get(fid), impl.get(fid))))
        dist["filter_cases"] = len(self.filter_lines)
        dist["hint_list_cases"] = len(self.comps_lines)
        nonempty = 0
        for ln in self.comps_lines:
            fid = ln.split()[1]
            m, i = model.get(fid), impl.get(fid)
            if m != i or not m or m[0] != "COMPLETE":
                out.append(Finding("disagree", cases[0], "Complete::complete on %s: model %s vs implementation %s" % (ln[:400], m, i)))
            elif len(m) > 1 and m[1]:
                nonempty += 1
        dist["hint_lists_with_candidates"] = nonempty
        dist["requests_by_marker_on_the_line"] = sum(1 for c in cases if "marker" in c.tags)
        dist["other_output_revisions"] = sum(1 for c in cases if "rev" in c.tags)
        exact_n = 0
        for c in cases:
            ic = impl.get(c.id)
            t = c.tags
            # the first stage (Model/CompEval.v: which hints every parser pushes) + the second + the renderer: the text of
            # the completion output is compared byte for byte
            mc = model.get(c.id)
            pm = model.get(c.id + "_t")
            if pm is not None and pm[:2] == ["PREM", "1"]:
                dist["cases under C14_request_never_value_or_error (premises evaluated by the model)"] = \
                    dist.get("cases under C14_request_never_value_or_error (premises evaluated by the model)", 0) + 1
                if mc and mc[0] in ("OK", "STDERR"):
                    out.append(Finding("model", c, "the extracted model contradicts C14_request_never_value_or_error: %s" % (mc[:2],)))
            if mc != ic:
                out.append(Finding("disagree", c, "completion output: model %r vs implementation %r" % (mc, ic)))
            else:
                exact_n += 1
            if "kind" not in t:
                continue            # a replayed line / another output revision: only the differential part applies
            dist[t["kind"]] = dist.get(t["kind"], 0) + 1
            if ic is None or ic[0] != "COMP":
                out.append(Finding("violation", c, "completion was requested (last item %r) but the outcome is %s" % (t["typed"], common.show(ic))))
                continue
            nontrivial.append(c.line())
            text = gen.unhx(ic[1]).decode("utf-8")
            rows, echo = parse_rev0(text)
            if rows is None:
                out.append(Finding("violation", c, "malformed completion output %r" % text[:200]))
                continue
            lvl = t["level"]
            levels = t["levels"]
            # names along the active path
            allowed, hidden_names, active = {}, set(), []
            for L in range(0, lvl + 1):
                if L not in levels:
                    continue
                for node, hid, in_alt, in_adj in level_leaves(levels[L]["p"]):
                    if node["k"] in ("flag", "arg"):
                        nm = preferred(node["n"])
                        allnames = ["--" + l for l in node["n"]["long"]] + ["-" + s for s in node["n"]["short"]]
                        if hid:
                            hidden_names.update(allnames)
                        else:
                            allowed[nm] = node
                            if L == lvl:
                                active.append((node, nm, in_alt, in_adj))
                    elif node["k"] == "cmd":
                        if hid:
                            hidden_names.add(node["name"])
                        else:
                            allowed[node["name"]] = node
            hidden_names -= set(allowed)
            # names of commands NOT entered (deeper than the active level or siblings' insides)
            foreign = set()
            def inner_names(o):
                for node, hid, _, _ in level_leaves(o["p"]):
                    if node["k"] in ("flag", "arg"):
                        foreign.update(["--" + l for l in node["n"]["long"]] + ["-" + s for s in node["n"]["short"]])
                    elif node["k"] == "cmd":
                        foreign.add(node["name"])
                        inner_names(node["options"])
            entered = [levels[L] for L in levels if L <= lvl]
            for L in range(0, lvl + 1):
                if L in levels:
                    for node, hid, _, _ in level_leaves(levels[L]["p"]):
                        if node["k"] == "cmd" and node["options"] not in entered:
                            inner_names(node["options"])
            foreign -= set(allowed)
            typed = t["typed"]
            for subst, pretty, group, help_ in rows:
                if subst == "":
                    continue
                if subst in hidden_names:
                    out.append(Finding("violation", c, "a hidden item %r is offered" % subst))
                elif subst in foreign:
                    out.append(Finding("violation", c, "%r belongs only to a command that was not entered, yet it is offered" % subst))
                elif subst in allowed:
                    node = allowed[subst]
                    if node["k"] == "cmd":
                        ok = node["name"].startswith(typed) or (node["shorts"] and typed == node["shorts"][0])
                    else:
                        # only the first (visible) long / short name takes part in matching
                        ok = typed in ("", "-") or (typed.startswith("--") and node["n"]["long"][:1] and node["n"]["long"][0].startswith(typed[2:])) \
                            or (len(typed) >= 2 and typed[0] == "-" and typed[1:] in node["n"]["short"][:1])
                    if not ok:
                        out.append(Finding("violation", c, "candidate %r does not match what was typed (%r)" % (subst, typed)))
                elif subst == "--" or subst in COMPLETER_VALUES or any(subst.endswith("=" + v) for v in COMPLETER_VALUES):
                    pass
                else:
                    out.append(Finding("violation", c, "candidate %r is neither a visible name of the active command path, a completer "
                                                       "value nor a placeholder" % subst))
            # completeness for a freshly typed prefix
            if t["kind"] in ("fresh", "prefix") and not t["awaiting"]:
                got = set(r[0] for r in rows)
                # a choice of which one alternative has already been given no longer offers the others
                taken_alts = set(a for node, nm, a, j in active if a is not None and id(node) in t["given"])
                for L in levels:
                    if L == lvl:
                        for node, hid, a, j in level_leaves(levels[L]["p"]):
                            if a is not None and node["k"] in ("pos", "cmd", "anyp"):
                                pass
                for node, nm, in_alt, in_adj in active:
                    if in_adj or id(node) in t["given"] or (in_alt is not None and in_alt in taken_alts):
                        continue
                    if in_alt is not None and in_alt in self.alts_with_group(levels[lvl]["p"]):
                        continue
                    if typed in ("", "-"):
                        matches = True
                    elif typed.startswith("--"):
                        matches = bool(node["n"]["long"]) and node["n"]["long"][0].startswith(typed[2:])
                    else:
                        matches = False
                    if matches and nm not in got:
                        out.append(Finding("violation", c, "the visible, not yet given %s %r of the active level extends %r but is not "
                                                           "offered (offered: %r)" % (node["k"], nm, typed, sorted(got))))
                        break
        stats = {"nontrivial_ids": nontrivial, "distribution": dist,
                 "rule": "random definitions (flags, arguments/positionals with value completers and shell completers, hidden parts, "
                         "alternatives, adjacent groups, subcommands) x every kind of partially typed line: a prefix of a generated "
                         "sentence followed by ``, `-`, `--`, a long-name prefix, a command-name prefix, `--name` + `` / `al`, `--name=b`; "
                         "completion revision 0; oracle computed from the definition's AST; non-trivial = completion output obtained"}
        dist["completion_text_equal_to_the_model_byte_for_byte"] = exact_n
        return out, stats

    @staticmethod
    def alts_with_group(p):
        """ids of choices one of whose alternatives is a group (construct!) or a command: such an alternative may be
        partially given, which also silences the others"""
        out = set()
        for x in gen.walk(p):
            if x["k"] == "alt" and any(gen.children(a) and a["k"] in ("con", "adj", "cmd") for a in x["alts"]):
                out.add(id(x))
        return out

    def known_class(self, cls, f):
        if cls == "exact_name_in_alternative" and f.kind == "violation" and "is not offered" in f.detail and f.case.opts is not None:
            # the typed word IS the complete long name of an item inside a choice at the active level: that branch consumes
            # it and wins, and the hints of the sibling branches -- among them a LONGER name extending the typed word -- are
            # dropped with the losing branch
            t = f.case.tags
            typed = t["typed"]
            if not typed.startswith("--") or len(typed) < 3:
                return False
            lv = t["levels"].get(t["level"])
            if lv is None:
                return False
            leaves = level_leaves(lv["p"])
            exact = [a for node, hid, a, j in leaves if node["k"] in ("flag", "arg") and a is not None and typed[2:] in node["n"]["long"]]
            longer = [a for node, hid, a, j in leaves if node["k"] in ("flag", "arg") and a is not None and node["n"]["long"]
                      and node["n"]["long"][0] != typed[2:] and node["n"]["long"][0].startswith(typed[2:])
                      and ("'--%s'" % node["n"]["long"][0]) in f.detail]
            return any(a in exact for a in longer)
        return False


PROP = C14()
