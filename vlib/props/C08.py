"""C08 -- Subcommands scope what follows them."""
from .. import gen, compare, common
from ..prop import Property, Case, Finding


class C08(Property):
    pid = "C08"
    quick_n = 3000
    thorough_n = 120000
    partial = ["C08_tree (full conformance of subcommand trees to the declarative grammar) is decided by the differential run "
               "and the oracle; the theorems cover entering, scoping, the leftover check and help after the name"]

    @staticmethod
    def chain_family(rng, k):
        """Command chains: `construct!([a.adjacent(), b.adjacent()]).many()` -- every command takes the items from its name up
        to the next command name.  The blocks are independent: each block alone gives a one-element list, the chain must give
        the list of those elements in order (the flags of the commands share their names on purpose)."""
        names = gen.Names(rng, unicode_ok=False)
        v, nlong = names.short(), names.long()
        cmds = []
        for _ in range(rng.choice([2, 2, 3])):
            inner = gen.con(gen.wrap("count", gen.req_flag(gen.named([v], []))),
                            gen.wrap("optional", gen.arg(gen.named([], [nlong]), "N", "u32"), catch=False))
            cmds.append(gen.cmd(names.cmdname(), gen.options(inner, descr="Lc"), adjacent=True, help="c"))
        opts = gen.options(gen.wrap("many", gen.alt(*cmds), catch=False), descr="Lchain")
        blocks = []
        for _ in range(rng.choice([1, 2, 2, 3])):
            c = rng.choice(cmds)
            b = [c["name"].encode()] + [b"-" + v.encode()] * rng.choice([0, 1, 1, 2, 3])
            if rng.random() < 0.3:
                b += [b"--" + nlong.encode(), b"%d" % rng.randrange(50)]
            blocks.append(b)
        gid = "g%dq" % k
        out = [Case("%ss%d" % (gid, i), opts, b, tags={"role": "chain_block", "group": gid, "ix": i}) for i, b in enumerate(blocks)]
        out.append(Case(gid + "f", opts, [x for b in blocks for x in b], tags={"role": "chain", "group": gid, "n": len(blocks)}))
        return out

    def generate(self, rng, tier, n):
        cases = []
        k = 0
        while len(cases) < n:
            if rng.random() < 0.04:
                cases.extend(self.chain_family(rng, k))
                k += 1
                continue
            opts, names = gen.gen_options(rng, features=("alt", "cmd", "pos", "modealt"), max_depth=3, allow_catch=False)
            if not common.has_kind(opts, ("cmd",)):
                continue
            # commands with one or two further long names (aliases)
            if rng.random() < 0.4:
                for x in gen.walk(opts):
                    if x["k"] == "cmd" and not x["aliases"] and rng.random() < 0.7:
                        x["aliases"] = [x["name"] + suf for suf in rng.sample(["x", "-alt", "2"], rng.choice([1, 2]))]
            for _ in range(3):
                gid = "g%d" % k
                k += 1
                pieces = gen.gen_pieces(rng, opts)
                base = gen.flatten(pieces)
                cases.append(Case(gid + "b", opts, base, tags={"role": "base", "group": gid}))
                cmd_ixs = [i for i, p in enumerate(pieces) if p.kind == "cmdname"]
                j = 0
                for ci in cmd_ixs:
                    lvl = pieces[ci].level
                    # (1) a deeper level's named item moved to the left of its command name
                    inner = [i for i, p in enumerate(pieces) if i > ci and p.level == lvl + 1 and p.kind == "chunk"
                             and p.chunk.kind == "named"]
                    if inner:
                        i = rng.choice(inner)
                        moved = pieces[:ci] + [pieces[i]] + pieces[ci:i] + pieces[i + 1:]
                        cases.append(Case("%sm%d" % (gid, j), opts, gen.flatten(moved),
                                          tags={"role": "moved", "group": gid, "item": pieces[i].items}))
                        j += 1
                    # (2) an unknown word in place of the command name
                    bogus = pieces[:ci] + [gen.Piece("bogus", [b"nosuchcmd"], level=lvl)] + pieces[ci + 1:]
                    cases.append(Case("%su%d" % (gid, j), opts, gen.flatten(bogus), tags={"role": "unknown", "group": gid}))
                    j += 1
                    # (3) help right after the name: describes the subcommand
                    o = pieces[ci].node["options"]
                    hp = pieces[:ci + 1] + [gen.Piece("help", [rng.choice([b"--help", b"-h"])], level=lvl + 1)]
                    cases.append(Case("%sh%d" % (gid, j), opts, gen.flatten(hp),
                                      tags={"role": "help", "group": gid, "marker": o["descr"], "prefix_ok": None}))
                    j += 1
                    # (4) a foreign item right of the name must be judged (and rejected) by the subcommand
                    if ci + 1 <= len(pieces):
                        dd = next((i for i, p in enumerate(pieces) if p.kind == "dd" and i > ci), len(pieces))
                        ix = rng.randrange(ci + 1, dd + 1)
                        fr = pieces[:ix] + [gen.Piece("stray", [rng.choice([b"--nope", b"-!", b"--zzz=1"])], level=lvl + 1)] + pieces[ix:]
                        cases.append(Case("%sf%d" % (gid, j), opts, gen.flatten(fr), tags={"role": "foreign", "group": gid}))
                        j += 1
                # (4b) an option of the ENCLOSING level written to the right of the command name: still the parent's
                for ci in cmd_ixs[:1]:
                    lvl = pieces[ci].level
                    groups = [p.chunk.group for p in pieces if p.kind == "chunk"]
                    outer = [i for i, p in enumerate(pieces) if i < ci and p.level == lvl and p.kind == "chunk"
                             and p.chunk.kind == "named" and groups.count(p.chunk.group) == 1]
                    if outer:
                        i = rng.choice(outer)
                        dd = next((x for x, p in enumerate(pieces) if p.kind == "dd" and x > ci), len(pieces))
                        # stay inside this subcommand's own level (before any deeper command name)
                        nxt = next((x for x, p in enumerate(pieces) if p.kind == "cmdname" and x > ci), len(pieces))
                        at = rng.randrange(ci + 1, min(dd, nxt) + 1)
                        moved = pieces[:i] + pieces[i + 1:at] + [pieces[i]] + pieces[at:]
                        cases.append(Case("%sp%d" % (gid, j), opts, gen.flatten(moved),
                                          tags={"role": "parent_right", "group": gid, "item": pieces[i].items}))
                        j += 1
                # (6) "the items to its right are judged by the subcommand's own parser": the same items (short flags
                #     clustered when possible) given to the subcommand's OptionParser on its own must be judged alike,
                #     and its value is what the enclosing result contains
                if cmd_ixs and pieces[cmd_ixs[0]].level == 0:
                    from .C02 import C02
                    ci = cmd_ixs[0]
                    sub_argv, merged = C02.cluster(pieces[ci + 1:])
                    sub_opts = pieces[ci].node["options"]
                    cases.append(Case(gid + "sp", opts, gen.flatten(pieces[:ci + 1]) + sub_argv,
                                      tags={"role": "sub_in_parent", "group": gid, "clustered": bool(merged)}))
                    cases.append(Case(gid + "sa", sub_opts, sub_argv, tags={"role": "sub_alone", "group": gid}))
                # (7) a word that happens to be another name of the command just entered, right after its name: for the
                #     subcommand it is an ordinary word -- exactly like any other word at the same place
                for ci in cmd_ixs[:1]:
                    nd = pieces[ci].node
                    others = [n for n in [nd["name"]] + nd["aliases"] if n.encode() != pieces[ci].items[0]]
                    if others:
                        w = rng.choice(others).encode()
                        pre, post = gen.flatten(pieces[:ci + 1]), gen.flatten(pieces[ci + 1:])
                        cases.append(Case(gid + "aw", opts, pre + [w] + post, tags={"role": "alias_word", "group": gid, "word": w}))
                        cases.append(Case(gid + "an", opts, pre + [b"zzwordq"] + post, tags={"role": "neutral_word", "group": gid}))
                # (5) a second command name where none is expected (after the deepest level's items)
                if cmd_ixs:
                    nm = pieces[cmd_ixs[0]].items[0]
                    cases.append(Case("%sx" % gid, opts, base + [nm], tags={"role": "extra", "group": gid, "name": nm}))
        return cases

    def judge(self, cases, model, impl):
        out, nontrivial, dist, base = [], [], {}, {}
        for c in cases:
            r = compare.agree_class_value(model.get(c.id), impl.get(c.id))
            if r:
                out.append(Finding("disagree", c, r))
            if c.tags["role"] == "base":
                base[c.tags["group"]] = c
        subs = {}
        for c in cases:
            if c.tags["role"] in ("sub_in_parent", "sub_alone"):
                subs.setdefault(c.tags["group"], {})[c.tags["role"]] = c
        for gid, pr in subs.items():
            if len(pr) != 2 or compare.impl_class(impl.get(base[gid].id)) != "OK":
                continue
            cp, ca = pr["sub_in_parent"], pr["sub_alone"]
            ip, ia = common.impl_cv(impl.get(cp.id)), common.impl_cv(impl.get(ca.id))
            nontrivial.append(cp.line())
            if (ip[0] == "OK") != (ia[0] == "OK") or (ip[0] == "OK" and ia[1] not in ip[1]):
                out.append(Finding("violation", cp, "the items right of the command name %r are judged %s by the subcommand's own parser "
                                                    "run on them alone, but %s inside the enclosing parser"
                                   % (ca.argv, common.show(impl.get(ca.id)), common.show(impl.get(cp.id))), related=[ca]))
        neutral = {c.tags["group"]: c for c in cases if c.tags["role"] == "neutral_word"}
        blocks = {}
        for c in cases:
            if c.tags["role"] == "chain_block":
                blocks.setdefault(c.tags["group"], {})[c.tags["ix"]] = c
        for c in cases:
            role = c.tags["role"]
            dist[role] = dist.get(role, 0) + 1
            if role == "chain_block":
                continue
            if role == "chain":
                bl = blocks.get(c.tags["group"], {})
                vals = []
                for i in range(c.tags["n"]):
                    ib = impl.get(bl[i].id) if i in bl else None
                    if ib is None or compare.impl_class(ib) != "OK" or not (ib[1].startswith("(list ") and ib[1].endswith(")")):
                        vals = None
                        break
                    vals.append(ib[1][len("(list "):-1])
                if vals is None:
                    continue
                nontrivial.append(c.line())
                want = "(list %s)" % " ".join(vals)
                ic = impl.get(c.id)
                if compare.impl_class(ic) != "OK" or ic[1] != want:
                    out.append(Finding("violation", c, "a chain of adjacent commands must give each command the items up to the next "
                                                       "command name: the blocks alone give %s, the chain gives %s"
                                       % (want, common.show(ic)), related=[bl[i] for i in sorted(bl)]))
                continue
            if role == "alias_word":
                nc = neutral.get(c.tags["group"])
                ia, inn = impl.get(c.id), impl.get(nc.id) if nc else None
                if inn is not None and ia is not None:
                    nontrivial.append(c.line())
                    ca, cn = compare.impl_class(ia), compare.impl_class(inn)
                    want = inn[1].replace("(bytes %s)" % gen.hx(b"zzwordq"), "(bytes %s)" % gen.hx(c.tags["word"])) if cn == "OK" else None
                    if ca != cn or (cn == "OK" and ia[1] != want):
                        out.append(Finding("violation", c, "the word %r right of the command name -- another name of that command -- is "
                                                           "not judged like any other word by the subcommand's parser: %s  vs  %s (with a "
                                                           "neutral word)" % (c.tags["word"], common.show(ia), common.show(inn)), related=[nc]))
                continue
            if role in ("base", "sub_in_parent", "sub_alone", "neutral_word"):
                continue
            b = base[c.tags["group"]]
            b_ok = compare.impl_class(impl.get(b.id)) == "OK"
            ic = impl.get(c.id)
            cls = compare.impl_class(ic)
            if not b_ok:
                continue
            nontrivial.append(c.line())
            if role == "moved" and cls == "OK":
                out.append(Finding("violation", c, "an option of a subcommand written before the command name (%r) was accepted: %s"
                                   % (c.tags["item"], ic[1]), related=[b]))
            if role == "unknown" and cls == "OK":
                out.append(Finding("violation", c, "an unknown word in place of the subcommand name was accepted: " + ic[1], related=[b]))
            if role == "foreign" and cls == "OK":
                out.append(Finding("violation", c, "an item nobody declares, written to the right of the subcommand name, was not "
                                                   "rejected: " + ic[1], related=[b]))
            if role == "help":
                if cls != "HELP" or compare.help_marker(gen.unhx(ic[1])) != c.tags["marker"].encode():
                    out.append(Finding("violation", c, "help requested right after the command name does not describe that "
                                                       "subcommand (%r): %s" % (c.tags["marker"], common.show(ic)), related=[b]))
            if role == "parent_right" and not common.same_outcome(impl.get(b.id), ic):
                out.append(Finding("violation", c, "an option of the enclosing level (%r) written to the right of the command name "
                                                   "changed the outcome: %s  vs  %s" % (c.tags["item"], common.show(impl.get(b.id)),
                                                                                        common.show(ic)), related=[b]))
        stats = {"nontrivial_ids": nontrivial, "distribution": dist,
                 "rule": "subcommand trees of depth <= 3 with per-level named items/positionals x accepted sentences x "
                         "{an inner option moved before its command name, unknown word instead of the name, help right after "
                         "the name, undeclared item right of the name}; non-trivial = mutation of a line the implementation accepted"}
        return out, stats

    def known_class(self, cls, f):
        return False


PROP = C08()
