"""C05 -- Every command-line item is used exactly once or the run fails."""
from .. import gen, compare
from ..prop import Property, Case, Finding

FOREIGN = [b"--nope", b"-!", b"--zzz=1", b"--nope=", "--ünknown".encode(), b"-%"]


class C05(Property):
    pid = "C05"
    quick_n = 3000
    thorough_n = 120000
    partial = []

    def generate(self, rng, tier, n):
        cases = []
        k = 0
        while len(cases) < n:
            if rng.random() < 0.2:
                # words split at `--` between a non_strict positional under many/optional/fallback and strict().many():
                # every word of the line must arrive somewhere (none silently dropped)
                from .C09 import C09
                c = C09.split_case(rng, k)
                c.tags = dict(c.tags, role="allwords", words=[a for a in c.argv if a.startswith(b"W") and a.endswith(b"q")])
                cases.append(c)
                k += 1
                continue
            opts, names = gen.gen_options(rng, features=("alt", "adj", "cmd", "pos", "grp"), allow_catch=False)
            # a group of required members that is optional / defaulted / repeated as a whole, given only in part
            cases.extend(self.partial_groups(rng, opts, k))
            for _ in range(3):
                base = gen.gen_argv(rng, opts)
                gid = "g%d" % k
                k += 1
                cases.append(Case(gid + "b", opts, base, tags={"role": "base", "group": gid}))
                # insertions of an item nobody declares, left of any `--`
                limit = base.index(b"--") if b"--" in base else len(base)
                for j in range(min(4, limit + 1)):
                    posn = rng.randrange(0, limit + 1)
                    item = rng.choice(FOREIGN)
                    argv = base[:posn] + [item] + base[posn:]
                    cases.append(Case("%si%d" % (gid, j), opts, argv,
                                      tags={"role": "insert", "group": gid, "item": item, "pos": posn}))
                # a single-dash word containing a declared flag letter and an undeclared one (`-a!`) is a plain
                # word for bpaf: it must behave exactly like any other plain word put at the same place
                flags = [c for x in gen.walk(opts) if x["k"] == "flag" for c in x["n"]["short"]]
                if flags:
                    for j in range(2):
                        posn = rng.randrange(0, limit + 1)
                        c = rng.choice(flags).encode()
                        item = rng.choice([b"-" + c + b"!", b"-" + c + c + b"%", b"-" + c + b"!" + c])
                        cases.append(Case("%sw%d" % (gid, j), opts, base[:posn] + [item] + base[posn:],
                                          tags={"role": "oddword", "group": gid, "item": item, "pos": posn, "twin": "%sv%d" % (gid, j)}))
                        # the twin: a word of the same length made of a dash and undeclared letters only (the same kind of plain
                        # word, without a declared letter in it), so that length- or dash-sensitive closures see no difference
                        twin = b"-" + b"!" * (len(item) - 1)
                        cases[-1].tags["twin_word"] = twin
                        cases.append(Case("%sv%d" % (gid, j), opts, base[:posn] + [twin] + base[posn:],
                                          tags={"role": "plainword", "group": gid, "pos": posn}))
                # a value glued onto a flag (`--all=yes`, `-a=1`): the value is an item of its own that nobody consumes
                fl = [(i, a) for i, a in enumerate(base[:limit]) if a.startswith(b"-") and b"=" not in a and a != b"--"
                      and (a.startswith(b"--") or len(a[1:].decode("utf-8", "replace")) == 1) and self.is_flag_item(opts, a)]
                if fl:
                    i, a = rng.choice(fl)
                    junk = rng.choice([b"yes", b"1", b"", b"false"])
                    argv = base[:i] + [a + b"=" + junk] + base[i + 1:]
                    cases.append(Case(gid + "a", opts, argv, tags={"role": "attached", "group": gid, "item": a + b"=" + junk}))
                # duplication of one item
                if base:
                    i = rng.randrange(len(base))
                    argv = base[:i] + [base[i]] + base[i:]
                    cases.append(Case(gid + "d", opts, argv, tags={"role": "dup", "group": gid, "pos": i}))
        return cases

    @staticmethod
    def is_flag_item(opts, a):
        """`a` is `--long` or `-c` (one character) and names a flag (not an argument) somewhere in the definition"""
        try:
            t = a.decode("utf-8")
        except UnicodeDecodeError:
            return False
        for x in gen.walk(opts):
            if x["k"] == "flag":
                if t.startswith("--") and t[2:] in x["n"]["long"]:
                    return True
                if not t.startswith("--") and len(t) == 2 and t[1] in x["n"]["short"]:
                    return True
        return False

    @staticmethod
    def partial_groups(rng, opts, k):
        """Lines on which a wrapped group (construct! of required members under optional/fallback/fallback_with/many) of the
        TOP level is given only in part, next to an otherwise generated sentence."""
        out = []
        top = [x for x in (opts["p"]["fields"] if opts["p"]["k"] == "con" else [opts["p"]])
               if x["k"] in ("optional", "fallback", "fallback-with", "many") and x["p"]["k"] == "con"
               and all(m["k"] in ("flag", "arg") for m in x["p"]["fields"])]
        for gi, g in enumerate(top[:2]):
            members = g["p"]["fields"]
            for j in range(2):
                try:
                    pieces = gen.gen_pieces(rng, opts, present_p=0.7)
                except Exception:
                    continue
                # drop every occurrence of the group from the top level, then add some (not all) members once
                pieces = [p for p in pieces if not (p.kind == "chunk" and p.level == 0 and any(p.chunk.node is m for m in members))]
                keep = rng.sample(members, rng.randrange(1, len(members)))
                given, marks = [], []
                for m in keep:
                    if m["k"] == "flag":
                        given.append([gen.spell_flag(rng, m)])
                    else:
                        v = gen.gen_value(rng, m["ty"], valid=True)
                        if v.startswith(b"-") or v == b"":
                            v = b"w" + v.lstrip(b"-")
                        nm = (b"--" + m["n"]["long"][0].encode()) if m["n"]["long"] else (b"-" + m["n"]["short"][0].encode())
                        given.append([nm + b"=" + v])
                        if m["ty"] == "string":
                            marks.append(v)
                argv = [i for gv in given for i in gv] + gen.flatten(pieces)
                out.append(Case("g%dq%d_%d" % (k, gi, j), opts, argv, tags={"role": "partial", "group": "g%dq" % k, "marks": marks,
                                                                          "given": [i for gv in given for i in gv]}))
        return out

    def judge(self, cases, model, impl):
        out = []
        base_ok = {}
        nontrivial = []
        dist = {"base_ok": 0, "base_fail": 0, "insert": 0, "dup": 0}
        for c in cases:
            r = compare.agree_class_value(model.get(c.id), impl.get(c.id))
            if r:
                out.append(Finding("disagree", c, r))
            role = c.tags.get("role")
            if role == "base":
                ok = compare.impl_class(impl.get(c.id)) == "OK"
                base_ok[c.tags["group"]] = (ok, c)
                dist["base_ok" if ok else "base_fail"] += 1
        for c in cases:
            role = c.tags.get("role")
            if role == "insert":
                dist["insert"] += 1
                ok, base = base_ok.get(c.tags["group"], (False, None))
                if ok:
                    nontrivial.append(c.line())
                    if compare.impl_class(impl.get(c.id)) == "OK":
                        out.append(Finding("violation", c,
                                           "an item nobody declares (%r at %d) was inserted into an accepted line and the run still "
                                           "yields a value: %s" % (c.tags["item"], c.tags["pos"], impl.get(c.id)[1]),
                                           related=[base]))
            elif role == "oddword":
                dist["oddword"] = dist.get("oddword", 0) + 1
                twin = impl.get(c.tags["twin"])
                mine = impl.get(c.id)
                if twin is not None and mine is not None:
                    ct, cm = compare.impl_class(twin), compare.impl_class(mine)
                    if ct == "OK":
                        nontrivial.append(c.line())
                    want = twin[1].replace("(bytes %s)" % gen.hx(c.tags["twin_word"]), "(bytes %s)" % gen.hx(c.tags["item"])) if ct == "OK" else None
                    if ct != cm or (ct == "OK" and mine[1] != want):
                        out.append(Finding("violation", c,
                                           "the word %r (a declared flag letter followed by an undeclared one) is not treated as one "
                                           "plain word: with a plain word at the same place the outcome is %s, with it %s "
                                           "(an item delivered to two fields, or split)" % (c.tags["item"], " ".join(twin[:2])[:200],
                                                                                          " ".join(mine[:2])[:200])))
            elif role == "attached":
                dist["attached"] = dist.get("attached", 0) + 1
                ok, base = base_ok.get(c.tags["group"], (False, None))
                if ok:
                    nontrivial.append(c.line())
                    if compare.impl_class(impl.get(c.id)) == "OK":
                        out.append(Finding("violation", c, "a value was glued onto a flag (%r): nobody can consume it, yet the run "
                                                           "yields a value: %s" % (c.tags["item"], impl.get(c.id)[1][:300]), related=[base]))
            elif role == "allwords":
                dist["allwords"] = dist.get("allwords", 0) + 1
                ic = impl.get(c.id)
                if compare.impl_class(ic) == "OK":
                    nontrivial.append(c.line())
                    lost = [w for w in c.tags["words"] if ic[1].count("(bytes %s)" % gen.hx(w)) != 1]
                    if lost:
                        out.append(Finding("violation", c, "the run yields a value in which the word(s) %r of the line do not occur "
                                                           "exactly once: an item was silently dropped or delivered twice (%s)"
                                           % (lost, ic[1][:300])))
            elif role == "dup":
                dist["dup"] += 1
            elif role == "partial":
                dist["partial"] = dist.get("partial", 0) + 1
                ic = impl.get(c.id)
                if compare.impl_class(ic) == "OK":
                    nontrivial.append(c.line())
                    lost = [m for m in c.tags["marks"] if ("(bytes %s)" % gen.hx(m)) not in ic[1]]
                    if lost:
                        out.append(Finding("violation", c, "part of a group of required members was given (%r); the run yields a value in "
                                                           "which the given value(s) %r do not occur: the items were silently dropped (%s)"
                                           % (c.tags["given"], lost, ic[1][:300])))
        stats = {"nontrivial_ids": nontrivial, "distribution": dist,
                 "rule": "random invariant-respecting definitions (alternatives, optional/repeated groups, adjacent groups, "
                         "subcommands) x sentences generated from the definition x single-item insertions of undeclared "
                         "items left of `--` and single-item duplications; non-trivial = insertion into a line the "
                         "implementation accepted"}
        return out, stats

    def directed_search(self, rng, f):
        c = f.case
        if c.opts is None:
            return []
        out = []
        for i in range(len(c.argv) + 1):
            for item in FOREIGN:
                out.append(Case("%sx%d_%d" % (c.id, i, FOREIGN.index(item)), c.opts, c.argv[:i] + [item] + c.argv[i:],
                                tags={"role": "insert", "group": c.id + "x", "item": item, "pos": i}))
        out.append(Case(c.id + "xb", c.opts, c.argv, tags={"role": "base", "group": c.id + "x"}))
        return out


PROP = C05()
