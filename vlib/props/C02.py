"""C02 -- Equivalent spellings mean the same thing; values arrive byte-exact."""
from .. import gen, compare, common
from ..prop import Property, Case, Finding

VALUES = [b"", b"=", b"==", b"a=b", b"sp ace", b"-", b"-x", b"--", b"--y", "naïve".encode(), b"f\xff=", b"\xff\xfe",
          b"long" * 20, b"1", b"42", b"v=w=x", b" lead", b"tab\there", "日本語".encode()]


class C02(Property):
    pid = "C02"
    quick_n = 3000
    thorough_n = 150000
    partial = ["C02_respell is proved at the token level (tokenizer laws + take_arg accepting Word and ArgWord alike); "
               "the whole-run respelling invariance is tied by the differential and metamorphic checks"]

    def cluster_family(self, rng, gid):
        """Small definitions built for clusters: 1-3 short flags and one short argument (names of every UTF-8
        width), lines `-a -b -n v` and their clustered respellings."""
        pool = list("abcxyz") + ["ж", "é", "日", "ñ", "\U0001F600"]
        rng.shuffle(pool)
        nf = rng.choice([1, 2, 3])
        flags = [gen.flag(gen.named(short=[pool[i]])) for i in range(nf)]
        an = pool[nf]
        ty = rng.choice(["osstring", "string", "u32"])
        a = gen.arg(gen.named(short=[an], long=["val"]), "V", ty)
        wrapped = rng.choice([a, gen.wrap("optional", a), gen.wrap("many", a)])
        fields = flags + [wrapped]
        if rng.random() < 0.4:
            fields.append(gen.wrap("many", gen.pos("REST", "osstring")))
        opts = gen.options(gen.con(*fields), descr="Lc")
        v = gen.gen_value(rng, ty, valid=True)
        if not v or v.startswith(b"-") or v.startswith(b"="):
            v = b"7"
        used = [f for f in flags if rng.random() < 0.8] or flags[:1]
        rng.shuffle(used)
        letters = "".join(f["n"]["short"][0] for f in used).encode()
        sep = [b"-" + f["n"]["short"][0].encode() for f in used]
        anb = an.encode()
        base = sep + [b"-" + anb, v]
        out = [Case(gid + "b", opts, base, tags={"role": "base", "group": gid})]
        variants = [("cl_sep", [b"-" + letters + anb, v]), ("cl_adj", [b"-" + letters + anb + v]),
                    ("cl_flags_then_sep", [b"-" + letters, b"-" + anb, v]), ("sep_adj", sep + [b"-" + anb + v])]
        for j, (form, argv) in enumerate(variants):
            if form in ("cl_adj", "sep_adj") and not common.is_utf8(v):
                continue
            if form == "cl_adj" and b"=" in v:
                continue        # `-abn=v` is not one of the listed spellings (read as -a with value bn=v)
            out.append(Case("%sc%d" % (gid, j), opts, argv, tags={"role": "cluster", "group": gid, "letters": form, "form": form}))
        return out

    def generate(self, rng, tier, n):
        cases = []
        k = 0
        while len(cases) < n:
            if rng.random() < 0.3:
                cases.extend(self.cluster_family(rng, "f%d" % k))
                k += 1
                continue
            opts, names = gen.gen_options(rng, features=("alt", "cmd", "pos"), allow_catch=False)
            # make value types byte-transparent now and then so that odd values are accepted
            for _ in range(3):
                pieces = gen.gen_pieces(rng, opts)
                gid = "g%d" % k
                k += 1
                # exotic values for string-like arguments
                for p in pieces:
                    if p.kind == "chunk" and p.chunk.node["k"] == "arg" and p.chunk.node["ty"] in ("osstring", "pathbuf", "string") \
                            and rng.random() < 0.5:
                        v = rng.choice(VALUES)
                        if p.chunk.node["ty"] == "string" and not common.is_utf8(v):
                            continue
                        sp = common.spellings(p.chunk.node, v)
                        form, nm, items = rng.choice(sp)
                        ch = gen.Chunk(items, p.chunk.node, v, form, p.chunk.group)
                        ch.name = nm
                        p.chunk, p.items = ch, list(items)
                base = gen.flatten(pieces)
                cases.append(Case(gid + "b", opts, base, tags={"role": "base", "group": gid}))
                # respell each argument occurrence into every other admissible spelling
                j = 0
                for ix, p in enumerate(pieces):
                    if p.kind != "chunk" or p.chunk.node["k"] != "arg" or p.chunk.value is None:
                        continue
                    for form, nm, items in common.spellings(p.chunk.node, p.chunk.value):
                        if items == p.items:
                            continue
                        argv = gen.flatten(pieces[:ix]) + items + gen.flatten(pieces[ix + 1:])
                        cases.append(Case("%sr%d" % (gid, j), opts, argv,
                                          tags={"role": "respell", "group": gid, "form": form, "name": nm,
                                                "value": p.chunk.value, "from": p.chunk.form, "node": p.chunk.node}))
                        j += 1
                # byte-exact delivery: for an OsString / PathBuf argument the outcome may depend on the value only through the
                # value itself -- an ASCII value and a non-UTF-8 value in the same spelling (`--name=V`, `--name V`, `-n V`;
                # single-byte short names only, see the known findings) are accepted alike and come back byte for byte
                bj = 0
                transformed = set(id(y) for x in gen.walk(opts) if x["k"] in ("guard", "parse", "map", "count", "last") for y in gen.walk(x["p"]))
                for ix, p in enumerate(pieces):
                    if p.kind != "chunk" or p.chunk.node["k"] != "arg" or p.chunk.node["ty"] not in ("osstring", "pathbuf"):
                        continue
                    if id(p.chunk.node) in transformed:
                        continue            # the value is checked or rewritten by a user closure before it is returned
                    if bj >= 2:
                        break
                    va, vb = b"plainvalue7", rng.choice([b"nv\xff\xfe7", b"caf\xe9.txt", b"\x80\x81", b"ok\xc3"])
                    sps = [(f, nm, it) for f, nm, it in common.spellings(p.chunk.node, va)
                           if f in ("long_eq", "long_sep", "short_sep", "short_eq")]
                    if not sps:
                        continue
                    form, nm, _ = rng.choice(sps)
                    for tag, v in (("a", va), ("b", vb)):
                        items = [it for f, m, it in common.spellings(p.chunk.node, v) if f == form and m == nm][0]
                        argv = gen.flatten(pieces[:ix]) + items + gen.flatten(pieces[ix + 1:])
                        cases.append(Case("%sy%d%s" % (gid, bj, tag), opts, argv,
                                          tags={"role": "bytes-" + tag, "group": gid, "pair": "%sy%d" % (gid, bj), "value": v, "form": form}))
                    bj += 1
                # an argument restricted with `adjacent` accepts ONLY the spellings in which name and value are one item: the
                # two-item spelling `--name V` / `-n V` of such an occurrence must not be accepted
                aj = 0
                for ix, p in enumerate(pieces):
                    if p.kind != "chunk" or p.chunk.node["k"] != "arg" or not p.chunk.node["adjacent"] or p.chunk.value is None:
                        continue
                    if not common.standalone(p.chunk.value) or aj >= 2:
                        continue
                    n_ = p.chunk.node["n"]
                    keys = [b"--" + l.encode() for l in n_["long"]] + [b"-" + c.encode() for c in n_["short"]]
                    key = rng.choice(keys)
                    argv = gen.flatten(pieces[:ix]) + [key, p.chunk.value] + gen.flatten(pieces[ix + 1:])
                    cases.append(Case("%sa%d" % (gid, aj), opts, argv, tags={"role": "adjacent-sep", "group": gid, "key": key,
                                                                            "value": p.chunk.value}))
                    aj += 1
                # clusters: merge runs of single short flags
                argv2, merged = self.cluster(pieces)
                if merged:
                    cases.append(Case(gid + "c", opts, argv2, tags={"role": "cluster", "group": gid, "letters": merged}))
        return cases

    @staticmethod
    def cluster(pieces):
        """Merge maximal runs of adjacent single-short-flag chunks (`-a -b` -> `-ab`); a run may end in a
        short argument written `-n value` or `-nvalue` (`-a -n v` -> `-an v`, `-a -nv` -> `-anv`)."""
        out, run, merged = [], [], []

        def flush(tail=None):
            letters = b"".join(r[1:] for r in run)
            if tail is not None and run:
                first, rest = tail[0], tail[1:]
                out.append(b"-" + letters + first[1:])
                out.extend(rest)
                merged.append(letters + first[1:])
            elif len(run) >= 2:
                out.append(b"-" + letters)
                merged.append(letters)
            else:
                out.extend(run)
                if tail is not None:
                    out.extend(tail)
            del run[:]
        for p in pieces:
            it = p.items
            if p.kind == "chunk" and p.chunk.node["k"] == "flag" and len(it) == 1 and it[0].startswith(b"-") \
                    and not it[0].startswith(b"--") and len(it[0].decode("utf-8", "ignore")) == 2:
                run.append(it[0])
            elif p.kind == "chunk" and p.chunk.node["k"] == "arg" and p.chunk.form in ("short_sep", "short_adj") and run \
                    and common.is_utf8(it[0]) and b"=" not in it[0]:
                flush(tail=list(it))
            else:
                flush()
                out.extend(it)
        flush()
        return out, merged

    def judge(self, cases, model, impl):
        out = []
        base = {}
        nontrivial = []
        dist = {}
        for c in cases:
            r = compare.agree_class_value(model.get(c.id), impl.get(c.id))
            if r:
                out.append(Finding("disagree", c, r))
            if c.tags.get("role") == "base":
                base[c.tags["group"]] = c
        for c in cases:
            role = c.tags.get("role")
            if role not in ("respell", "cluster"):
                continue
            b = base.get(c.tags["group"])
            if b is None:
                continue
            key = role + ":" + c.tags.get("form", "")
            dist[key] = dist.get(key, 0) + 1
            if compare.impl_class(impl.get(b.id)) == "OK":
                nontrivial.append(c.line())
            if not common.same_outcome(impl.get(b.id), impl.get(c.id)):
                what = "respelling one occurrence (%s -> %s, value %r)" % (c.tags.get("from"), c.tags.get("form"), c.tags.get("value")) \
                    if role == "respell" else "clustering short flags %r" % (c.tags.get("letters"),)
                out.append(Finding("violation", c, "%s changed the outcome: %s  vs  %s" % (
                    what, common.show(impl.get(b.id)), common.show(impl.get(c.id))), related=[b]))
        for c in cases:
            if c.tags.get("role") == "adjacent-sep":
                dist["adjacent-sep"] = dist.get("adjacent-sep", 0) + 1
                nontrivial.append(c.line())
                if compare.impl_class(impl.get(c.id)) == "OK":
                    out.append(Finding("violation", c, "an argument restricted with `adjacent` was given as two items (%r %r) and the line "
                                                       "is accepted: %s" % (c.tags["key"], c.tags["value"], impl.get(c.id)[1][:300])))
        pairs = {}
        for c in cases:
            if c.tags.get("role", "").startswith("bytes-"):
                pairs.setdefault(c.tags["pair"], {})[c.tags["role"][-1]] = c
        for pr in pairs.values():
            if "a" not in pr or "b" not in pr:
                continue
            ca, cb = pr["a"], pr["b"]
            ia, ib = impl.get(ca.id), impl.get(cb.id)
            dist["bytes:" + ca.tags["form"]] = dist.get("bytes:" + ca.tags["form"], 0) + 1
            pa, pb = common.impl_cv(ia), common.impl_cv(ib)
            if pa[0] == "OK":
                nontrivial.append(cb.line())
                want = pa[1].replace("(bytes %s)" % gen.hx(ca.tags["value"]), "(bytes %s)" % gen.hx(cb.tags["value"]))
                if pb[0] != "OK" or pb[1] != want:
                    out.append(Finding("violation", cb, "an OsString/PathBuf argument given %r is accepted, given the bytes %r in the same "
                                                        "place and spelling (%s) it is not delivered byte for byte: %s  vs  %s"
                                       % (ca.tags["value"], cb.tags["value"], ca.tags["form"], common.show(ia), common.show(ib)), related=[ca]))
        stats = {"nontrivial_ids": nontrivial, "distribution": dist,
                 "rule": "random definitions x sentences; every argument occurrence respelled into every other admissible "
                         "spelling (long/short x separated/=/adjacent; separated only for values that tokenize as a word), "
                         "values drawn from an adversarial byte-string list; runs of short flags clustered; "
                         "non-trivial = respelling of a line the implementation accepted"}
        return out, stats

    def known_class(self, cls, f):
        c = f.case
        if c.opts is None:
            return False
        cases = [c] + list(f.related)
        if cls == "short_adj_non_utf8":
            return any(self._uses_short_adj_non_utf8(x) for x in cases)
        if cls == "hidden_short":
            # a short name declared under hide() is unknown to the tokenizer: `-Qv` / `-aQ` spellings of it
            hidden = set()
            for x in gen.walk(c.opts):
                if x["k"] == "hide":
                    for y in gen.walk(x["p"]):
                        if y["k"] in ("flag", "arg"):
                            hidden.update(y["n"]["short"])
            for x in cases:
                for a in x.argv:
                    if a.startswith(b"-") and not a.startswith(b"--") and len(a) > 2:
                        try:
                            txt = a[1:].decode("utf-8")
                        except UnicodeDecodeError:
                            continue
                        if txt[1:2] != "=" and any(ch in hidden for ch in txt.split("=")[0]):
                            return True
            return False
        return False

    @staticmethod
    def _short_args(case):
        return [c for x in gen.walk(case.opts) if x["k"] == "arg" for c in x["n"]["short"]] if case.opts else []

    def _uses_short_eq_multibyte(self, case):
        for c in self._short_args(case):
            cb = c.encode()
            if len(cb) > 1 and any(a.startswith(b"-" + cb) and b"=" in a for a in case.argv):
                return True
        return False

    def _uses_short_adj_non_utf8(self, case):
        for c in self._short_args(case):
            cb = c.encode()
            for a in case.argv:
                if a.startswith(b"-" + cb) and not a.startswith(b"-" + cb + b"=") and len(a) > 1 + len(cb) \
                        and not common.is_utf8(a):
                    return True
        return False

    def directed_search(self, rng, f):
        return []


PROP = C02()
