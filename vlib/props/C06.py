"""C06 -- Absent is not invalid: defaults never mask bad values."""
from .. import gen, compare, common
from ..prop import Property, Case, Finding

INT_ERRS = [b"invalid digit found in string", b"cannot parse integer from empty string",
            b"number too large to fit in target type", b"number too small to fit in target type"]


def invalid_for(rng, node_chain):
    """(bad value bytes, expected error text fragments) for the leaf argument under its guard/parse chain."""
    leaf = node_chain[0]
    ty = leaf["ty"]
    if ty in ("u32", "i64"):
        v = rng.choice([b"x", b"12x", b"", b"1.5", b"99999999999999999999999", b"0x10", b" 1", b"+", b"\xff1"])
        if v == b"\xff1":
            return v, [b"is not a valid utf8"]
        return v, INT_ERRS
    if ty == "string":
        return rng.choice([b"\xff", b"a\xc3", b"ok\x80"]), [b"is not a valid utf8"]
    return None, None


def chain_of(p):
    """From a wrapper stack down to its leaf: returns (leaf, [guard/parse nodes], under_alt)"""
    stack = []
    cur = p
    while cur["k"] not in ("arg", "flag", "pos", "cmd", "con", "adj", "alt", "pure", "fail", "pure-with", "anyp"):
        stack.append(cur)
        cur = cur["p"]
    return cur, stack


def enclosing_cmds(p, target, acc=()):
    """The command nodes enclosing `target` (outermost first), or None when it is not below `p`."""
    if p is target:
        return list(acc)
    if p.get("k") == "cmd":
        acc = acc + (p,)
    for c in gen.children(p):
        r = enclosing_cmds(c, target, acc)
        if r is not None:
            return r
    return None


class C06(Property):
    pid = "C06"
    exact_text = True
    quick_n = 3000
    thorough_n = 120000
    partial = []

    def generate(self, rng, tier, n):
        cases = []
        # one definition + line per arm of Message::render: the texts are compared byte for byte
        for r in range(3 if tier == "quick" else 100):
            for i, (tag, opts, argv, unset) in enumerate(gen.message_cases(rng)):
                cases.append(Case("m%d_%d" % (r, i), opts, argv, unset=unset, tags={"role": "msg", "group": "m%d_%d" % (r, i), "msg": tag}))
        k = 0
        while len(cases) < n:
            if rng.random() < 0.08:
                cases.extend(self.absent_family(rng, k))
                k += 1
                continue
            opts, names = gen.gen_options(rng, features=("alt", "cmd", "pos", "adj", "grp"), env_p=0.15, allow_catch=False)
            in_alt = set()
            for x in gen.walk(opts):
                if x["k"] == "alt":
                    for y in gen.walk(x):
                        in_alt.add(id(y))
            guards = {}
            for x in gen.walk(opts):
                if x["k"] in ("guard", "parse"):
                    leaf, _ = chain_of(x)
                    guards.setdefault(id(leaf), []).append(x)
            for _ in range(3):
                pieces = gen.gen_pieces(rng, opts)
                gid = "g%d" % k
                k += 1
                base = gen.flatten(pieces)
                cases.append(Case(gid + "b", opts, base, tags={"role": "base", "group": gid}))
                j = 0
                for ix, p in enumerate(pieces):
                    if p.kind != "chunk" or p.chunk.node["k"] != "arg" or p.chunk.value is None:
                        continue
                    node = p.chunk.node
                    # (1) conversion failure
                    bad, frags = invalid_for(rng, [node])
                    variants = []
                    if bad is not None:
                        variants.append((bad, frags, "convert"))
                    # (2) guard / parse failure with a convertible value
                    for g in guards.get(id(node), []):
                        if g["k"] == "guard" and g["menu"] == 2 and node["ty"] in ("u32", "i64"):
                            variants.append((b"55", [g["msg"].encode()], "guard"))
                        if g["k"] == "guard" and g["menu"] == 3 and node["ty"] in ("string", "osstring", "pathbuf"):
                            variants.append((b"", [g["msg"].encode()], "guard"))
                        if g["k"] == "parse" and g["menu"] == 3 and node["ty"] in ("u32", "i64"):
                            variants.append((b"777", [g["txt"].encode()], "parse"))
                    for bad, frags, why in variants:
                        # keep the token shape: use an attached spelling so that any bytes are a value
                        name = (b"--" + node["n"]["long"][0].encode()) if node["n"]["long"] else (b"-" + node["n"]["short"][0].encode())
                        items = [name + b"=" + bad]
                        argv = gen.flatten(pieces[:ix]) + items + gen.flatten(pieces[ix + 1:])
                        cases.append(Case("%sv%d" % (gid, j), opts, argv,
                                          tags={"role": "bad", "group": gid, "why": why, "frags": frags, "value": bad,
                                                "in_alt": id(node) in in_alt}))
                        j += 1
                # env-supplied invalid value for an absent env-backed numeric argument of a command level the line ENTERS
                # (an item of a subcommand that is not on the line is never evaluated: its variable is not "present")
                entered = [p.node for p in pieces if p.kind == "cmdname"]
                for x in gen.walk(opts):
                    if x["k"] == "arg" and x["n"]["env"] and x["ty"] in ("u32", "i64"):
                        path = enclosing_cmds(opts, x)
                        if path is None or not all(any(c is e for e in entered) for c in path):
                            continue
                        if not any(p.kind == "chunk" and p.chunk.node is x for p in pieces):
                            # (a variable that is SET to the empty string is present: the empty text fails conversion)
                            bad = rng.choice([b"notanumber", b"", b"", b" 5", b"5 "])
                            cases.append(Case("%se%d" % (gid, j), opts, base, env=[(x["n"]["env"][0].encode(), bad)],
                                              tags={"role": "badenv", "group": gid, "frags": INT_ERRS, "in_alt": id(x) in in_alt,
                                                    "value": bad}))
                            j += 1
                            break
        return cases

    @staticmethod
    def absent_family(rng, k):
        """A defaulted item that can come from an environment variable (with or without a name on the line), absent from the
        line: with the variable set to a valid value the line is accepted -- then with the variable unset it must be too."""
        names = gen.Names(rng)
        var = "BPAF_VT_A"
        n = gen.named([], [], [var], None) if rng.random() < 0.6 else gen.named([names.short()], [], [var], None)
        if rng.random() < 0.6:
            leaf, val = gen.arg(n, "N", "u32"), b"7"
        else:
            leaf, val = gen.req_flag(n, "unit"), b"1"
        w = rng.choice(["fallback", "fallback-with", "optional", "many"])
        if w == "fallback":
            item = gen.wrap("fallback", leaf, v=gen.vnum(4), show=False)
        elif w == "fallback-with":
            item = gen.wrap("fallback-with", leaf, r="(ok unit)")
        elif w == "optional":
            item = gen.wrap("optional", leaf, catch=False)
        else:
            item = gen.wrap("many", leaf, catch=False)
        other = gen.flag(names.named())
        fields = [item, other]
        rng.shuffle(fields)
        opts = gen.options(gen.con(*fields), descr="Lab")
        argv = [gen.spell_flag(rng, other)] if rng.random() < 0.5 else []
        gid = "g%dz" % k
        out = [Case(gid + "s", opts, argv, env=[(var.encode(), val)], tags={"role": "defaulted-set", "group": gid, "wrap": w}),
               Case(gid + "u", opts, argv, unset=[var.encode()], tags={"role": "defaulted-unset", "group": gid, "wrap": w})]
        if leaf["k"] == "arg":
            # the variable SET to a text that is not a number (the empty text included): present but invalid, never the default
            bad = rng.choice([b"", b"", b"many", b" 7"])
            out.append(Case(gid + "e", opts, argv, env=[(var.encode(), bad)],
                            tags={"role": "defaulted-bad", "group": gid, "wrap": w, "value": bad}))
        return out

    def judge(self, cases, model, impl):
        out, base, nontrivial, dist = [], {}, [], {}
        dset = {c.tags["group"]: c for c in cases if c.tags.get("role") == "defaulted-set"}
        for c in cases:
            if c.tags.get("role") == "defaulted-unset":
                dist["defaulted:" + c.tags["wrap"]] = dist.get("defaulted:" + c.tags["wrap"], 0) + 1
                cs = dset.get(c.tags["group"])
                if cs is not None and compare.impl_class(impl.get(cs.id)) == "OK":
                    nontrivial.append(c.line())
                    if compare.impl_class(impl.get(c.id)) != "OK":
                        out.append(Finding("violation", c, "an absent defaulted item (`%s`, variable unset) makes the run fail: %s (with the "
                                                           "variable set the same line is accepted: %s)"
                                           % (c.tags["wrap"], common.show(impl.get(c.id)), common.show(impl.get(cs.id))), related=[cs]))
        for c in cases:
            if c.tags.get("role") == "defaulted-bad":
                dist["defaulted-bad:" + c.tags["wrap"]] = dist.get("defaulted-bad:" + c.tags["wrap"], 0) + 1
                cs = dset.get(c.tags["group"])
                if cs is not None and compare.impl_class(impl.get(cs.id)) == "OK":
                    nontrivial.append(c.line())
                    ic = impl.get(c.id)
                    if compare.impl_class(ic) == "OK":
                        out.append(Finding("violation", c, "the declared variable holds %r, which is not a number, yet the `%s` default "
                                                           "masks it: the run yields %s" % (c.tags["value"], c.tags["wrap"], ic[1]), related=[cs]))
                    elif compare.impl_class(ic) == "STDERR" and not any(f in gen.unhx(ic[1]) for f in INT_ERRS):
                        out.append(Finding("violation", c, "the failure message does not carry the conversion text: %r"
                                           % gen.unhx(ic[1])[:200], related=[cs]))
        for c in cases:
            r = compare.agree_class_value(model.get(c.id), impl.get(c.id))
            if r:
                out.append(Finding("disagree", c, r))
            if c.tags.get("role") == "base":
                base[c.tags["group"]] = c
        for c in cases:
            role = c.tags.get("role")
            if role not in ("bad", "badenv"):
                continue
            b = base.get(c.tags["group"])
            key = role + ":" + c.tags.get("why", "")
            dist[key] = dist.get(key, 0) + 1
            if b is None or compare.impl_class(impl.get(b.id)) != "OK":
                continue
            nontrivial.append(c.line())
            ic = impl.get(c.id)
            cls = compare.impl_class(ic)
            if role == "badenv":
                # the base line is accepted with the variable unset; with an invalid value in the declared variable and the
                # item absent the run must fail -- unless some other item of the line made the argument irrelevant
                # (it sits in an alternative that was not taken): restrict to arguments outside alternatives
                if c.tags["in_alt"]:
                    continue
            if cls == "OK":
                out.append(Finding("violation", c,
                                   "a present but invalid value (%s) was masked: the run still yields %s" %
                                   (("value %r fails %s" % (c.tags.get("value"), c.tags.get("why"))) if role == "bad" else
                                    "declared environment variable set to %r" % c.tags.get("value"), ic[1]), related=[b]))
            elif cls == "STDERR" and not c.tags["in_alt"]:
                text = gen.unhx(ic[1])
                if not any(f in text for f in c.tags["frags"]):
                    out.append(Finding("violation", c,
                                       "the failure message does not carry the conversion/guard text (expected one of %r): %r" %
                                       (c.tags["frags"], text[:200]), related=[b]))
            elif cls == "HELP" and not c.argv and c.opts.get("fallback_to_usage"):
                # `fallback_to_usage`: a failure on an EMPTY line prints the usage screen instead -- not a value either
                dist["usage_instead_of_failure"] = dist.get("usage_instead_of_failure", 0) + 1
            elif cls not in ("STDERR",):
                out.append(Finding("violation", c, "a present but invalid value produced %s instead of an stderr failure" % cls,
                                   related=[b]))
        stats = {"nontrivial_ids": nontrivial, "distribution": dist,
                 "rule": "random definitions with wrapper stacks over typed arguments (optional/many/some/fallback/"
                         "fallback_with/count/last/guard/parse; in construct!, alternatives, subcommands, adjacent groups) x "
                         "accepted sentences x each typed occurrence replaced by a value failing conversion / guard / parse "
                         "(attached spelling, so the token shape is preserved) and invalid values in declared environment "
                         "variables; non-trivial = replacement in a line the implementation accepted"}
        return out, stats


PROP = C06()
