"""C18 -- Environment variables are a fallback below the command line."""
from .. import gen, compare, common
from ..prop import Property, Case, Finding

UNDECLARED = [b"BPAF_VT_UNDECL1", b"BPAF_VT_UNDECL2", b"HOME_VT_X"]
ENVVALS = {"u32": [b"5", b"42", b"", b"notnum", b"\xff"], "i64": [b"-3", b"77", b"x"], "string": [b"envs", b"", b"\xfe"],
           "osstring": [b"envo", b"", b"\xfe\xff"], "pathbuf": [b"/e", b""]}


class C18(Property):
    pid = "C18"
    quick_n = 3000
    thorough_n = 120000

    def generate(self, rng, tier, n):
        cases = []
        k = 0
        while len(cases) < n:
            opts, names = gen.gen_options(rng, features=("alt", "cmd", "pos"), env_p=0.6, allow_catch=False)
            envd = [x for x in gen.walk(opts) if x["k"] in ("flag", "arg") and x["n"]["env"]]
            if not envd:
                continue
            all_env = [e.encode() for x in envd for e in x["n"]["env"]]
            for _ in range(3):
                gid = "g%d" % k
                k += 1
                pieces = gen.gen_pieces(rng, opts, present_p=0.5)
                base = gen.flatten(pieces)
                # random environment state for the declared variables
                env = []
                for x in envd:
                    if rng.random() < 0.5:
                        ty = x["ty"] if x["k"] == "arg" else "string"
                        env.append((x["n"]["env"][0].encode(), rng.choice(ENVVALS[ty])))
                unset = [e for e in all_env if e not in [a for a, _ in env]] + UNDECLARED
                cases.append(Case(gid + "b", opts, base, env=env, unset=unset, tags={"role": "base", "group": gid}))
                # (1) undeclared variables change nothing
                extra = [(u, rng.choice([b"1", b"", b"zz", b"\xff"])) for u in UNDECLARED if rng.random() < 0.7] or [(UNDECLARED[0], b"q")]
                cases.append(Case(gid + "u", opts, base, env=env + extra, unset=[u for u in unset if u not in [a for a, _ in extra]],
                                  tags={"role": "undeclared", "group": gid}))
                # (2) an item present on the line: its variable is irrelevant
                present = [p.chunk.node for p in pieces if p.kind == "chunk" and p.chunk.node in envd]
                if present:
                    x = rng.choice(present)
                    var = x["n"]["env"][0].encode()
                    ty = x["ty"] if x["k"] == "arg" else "string"
                    env2 = [(a, b) for a, b in env if a != var]
                    for j, val in enumerate([None] + rng.sample(ENVVALS[ty], 2)):
                        e3 = env2 + ([(var, val)] if val is not None else [])
                        cases.append(Case("%sp%d" % (gid, j), opts, base, env=e3,
                                          unset=[e for e in all_env if e not in [a for a, _ in e3]] + UNDECLARED,
                                          tags={"role": "present", "group": gid, "var": var, "val": val}))
                # (4) an item with several declared variables, absent from the line: which ONE of them is set does not matter
                multi = [x for x in envd if len(x["n"]["env"]) >= 2 and x not in present]
                if multi:
                    x = rng.choice(multi)
                    ty = x["ty"] if x["k"] == "arg" else "string"
                    val = rng.choice(ENVVALS[ty])
                    own = [e.encode() for e in x["n"]["env"]]
                    env2 = [(a, b) for a, b in env if a not in own]
                    for j, var in enumerate(own[:2]):
                        e3 = env2 + [(var, val)]
                        cases.append(Case("%sm%d" % (gid, j), opts, base, env=e3,
                                          unset=[e for e in all_env if e not in [a for a, _ in e3]] + UNDECLARED,
                                          tags={"role": "multi", "group": gid, "var": var, "val": val}))
                # (3) an env-backed argument absent from the line with the variable set  ==  the same line with
                #     `--name=value` added and the variable unset (single-valued contexts and repetitions alike)
                absent = [x for x in envd if x["k"] == "arg" and x not in present]
                if absent:
                    x = rng.choice(absent)
                    var = x["n"]["env"][0].encode()
                    val = rng.choice(ENVVALS[x["ty"]])
                    key = (b"--" + x["n"]["long"][0].encode()) if x["n"]["long"] else (b"-" + x["n"]["short"][0].encode())
                    env2 = [(a, b) for a, b in env if a != var]
                    # the occurrence goes at the level that declares it: prepend when declared at top level
                    top_named = [y for y in self.top_level_leaves(opts)]
                    # fallback_to_usage turns any failure on an EMPTY line into the usage text: adding the item to an
                    # empty line changes that premise, not the variable's meaning -- no relation is claimed there
                    # (there only one direction is claimed: when the line holding the item is ACCEPTED, the empty line with the
                    # variable set is accepted with the same value -- the parser succeeds, so the usage fallback does not apply)
                    ftu = bool(opts.get("fallback_to_usage") and not base)
                    if x in top_named:
                        cases.append(Case(gid + "e", opts, base, env=env2 + [(var, val)],
                                          unset=[e for e in all_env if e not in [a for a, _ in env2] and e != var] + UNDECLARED,
                                          tags={"role": "envset", "group": gid, "var": var, "val": val, "ftu": ftu}))
                        cases.append(Case(gid + "l", opts, [key + b"=" + val] + base, env=env2,
                                          unset=[e for e in all_env if e not in [a for a, _ in env2]] + UNDECLARED,
                                          tags={"role": "lineset", "group": gid, "var": var, "val": val}))
        return cases

    @staticmethod
    def top_level_leaves(opts):
        out = []

        def go(p):
            if p["k"] == "cmd":
                return
            if p["k"] in ("flag", "arg"):
                out.append(p)
            for c in gen.children(p):
                go(c)
        go(opts["p"])
        return out

    def judge(self, cases, model, impl):
        out, nontrivial, dist, by = [], [], {}, {}
        for c in cases:
            r = compare.agree_class_value(model.get(c.id), impl.get(c.id))
            if r:
                out.append(Finding("disagree", c, r))
            by.setdefault(c.tags["group"], {}).setdefault(c.tags["role"], []).append(c)
        for gid, roles in by.items():
            b = roles["base"][0]
            for c in roles.get("undeclared", []):
                dist["undeclared"] = dist.get("undeclared", 0) + 1
                nontrivial.append(c.line())
                if impl.get(b.id) != impl.get(c.id):
                    out.append(Finding("violation", c, "setting variables the parser does not declare changed the outcome: %s  vs  %s"
                                       % (common.show(impl.get(b.id)), common.show(impl.get(c.id))), related=[b]))
            pres = roles.get("present", [])
            for c in pres[1:]:
                dist["present"] = dist.get("present", 0) + 1
                nontrivial.append(c.line())
                if not common.same_outcome(impl.get(pres[0].id), impl.get(c.id)):
                    out.append(Finding("violation", c, "the item is on the command line, yet its variable %r=%r changed the outcome: "
                                                       "%s  vs  %s" % (c.tags["var"], c.tags["val"], common.show(impl.get(pres[0].id)),
                                                                       common.show(impl.get(c.id))), related=[pres[0]]))
            mul = roles.get("multi", [])
            if len(mul) == 2:
                dist["which-variable"] = dist.get("which-variable", 0) + 1
                nontrivial.append(mul[0].line())
                if not common.same_outcome(impl.get(mul[0].id), impl.get(mul[1].id)):
                    out.append(Finding("violation", mul[1], "an absent item declares the variables %r and %r; with only the second one "
                                                            "set (=%r) the outcome differs from only the first one set: %s  vs  %s"
                                       % (mul[0].tags["var"], mul[1].tags["var"], mul[1].tags["val"],
                                          common.show(impl.get(mul[0].id)), common.show(impl.get(mul[1].id))), related=[mul[0]]))
            if roles.get("envset") and roles.get("lineset"):
                e, l = roles["envset"][0], roles["lineset"][0]
                dist["env=line"] = dist.get("env=line", 0) + 1
                nontrivial.append(e.line())
                if e.tags.get("ftu") and compare.impl_class(impl.get(l.id)) != "OK":
                    dist["env=line skipped (empty line under fallback_to_usage, line with the item not accepted)"] = \
                        dist.get("env=line skipped (empty line under fallback_to_usage, line with the item not accepted)", 0) + 1
                elif not common.same_outcome(impl.get(e.id), impl.get(l.id)):
                    out.append(Finding("violation", e, "an absent argument with %r=%r in the environment does not behave like the same "
                                                       "value given once on the line: %s  vs  %s" % (e.tags["var"], e.tags["val"],
                                                                                                     common.show(impl.get(e.id)),
                                                                                                     common.show(impl.get(l.id))), related=[l]))
        stats = {"nontrivial_ids": nontrivial, "distribution": dist,
                 "rule": "definitions with env-backed flags/arguments under random wrappers x sentences x environment states "
                         "(unset/empty/valid/invalid/non-UTF-8) of declared and undeclared variables; metamorphic: undeclared "
                         "variables inert; item on the line makes its variable irrelevant; absent item + variable = item given once"}
        return out, stats


    def known_class(self, cls, f):
        if f.kind != "violation" or f.case.opts is None:
            return False
        t = f.case.tags
        if t.get("role") != "present":
            return False
        var = t["var"].decode()
        if cls == "hidden_short":
            # the variable's item is declared under hide() and stands on the line only as a `-Xvalue` / `-aX` cluster:
            # the tokenizer does not know the hidden short name (C02-hidden-short), reads a plain word, and the item is
            # absent as far as bpaf can tell -- so the variable is consulted although the user gave a value
            hidden = set()
            for x in gen.walk(f.case.opts):
                if x["k"] == "hide":
                    for y in gen.walk(x["p"]):
                        if y["k"] in ("flag", "arg") and var in y["n"]["env"]:
                            hidden.update(y["n"]["short"])
            if not hidden:
                return False
            for a in f.case.argv:
                if a.startswith(b"-") and not a.startswith(b"--") and len(a) > 2:
                    try:
                        txt = a[1:].decode("utf-8")
                    except UnicodeDecodeError:
                        continue
                    if txt[1:2] != "=" and any(ch in hidden for ch in txt.split("=")[0]):
                        return True
            return False
        if cls != "invalid_env_under_repetition":
            return False
        # the variable's argument sits under a repeating wrapper: after the occurrences on the line are used up the
        # loop evaluates the argument once more, now reading the variable
        def under_rep(p, rep):
            if p["k"] in ("flag", "arg") and var in p["n"]["env"]:
                return rep
            r = rep or p["k"] in ("many", "some", "collect", "count", "last")
            return any(under_rep(c, r) for c in gen.children(p))
        if not under_rep(f.case.opts, False):
            return False
        # and the outcome with the variable set is a failure (its value does not pass the conversion chain)
        return "STDERR" in f.detail.split(" vs ")[-1]


PROP = C18()
