"""Build and run infrastructure shared by all property checks."""
import hashlib
import json
import os
import subprocess
import sys
import time
from concurrent.futures import ThreadPoolExecutor

ROOT = os.path.dirname(os.path.dirname(os.path.abspath(__file__)))
REPO = os.environ.get("VERIF_REPO", "/repo")
CACHE = os.path.join(ROOT, ".cache")
COQ = os.path.join(ROOT, "coq")
OCAML_DIR = os.path.join(CACHE, "ocaml")
VPMODEL = os.path.join(OCAML_DIR, "vpmodel")
NPROC = int(os.environ.get("VERIF_JOBS", "16"))

OFFLINE_ENV = dict(os.environ, CARGO_NET_OFFLINE="true")


class BuildError(Exception):
    pass


def sh(cmd, cwd=None, timeout=3600, env=None, check=True):
    p = subprocess.run(cmd, cwd=cwd, shell=isinstance(cmd, str), stdout=subprocess.PIPE,
                       stderr=subprocess.STDOUT, timeout=timeout, env=env or OFFLINE_ENV)
    out = p.stdout.decode("utf-8", "replace")
    if check and p.returncode != 0:
        raise BuildError("command failed (%s): %s\n%s" % (p.returncode, cmd, out[-4000:]))
    return p.returncode, out


def file_hash(paths):
    h = hashlib.sha256()
    for p in sorted(paths):
        h.update(p.encode())
        with open(p, "rb") as f:
            h.update(f.read())
    return h.hexdigest()


def list_files(d, suffix):
    out = []
    for base, _, files in os.walk(d):
        for f in files:
            if f.endswith(suffix):
                out.append(os.path.join(base, f))
    return out


# ---------------------------------------------------------------- tie (a): generated tables
def gen_tables():
    """Regenerate coq/Gen/*.v from /repo/src/error.rs. Returns (ok, message)."""
    rc, out = sh([sys.executable, os.path.join(ROOT, "tools", "gen_tables.py")], check=False)
    return rc == 0, out.strip()


# ---------------------------------------------------------------- Coq
def coq_make(targets=None, timeout=3000):
    """Full .vo build of the requested targets (default: everything). Returns (ok, log)."""
    if not os.path.exists(os.path.join(COQ, "Makefile")) or \
            os.path.getmtime(os.path.join(COQ, "Makefile")) < os.path.getmtime(os.path.join(COQ, "_CoqProject")):
        sh("coq_makefile -f _CoqProject -o Makefile", cwd=COQ)
    cmd = ["make", "-j%d" % NPROC] + (targets or [])
    rc, out = sh(cmd, cwd=COQ, timeout=timeout, check=False)
    return rc == 0, out


def audit_sources():
    """Grep the development for forbidden constructs. Returns list of offending lines."""
    bad = []
    pats = ["Admitted", "admit", "Axiom", "Parameter", "Conjecture", "Unset Guard", "bypass_check",
            "-type-in-type", "Admit Obligations", "Hypothesis", "Variable "]
    import re
    rx = re.compile(r"\b(Admitted|admit|Axiom|Parameter|Conjecture|Parameters|Axioms)\b|Unset Guard|bypass_check|type-in-type|Admit Obligations|impredicative-set")
    for f in list_files(COQ, ".v"):
        in_section = 0
        comment = 0
        for i, line in enumerate(open(f, encoding="utf-8")):
            # crude comment stripping (comments are (* .. *) possibly nested)
            stripped = ""
            j = 0
            while j < len(line):
                if line.startswith("(*", j):
                    comment += 1
                    j += 2
                elif line.startswith("*)", j) and comment:
                    comment -= 1
                    j += 2
                else:
                    if not comment:
                        stripped += line[j]
                    j += 1
            s = stripped.strip()
            if s.startswith("Section "):
                in_section += 1
            if s.startswith("End ") and in_section:
                in_section -= 1
            if rx.search(stripped):
                bad.append("%s:%d: %s" % (os.path.relpath(f, ROOT), i + 1, s))
            if s.split(" ")[0] in ("Variable", "Variables", "Context", "Hypothesis", "Hypotheses") and not in_section:
                bad.append("%s:%d: %s (outside a section)" % (os.path.relpath(f, ROOT), i + 1, s))
    return bad


# ---------------------------------------------------------------- extraction + OCaml runner
def ensure_vpmodel():
    """(Re)extract the model and build the OCaml runner when the model sources changed."""
    os.makedirs(OCAML_DIR, exist_ok=True)
    srcs = list_files(os.path.join(COQ, "Model"), ".v") + list_files(os.path.join(COQ, "Gen"), ".v") + \
        [os.path.join(COQ, "Extract.v"), os.path.join(ROOT, "ocaml", "vpmodel.ml")]
    h = file_hash(srcs)
    stamp = os.path.join(OCAML_DIR, "stamp")
    if os.path.exists(stamp) and open(stamp).read() == h and os.path.exists(VPMODEL):
        return False
    ok, log = coq_make(["Model/Menu.vo", "Model/Eval.vo"] + model_extra_targets())
    if not ok:
        raise BuildError("coq model build failed:\n" + log[-4000:])
    sh(["coqc", "-Q", os.path.join(COQ, "Model"), "BpafModel", "-Q", os.path.join(COQ, "Gen"), "BpafGen",
        os.path.join(COQ, "Extract.v"), "-o", os.path.join(OCAML_DIR, "Extract.vo")], cwd=OCAML_DIR)
    sh(["cp", os.path.join(ROOT, "ocaml", "vpmodel.ml"), OCAML_DIR])
    sh("ocamlfind ocamlopt -O3 -w -a model.mli model.ml vpmodel.ml -o vpmodel", cwd=OCAML_DIR)
    open(stamp, "w").write(h)
    return True


def model_extra_targets():
    """Model/*.vo files Extract.v needs beyond Eval/Menu (everything listed in _CoqProject under Model/)."""
    out = []
    for line in open(os.path.join(COQ, "_CoqProject")):
        line = line.strip()
        if line.startswith("Model/") and line.endswith(".v"):
            out.append(line[:-2] + ".vo")
    return out


# ---------------------------------------------------------------- Rust driver
def driver_path(name="driver", profile="debug"):
    return os.path.join(CACHE, "cargo-target", name, profile, name)


def ensure_driver(name="driver", release=False, rustflags=None):
    """cargo build the harness crate `name` against /repo's working tree (offline)."""
    d = os.path.join(ROOT, "harness", name)
    lock = os.path.join(d, "Cargo.lock")
    if not os.path.exists(lock):
        sh(["cp", os.path.join(REPO, "Cargo.lock"), lock])
    env = dict(OFFLINE_ENV)
    if rustflags:
        env["RUSTFLAGS"] = rustflags
    cmd = ["cargo", "build", "--offline", "--quiet"] + (["--release"] if release else [])
    rc, out = sh(cmd, cwd=d, env=env, check=False, timeout=1800)
    if rc != 0:
        raise BuildError("cargo build of harness/%s failed:\n%s" % (name, out[-6000:]))
    return driver_path(name, "release" if release else "debug")


FEATURE_SETS = {
    "none": [],
    "autocomplete": ["autocomplete"],
    "full": ["autocomplete", "docgen", "batteries"],
    "dull": ["dull-color"],
    "bright": ["bright-color"],
}


def ensure_driver_variant(tag):
    """The same driver crate built against /repo with another cargo feature set of bpaf (C20)."""
    d = os.path.join(ROOT, "harness", "driver")
    lock = os.path.join(d, "Cargo.lock")
    if not os.path.exists(lock):
        sh(["cp", os.path.join(REPO, "Cargo.lock"), lock])
    tdir = os.path.join(CACHE, "cargo-target-feat", tag)
    env = dict(OFFLINE_ENV, CARGO_TARGET_DIR=tdir)
    feats = FEATURE_SETS[tag]
    cmd = ["cargo", "build", "--offline", "--quiet", "--no-default-features"] + (["--features", ",".join(feats)] if feats else [])
    rc, out = sh(cmd, cwd=d, env=env, check=False, timeout=1800)
    if rc != 0:
        raise BuildError("cargo build of harness/driver [%s] failed:\n%s" % (tag, out[-6000:]))
    return os.path.join(tdir, "debug", "driver")


# ---------------------------------------------------------------- running cases
def _chunks(lines, k, per=200):
    n = len(lines)
    k = max(1, min(k, (n + per - 1) // per))
    size = (n + k - 1) // k
    return [lines[i:i + size] for i in range(0, n, size)]


def _parse_out(text):
    res = {}
    for line in text.splitlines():
        parts = line.split("\t")
        if len(parts) >= 2:
            res[parts[0]] = parts[1:]
    return res


def run_model(case_lines, tag="m", per=200):
    """Evaluate cases with the extracted model. Returns {id: [CLASS, payload...]}."""
    os.makedirs(os.path.join(CACHE, "work"), exist_ok=True)
    chunks = _chunks(case_lines, NPROC, per)

    def one(ix_chunk):
        ix, chunk = ix_chunk
        path = os.path.join(CACHE, "work", "%s_%d_%d.cases" % (tag, os.getpid(), ix))
        with open(path, "w") as f:
            f.write("\n".join(chunk) + "\n")
        p = subprocess.run(["bash", "-c", "ulimit -s unlimited 2>/dev/null; exec %s %s" % (VPMODEL, path)],
                           stdout=subprocess.PIPE, stderr=subprocess.PIPE, timeout=3600)
        os.unlink(path)
        if p.returncode != 0:
            raise BuildError("vpmodel crashed (%d): %s" % (p.returncode, p.stderr.decode()[-2000:]))
        return p.stdout.decode()

    with ThreadPoolExecutor(NPROC) as ex:
        outs = list(ex.map(one, enumerate(chunks)))
    res = {}
    for o in outs:
        res.update(_parse_out(o))
    return res


def run_driver(case_lines, driver=None, tag="d", extra_env=None, timeout_ms=10000, per=200):
    """Run cases through the Rust driver (sharded). Returns {id: [CLASS, payload...]}."""
    driver = driver or driver_path()
    os.makedirs(os.path.join(CACHE, "work"), exist_ok=True)
    chunks = _chunks(case_lines, NPROC, per)
    env = dict(os.environ)
    env["VERIF_CASE_TIMEOUT_MS"] = str(timeout_ms)
    # the library reads these; keep the environment of the driver minimal and deterministic
    for k in list(env):
        if k.startswith("BPAF_") or k.startswith("VT_"):
            del env[k]
    if extra_env:
        env.update(extra_env)

    def one(ix_chunk):
        ix, chunk = ix_chunk
        base = os.path.join(CACHE, "work", "%s_%d_%d" % (tag, os.getpid(), ix))
        with open(base + ".cases", "w") as f:
            f.write("\n".join(chunk) + "\n")
        if os.path.exists(base + ".out"):
            os.unlink(base + ".out")
        start = 0
        while True:
            p = subprocess.run([driver, base + ".cases", base + ".out", str(start)], stdout=subprocess.DEVNULL,
                               stderr=subprocess.PIPE, env=env, timeout=7200)
            if p.returncode == 0:
                break
            # HANG (3) or crash (abort/exit inside the library): find where it stopped and continue
            text = open(base + ".out").read() if os.path.exists(base + ".out") else ""
            done = len(text.splitlines())
            if p.returncode == 3:
                last = text.splitlines()[-1].split("\t")
                start = int(last[2]) + 1
            else:
                # the process died without reporting: the case after the last reported one
                ids = [l.split("\t")[0] for l in text.splitlines()]
                # locate index of first case whose id is not reported
                k = start
                for k in range(start, len(chunk)):
                    cid = chunk[k].split()[1]
                    if cid not in ids:
                        break
                with open(base + ".out", "a") as f:
                    f.write("%s\tEXIT\t%d\n" % (chunk[k].split()[1], p.returncode))
                start = k + 1
            if start >= len(chunk):
                break
        text = open(base + ".out").read() if os.path.exists(base + ".out") else ""
        os.unlink(base + ".cases")
        if os.path.exists(base + ".out"):
            os.unlink(base + ".out")
        return text

    with ThreadPoolExecutor(NPROC) as ex:
        outs = list(ex.map(one, enumerate(chunks)))
    res = {}
    for o in outs:
        res.update(_parse_out(o))
    return res


def now():
    return time.time()


def write_json(path, obj):
    os.makedirs(os.path.dirname(path), exist_ok=True)
    with open(path, "w") as f:
        json.dump(obj, f, indent=1, sort_keys=True, default=lambda o: o.decode('utf-8', 'backslashreplace') if isinstance(o, bytes) else repr(o))
        f.write("\n")
