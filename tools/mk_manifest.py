#!/usr/bin/env python3
"""Writes MANIFEST.json from the table below (kept in one place so it stays valid)."""
import json, os
ROOT = os.path.dirname(os.path.dirname(os.path.abspath(__file__)))

TB = ("Trusted: Coq 8.16.1 kernel/coqc (no native_compute), no axioms (Print Assumptions closed), ExtrOcamlBasic "
      "extraction + OCaml runner, tools/gen_tables.py, the hand-written model coq/Model/*.v tied to the code only by the "
      "differential correspondence check (Rust driver, Python generators/oracles); user closures pure and total.")

DIFF = (" The model is tied to /repo on every run by regenerating the can_catch/exit_code tables from src/error.rs and by a "
        "differential run of the extracted model against the real library (Rust driver over the public API, real construct!) "
        "on generated cases under the property's projection (outcome class; value; help level; for failures WHICH error message "
        "is reported: the text of the library must fit the frame of the message kind -- and carry the payload -- the model "
        "predicts; in the checks whose property speaks about the message itself (C04, C06, C11) also its TEXT: Model/Message.v "
        "transcribes Message::render, the model's failure carries the document the reporting command level built, and its "
        "text is compared byte for byte with the library's stderr on every UTF-8 line); a property-specific oracle on the implementation's outputs "
        "alone searches for a concrete failing input.")

CHECKS = {
 "C02": ("proof", "Theorems in coq/Props/C02.v, for all byte strings: split_os_argument laws for --n=v, --n, -c=v, -c, -cv=w (value = "
         "every byte after the name / first `=`), cluster law (-abc = -a -b -c), tokens computed item by item, take_arg "
         "treats separated and attached values alike and returns the token bytes, byte-exact conversion for OsString/PathBuf/"
         "String; short names of any character, one to four bytes (C02_short_eq_any_char; true after the fix: commit 585374b -- before it `-ж=v` was cut inside the character: the former known finding and `_refuted` theorem). Whole-run respelling "
         "invariance: C02_respelling_tree -- on whole conventional subcommand trees two vectors whose token lists differ only by "
         "spelling (relation Resp: adjacent bit, recorded text, which name of an item is used, Word vs ArgWord in value "
         "position; level by level through the tree) get the same verdict from the grammar and hence (C01_conformance) the same "
         "value or both an error on stderr; for parsers outside the fragment it is decided by the metamorphic oracle (every "
         "occurrence respelled into every admissible spelling, clusters; ASCII vs non-UTF-8 value of an OsString/PathBuf "
         "argument) and the differential run." + DIFF,
         "4/C02", "Rocq proof (tokenizer/leaf laws) over a hand-written model + differential correspondence + respelling oracle"),
 "C05": ("proof", "Theorems in coq/Props/C05.v, for EVERY parser of the model AST (all combinators, any nesting, `any` included): "
         "if run_subparser / run_inner yields a value then the ghost consumption log is a duplicate-free cover of all items, "
         "each claimed by a consumer of the parser that accepts that token (C05_exactly_once, C05_run_inner), hence an item no "
         "consumer accepts always makes the run fail (C05_foreign_item). Proved by mutual induction over parser/plist/oparser "
         "(Reach, Ledger, NoLoss)." + DIFF,
         "4/C05", "Rocq proof (ledger invariant by mutual induction) over a hand-written model + differential correspondence + insertion oracle"),
 "C09": ("proof", "Theorems in coq/Props/C09.v: tokens of pre ++ [--] ++ post (every later item a verbatim PosWord, the separator "
         "pre-consumed); a PosWord is accepted by positional consumers only; in any run that yields a value every item right "
         "of `--` was claimed by a positional consumer and the separator by the tokenizer alone (from the C05 ledger theorem); "
         "strict/non-strict positionals return only right/left tokens, StrictPos final, NonStrictPos catchable (regenerated "
         "table); `--name --` is NoArgument." + DIFF,
         "4/C09", "Rocq proof (tokenizer law + ledger corollary) over a hand-written model + differential correspondence + opacity oracle"),
 "C06": ("proof", "Theorems in coq/Props/C06.v for the evaluator of ANY inner parser: the catchable messages are exactly six (table "
         "regenerated from src/error.rs); conversion/parse/guard failures are final and carry the text; optional, many, some, "
         "count, last, fallback(_with) pass a final error on unchanged at any iteration; guard/parse/map/hide and construct! "
         "never turn an error into a value; absence is catchable. The message carries the text: C06_message_carries_conversion_text / _guard_text -- the document "
         "Message::render (Model/Message.v) builds for a conversion/parse failure ends with `: ` + the conversion error, for "
         "a guard failure with the guard's message, and render's first stage keeps these kinds (C06_message_kinds_kept); "
         "C06_failed_value_text_on_stderr: when the parser of a command level fails with such a failure, a run of the level that "
         "ends on stderr reports exactly that message and the document it carries ends with the text; the "
         "oracle (every typed occurrence replaced by invalid text; invalid environment values) searches the implementation." + DIFF,
         "4/C06", "Rocq proof (catch table + per-wrapper propagation laws) over a hand-written model + differential correspondence + invalid-value oracle"),
 "C07": ("proof", "Theorems in coq/Props/C07.v: the full decision rule of or_else (deeper path wins; only success wins; both "
         "succeed: leftmost differing consumed item decides, ties to the first listed; loser's items become live conflicts), "
         "the value is one fork's value, and C07_exclusive: for ANY two parsers a, b, a line holding an item only a's "
         "consumers accept and one only b's accept cannot yield a value (from the success-only ledger theorem OkReach). "
         "C07_repeated_choice_in_line_order: `many` over a choice between two required flags with different names returns a list "
         "whose values, read from the head, were taken from strictly increasing positions of the line, each value being the one of "
         "the flag whose consumer took that position (ManyOrder.v: one round takes the leftmost available occurrence of either "
         "and leaves the other fork's item available; ManyOrderList.v: induction over the loop, ghost log); for alternatives that "
         "are not single flags the order is decided by the oracle (collected values vs command-line order)." + DIFF,
         "4/C07", "Rocq proof (pick rule + exclusivity from the ledger) over a hand-written model + differential correspondence + choice oracle"),
 "C08": ("proof", "Theorems in coq/Props/C08.v: take_cmd succeeds iff the first live item of the scope is the name (exact "
         "characterisation), the inner OptionParser then runs on [name..end) with the path extended and its value/failure is "
         "the command's, leftovers in the window fail it, an item no consumer of the tree accepts fails the run, inner "
         "help/version is rendered with the inner info/meta/path and is final outward, deeper alternative wins. On conventional "
         "subcommand trees (Model/Conv.v): C08_subcommand_value_tree -- a level with subcommands is a sentence exactly through "
         "the one whose name the scan stops at, what follows is judged by that subcommand's grammar, its value comes last in the "
         "enclosing result and the parser returns exactly that; C08_tree_conformance -- the run succeeds IFF the grammar accepts "
         "(both directions, every specified vector). For tree shapes outside the conventional fragment conformance is decided "
         "by the oracle (misplaced inner options, unknown names, help after each name, parent options right of the name, the "
         "subcommand's own OptionParser run alone on the items right of its name) and the differential run." + DIFF,
         "4/C08", "Rocq proof (take_cmd law, scope/ledger corollaries) over a hand-written model + differential correspondence + misplacement oracle"),
 "C10": ("proof", "Theorems in coq/Props/C10.v: C10_never_value -- for EVERY parser, a live item none of the parser's own consumers "
         "accepts (a help/version flag whose names no item uses) makes run_subparser/run_inner unable to yield a value (the "
         "help lookups are not consumers: OkReach shows a successful evaluation never keeps what they took); C10_help_found -- "
         "when the help flag is live in the scope the failed parser left behind the outcome is this level's help. "
         "C10_help_wins_without_subcommands / C10_help_wins_level / C10_version_wins_level (HelpWins.v): the FULL statement for "
         "every definition (and every command level) without subcommands -- all other combinators, adjacent groups (also nested "
         "ones) included since the fix: commit 3a2639c that makes a failed group hand its caller's scope back "
         "(C10_failed_group_gives_scope_back), arbitrarily nested: the help flag as an item of its own gives this level's help WHATEVER else is missing, "
         "duplicated or malformed (only subcommands produce a ready-made failure; the parser is total; nobody can consume the "
         "help item and the scope is kept, so the lookup finds it; a successful parse has a leftover; `remaining` is exact and "
         "not zero); likewise the version flag when a version is configured and no help flag is on the line. With subcommands the "
         "unrestricted 'whatever else fails' statement is proved FALSE (C10_refuted_seq) and recorded as one known-finding "
         "class (a sibling field of an enclosing level fails first; the second class, an incomplete adjacent group, was repaired); valid lines are checked strictly by the oracle (request at every piece boundary, innermost level marker)." + DIFF,
         "4/C10", "Rocq proof (never-a-value from the ledger, help lookup lemma, refutation witness) over a hand-written model + differential correspondence + help-position oracle"),
 "C03": ("proof", "PARTIAL. Theorems in coq/Props/C03.v (all named *_partial): tokenisation is local, so reordering whole occurrences "
         "reorders their token groups and changes nothing else; named consumers search the whole scope and take the leftmost "
         "match; a flag's value does not depend on position; positional consumers skip named items. FULL for conventional flat "
         "levels: C03_order_irrelevant_flat -- the outcome depends on the vector only through each item's own occurrence sequence "
         "and the positional word sequence (via C01's refinement theorem); for whole conventional subcommand trees "
         "C03_outcome_depends_on_reading_tree -- two specified vectors the grammar reads alike are both accepted with the same "
         "value or both reported on stderr (via C01_conformance). For parsers outside the conventional fragment the "
         "whole-run invariance under the constrained permutations is decided by the "
         "metamorphic oracle (random constrained permutations of generated sentences) and the differential run." + DIFF,
         "4/C03", "Rocq proof of the two mechanisms (partial) over a hand-written model + differential correspondence + permutation oracle"),
 "C18": ("proof", "Theorems in coq/Props/C18.v: C18_frame -- for EVERY parser and vector, two environments that agree on the declared "
         "variables give the same run_inner outcome (mutual induction, all combinator bodies shown extensional, no axioms); "
         "leaf precedence: line first, else the first set declared variable through the same conversion, else a catchable "
         "absence naming the item or variable; a flag is present iff on the line or a variable is set. Precedence under "
         "every wrapper is decided by the metamorphic oracle (undeclared variables inert; item on the line makes its variable "
         "irrelevant; absent + variable = given once); one genuine defect is a known finding." + DIFF,
         "4/C18", "Rocq proof (frame law by mutual induction + leaf laws) over a hand-written model + differential correspondence + environment oracle"),
 "C19": ("proof", "Theorems in coq/Props/C19.v: C19_contiguous -- if an adjacent group (members that keep their scope: flags, arguments, "
         "positionals, optional/guard/parse/map, construct!) yields a value there is ONE interval [a,b) such that every "
         "available item in it is consumed, nothing outside it is consumed and the enclosing scope is restored; the block "
         "starts at the start offset that succeeded; windows are runs of live items; the retry loop's return condition; start "
         "offsets are tried left to right and the value comes from the FIRST one at which the group parses (C19_first_start_wins, "
         "C19_starts_left_to_right), so repeating the group yields the blocks in command-line order. The member class "
         "(C19_members_inscope) covers flags, arguments, positionals and `any` under optional/many/some/count/last/fallback/"
         "guard/parse/map/hide, construct! and alternatives -- and groups themselves (C19_group_is_a_member: a group keeps its "
         "caller's scope and consumes only inside it on success, on failure and on the panic exits), so the theorems hold for "
         "NESTED groups. Commands inside groups are outside the hypothesis (tie only). Full conformance is "
         "decided by the oracle (unique sentinels, span check, accepted block lines) and the differential run." + DIFF,
         "4/C19", "Rocq proof (block theorem by induction over the retry loop) over a hand-written model + differential correspondence + span oracle"),
 "C13": ("proof", "Theorems in coq/Props/C13.v about a transcription of splitter.rs + console.rs (characters, byte lengths, margins, "
         "pending flags, skip counter, trailing-whitespace trimming): C13_content -- for EVERY document, both forms and ANY two "
         "widths the renderings are equal once whitespace is removed (simulation with invariant 'same non-blank content, same "
         "skip counter'); the short form shows exactly the chunks before the first paragraph break of each text and skips the "
         "rest; C13_short_help_text / C13_short_help_text_closes -- a help text embedded as an inline block of text tokens "
         "shows the texts before the first break and the first paragraph of the text holding it, and the end of the block "
         "switches skipping off again; C13_short_nested_refuted -- NOT so when the help text embeds a further document that "
         "holds the break (witness replayed on the library: known finding C13-para-break-inside-embedded-doc); C13_render_returns "
         "-- the renderer returns for every document, form and width (after fix: commit efdd257). Explicit token lists (blocks "
         "nested up to 45 deep, random balanced/unbalanced lists) go through the console renderer of model and library too. The width clause, for every width and every document with texts shorter than 10^6 characters: "
         "C13_column_dominates_line -- at every prefix of the rendering the column counter the wrapping decision uses is at "
         "least the length of the line being written; C13_width_word_partial -- from every state the renderer can reach "
         "(C13_render_states_reachable, C13_splitter_chunks), placing a word or a separating space leaves a line of at most "
         "width+2 characters unless the word starts at the margin (it is the single word after the indentation / definition "
         "term) or the line holds a preformatted code line. Not derived: the statement about the lines of the final text "
         "(decided by the oracle on the library's text). Tie: the Doc of help/error outcomes of generated parsers "
         "(token list read from its Debug form) is rendered by the model and by the library at 22 (quick) / 300 (thorough) "
         "widths plus unwrapped and compared byte for byte; the oracle checks content equality and line lengths on the "
         "library's text alone.",
         "4/C13", "Rocq proof (lock-step simulation over tokens and chunks) over a hand-written model + byte-exact differential rendering + text oracle"),
 "C20": ("proof", "Theorems in coq/Props/C20.v: C20_bookkeeping_inert_every_parser / _every_command_level / C20_autocomplete_does_not_change_parsing -- "
         "coq/Model/CompEval.v is the evaluator of a build WITH the autocomplete feature (every cfg(feature = autocomplete) statement of the eval "
         "paths, state = ledger + comp: Option<Complete>, parsers may carry complete(f) / complete_shell(op)); with comp = None it computes, for "
         "EVERY parser, state and environment, exactly what the evaluator without the feature (Model/Eval.v) computes on the parser with the completer "
         "wrappers erased, and leaves comp = None (Lemmas/CompInert.v: mutual induction over the parser, every combinator body shown inert in its "
         "sub-evaluators -- repetition loops, alternatives, construct!, adjacent groups with their retry loop, adjacent commands, command levels); hence "
         "for every argument vector without a completion marker run_inner of the two builds coincide. C20_run_inner -- the feature record does not influence run_inner for any parser/vector "
         "(true after the fix: commit; the model carries the cfg switches where the code has them); with and without docgen the "
         "splitter and hence console rendering coincide for every text without a fenced code block (proved), and differ with "
         "one (refutation witness = known finding). Partial by nature: derive/batteries and the cargo build itself have no "
         "model content. Tie: the same seeded corpus is run by the harness built against /repo with feature sets none / "
         "autocomplete / autocomplete+docgen+batteries / dull-color / bright-color and the outcome lines (class, value, "
         "monochrome help and error text) are compared pairwise, plus the model differential on the reference build.",
         "4/C20", "Rocq proof (the autocomplete build's evaluator with comp = None equals the plain evaluator on the erased parser, by mutual induction; docgen switch inert without fenced code) + five feature builds of the harness diffed on one corpus"),
 "C11": ("proof", "PARTIAL by nature. Theorems in coq/Props/C11.v about the model of run / print_message / exit_code / current_args: "
         "status 0 exactly for value/help/version/completion and 1 exactly for failures (exit_code regenerated from "
         "src/error.rs), help/version/completion on stdout only, failures on stderr only with the non-empty `Error: ` prefix and (C11_message_not_empty) a non-empty text rendered by "
         "Message::render for every kind whose text is not the user's own, "
         "the body is reached iff a value was produced, the program name is the UTF-8 file name of argv[0]; "
         "C11_no_request_no_stdout_partial -- for EVERY definition (adjacent groups and commands included) whose levels carry a default-like Info, a "
         "line that holds no help flag never ends on stdout or in completion output (QuietLaws.v, mutual induction over the "
         "parser: every failure handed outward by a subcommand is a stderr failure). That a real "
         "process behaves so cannot be a theorem (write(2), buffering, process::exit live in the OS): it is established by the "
         "tie -- every case is run in-process (run_inner with the documented name) and as a spawned child that calls the real "
         "OptionParser::run() with raw byte argv and argv[0] variants; (status, stdout, stderr, body sentinel) must be exactly "
         "what the in-process outcome predicts; plus the model differential.",
         "4/C11", "Rocq proof (status/stream table over the regenerated exit_code) + real child processes compared with the in-process prediction"),
 "C15": ("proof", "Theorems in coq/Props/C15.v about a transcription of complete_shell.rs: C15_quote_roundtrip -- for EVERY string the "
         "single-quote escaping is read back by a POSIX data-word lexer (which fails on any unquoted, unescaped character) as "
         "exactly that string, hence quoting is injective and nothing quoted is interpreted; every zsh/bash directive is "
         "newline-terminated; requested file/dir/raw completers are always rendered; the typed word is echoed back quoted. "
         "The shells themselves are modelled by that word lexer (trusted). Tie: candidate lists, shell operations and typed "
         "words over shell metacharacters are rendered by the library's own renderers (cfg(bpaf_verif) hook) and by the model "
         "for revisions 1/7/8/9 and compared byte for byte; independent per-shell line lexers re-read the library's script and "
         "check directive shapes, quoting, and that each candidate/completer appears exactly once. Three defects found this way "
         "were repaired (fix: commits).",
         "4/C15", "Rocq proof (quote round-trip through a shell-word lexer, line discipline) + byte-exact differential of the renderers via hook + per-shell script lexers"),
 "C14": ("proof", "Completion has two stages; BOTH are modelled. FIRST stage = the hint bookkeeping threaded through every parser: "
         "coq/Model/CompEval.v is the evaluator of a build with the `autocomplete` feature (state = ledger + comp: Option<Complete>; every "
         "cfg(feature = autocomplete) statement of params.rs / structs.rs / complete_shell.rs / args.rs / info.rs: push_flag / push_argument / "
         "push_metavar / push_command / push_pos_sep, touching_last_remove, no_pos_ahead, the hint plumbing of fallback / optional / many / hide / "
         "group_help / or_else (keep_a / keep_b scan) / adjacent groups / adjacent commands, the completer wrappers complete(f) and complete_shell(op), "
         "Doc::to_completion, the completion markers on the line (ArgScanner), check_complete and render_test). PROVED in coq/Props/C14.v: "
         "C14_request_never_value_or_error -- the first clause of the property for EVERY parser definition of the model (all combinators arbitrarily "
         "nested, subcommands adjacent or not, adjacent groups, completers): with a completion request of a known revision on a line that holds an "
         "item with valid UTF-8 text, run_inner NEVER returns a parsed value and NEVER an error message (what is left besides completion output: "
         "stdout -- the usage screen of a fallback_to_usage level entered with an empty scope -- and the model's explicit panic/fuel outcomes); by "
         "mutual induction over the parser (Lemmas/CompNever.v: the request stays switched on with its revision, the items of the line never change, "
         "every final failure a subcommand hands up is completion output or stdout; C14_request_kept_by_every_parser) and the level lemma "
         "C14_level_answers_with_completion_partial; C14_hints_name_visible_items_only / C14_every_parser_pushes_visible_names_only -- for EVERY parser definition every flag / argument / "
         "command NAME among the hints a run collects is the name of a VISIBLE item of the definition (vis_names / vis_cmds skip everything under "
         "hide()), wherever the hidden part stands; the plumbing (stash, swap, titles, completer values, shell completers, keep_a/keep_b, clones of "
         "adjacent groups) never invents a name (Lemmas/CompVisible.v, mutual induction; hide() needs no hypothesis about the hidden parser) -- with "
         "the second stage: C14_candidates_stem_from_visible_items (every candidate computed from the hints of a command level stems from a hint naming a "
         "visible item, or is a value / placeholder / shell completer); "
         "C14_hidden_parser_offers_nothing (whatever a parser under hide() pushed is dropped); "
         "C14_command_name_typed_last (a subcommand whose name is the last item is not entered: the one hint is its name); "
         "C14_no_request_no_completion (without a request completers and bookkeeping change nothing, = C20). SECOND stage, Complete::complete "
         "(coq/Model/Complete.v): every candidate "
         "stems from a hint of the deepest command level entered (after `--` a positional one); names pass the name filters "
         "(empty/`-` word, exact short spelling, `--` prefix of the first long name; command prefix or short alias) and are "
         "offered in their preferred spelling, arguments as name=METAVAR; completer values carry the typed `-s=`/`--long=`; "
         "placeholders replace nothing; while an argument's value is typed no flag/argument/command name is offered, and under a "
         "typed `--name=`/`-n=` prefix every candidate completes an argument's value (C14_prefix_only_values, after fix: commit "
         "b840250); otherwise every matching hint of that level is offered. NOT a theorem (partial): that the hints pushed are exactly the visible, "
         "not yet given names of the active path (soundness / completeness of the candidates w.r.t. the DEFINITION rather than the hints) -- decided "
         "by the AST-derived oracle. TIE: the completion TEXT the extracted model computes (first stage + second stage + renderer) is compared BYTE FOR "
         "BYTE with the library's on every generated case: every kind of partially typed line (prefixes of generated sentences + ``, `-`, `--`, name and "
         "command prefixes, `--name` + value, `--name=b`), value and shell completers, requests by Args::set_comp and by a `--bpaf-complete-rev=N` item "
         "at any position of the line, output revisions 0/1/7/8/9; plus hook-level differentials of Complete::complete (800 random hint lists) and of "
         "the name filters (600 cases).",
         "4/C14", "Rocq proof by mutual induction over the evaluator of the autocomplete build (request never yields a value or an error) + laws of the candidate stage; byte-exact differential of the completion text + AST-derived oracle"),
 "C12": ("proof", "PARTIAL. Theorems in coq/Props/C12.v: the entries collected for --help are EXACTLY the visible leaves of the level "
         "(`vis`: first short/long name, metavariable, env, help; positionals with help; commands; nothing under hide) in "
         "declaration order, for every parser shape (C12_items_exact); hide_usage/custom_usage leave the item lists untouched; "
         "group_help keeps the entries; every name shown for a flag/argument is accepted by its parser; the document is "
         "description, usage block, header, item lists, footer in that order (closed-prefix invariant over every Doc writer). "
         "Model/Help.v (Doc builder, normalize, write_meta, append_meta, Dedup, section grouping, render_help) is compared "
         "TOKEN FOR TOKEN with the library's Doc for --help at every command level on every run. "
         "C12_item_list_is_its_entries / C12_section_is_header_and_entries / C12_dropped_items_are_duplicates (HelpEntries.v): an "
         "item list written onto a document that does not end in a text chunk is EXACTLY the concatenation of the entries of the "
         "items that survive the duplicate filter, a section is its header plus those entries, and an item is dropped only when "
         "an entry with the same name, metavariable and help was already written. "
         "C12_help_document_total_balanced: for every parser definition whose own documents are balanced the help document "
         "exists (the group loop terminates) and its blocks are balanced. Not a theorem: the usage-line content (differential only).",
         "4/C12", "Rocq proof (item list = visible leaves; block order) + token-exact differential of the help Doc + AST oracle"),
 "C16": ("proof", "PARTIAL. Theorems in coq/Props/C16.v. Manpage, for EVERY document/help text/name/metavariable: no output line begins "
         "with `.` or `'` unless bpaf wrote that byte as the start of a request (invariant `really at line start => at_line_start` "
         "over escape/Roff builder/render_roff, output bytes carry their origin); user text round-trips through a reader of roff "
         "text that rejects every escape bpaf does not write (Special, SpecialNoNewline, Spaces -- the last one only after the "
         "fix: commit 599aa89). HTML: the tags a reader sees in the bytes are exactly the renderer's own (user text never opens, "
         "closes or breaks a tag); for documents with balanced blocks the tags are well nested, and the documents bpaf builds ARE "
         "balanced: C16_html_document_total_balanced / C16_manpage_document_total_balanced -- for EVERY parser definition whose "
         "own documents (help texts, group titles, custom usage, description, header, footer) are balanced, which is all the Doc "
         "API can build, section extraction never runs out of fuel, the group loop of write_help_item_groups terminates, the "
         "HTML and manpage documents exist and their blocks are balanced (Lemmas/BalLaws.v: every writer of Model/Help.v and "
         "Model/Docs.v extends a document by a block-neutral piece; normalize keeps the documents of the metadata; append_meta "
         "builds well-bracketed group lists), hence C16_html_well_nested for every parser. Completeness: section items = "
         "visible leaves (C12 theorem). C16_render_html_succeeds / C16_render_manpage_succeeds: for every such definition "
         "render_html and render_manpage return (the documents hold no block the renderer answers with todo!(): Block::Meta in "
         "HTML, Block::TermRef in roff). Model/Docs.v "
         "(extract_sections, collect_html, render_manpage document, render_html, Roff/escape/render_roff) is compared with the "
         "library on every run: documents token for token (cfg(bpaf_verif) capture hook), html and manpage byte for byte, plus "
         "explicit balanced/unbalanced token lists through the renderer hooks. render_markdown is modelled too (Model/Docs.v, byte-exact differential on every definition and explicit document; C16_render_markdown_succeeds: it returns for every parser).",
         "4/C16", "Rocq proof (roff control-line invariant, escape round-trips, HTML tag reader, nesting) + byte-exact differential of html/manpage + independent lexers"),
 "C04": ("proof", "PARTIAL. Theorems in coq/Props/C04.v: the ledger bound `remaining <= number of items` holds initially and is kept by "
         "the evaluation of every parser from every state (through Reach.eval_reach_all), the item list is never changed; with "
         "it, the repetition loops (many/collect, some, count, last) never exhaust the fuel the model gives them -- the "
         "consumed-something rule makes `len` strictly decrease -- for every inner parser. C04_documentation_returns: for EVERY "
         "definition (adjacent groups included) whose own documents are what the Doc API can build, render_html and "
         "render_manpage return in the model (section extraction has enough fuel, the item writer's group loop terminates, no "
         "todo!() block is met). C04_console_rendering_returns: the console renderer returns for every document, form and width "
         "(true after fix: commit efdd257 -- margins above the 50-column padding constant panicked). C04_total: for "
         "EVERY definition `oko` accepts -- every combinator of the model, arbitrarily nested: flags, arguments, "
         "positionals, any, subcommands, construct!, alternatives, optional/many/some/collect/count/last, fallback, guard, parse, "
         "map, hide, usage, group_help, pure, fail, boxed, subcommands adjacent or not, and ADJACENT GROUPS whose members keep their "
         "scope (everything but `any`, subcommands and nested groups inside the group) and which start with an item; named items have a name "
         "or variable; levels pass check_invariants (`oko` is decidable and evaluated on every generated definition) -- on every "
         "argv and environment run_inner yields a value, a document or an error: no panic outcome, no fuel exhaustion (mutual "
         "induction over the parser; states stay well-formed -- ledger bounded, scope inside it, `remaining` EXACTLY the number of "
         "available items in the scope -- because they only move by the legal steps of Reach.v). C04_adjacent_group_total: the "
         "retry loop of ParseAdjacent::eval ends within the fuel the model gives it (after the first retry the right end of the "
         "window holds an available item outside the window, so later ends can only shrink) and its panic sites (scope "
         "arithmetic, `before - remaining`) are unreachable; C04_adjacent_command_total: the window of an adjacent subcommand and "
         "its one retry stay inside the ledger. "
         "C04_error_rendering_returns (MsgOk.v), for EVERY definition of the model without any premise: the evaluator reports "
         "only messages whose recorded positions are items of the line (mutual induction over the parser), conflict marks name "
         "positions of the line in every reachable state, the tokenizer's ambiguity message names an item and a cluster of at "
         "least two characters -- so the failure a run ends with, whichever command level reported it, carries the document "
         "Message::render (Model/Message.v) built there (None = a panic of the rendering: index out of range, unwrap of None, "
         "panicking set_scope -- impossible). "
         "C04_flat_fragment_total / C04_flat_level_total: the same through the token-list interpreter. NOT theorems: adjacent "
         "groups with subcommands as members, or without a first "
         "item (retry loop fuelled; FUEL and the panic sites are explicit outcomes compared with the implementation; a hidden group "
         "without a first item is a known finding, three defects here were repaired by fix: commits -- since 1225acf "
         "check_invariants itself reports a visible group without a first item), the panic sites "
         "of completion (the evaluator of the autocomplete build is modelled, Model/CompEval.v, with its panic sites as outcomes: every "
         "completion step of every history is compared with the model byte for byte; two defects repaired: eb55015 and 71218b3 -- "
         "Doc::first_line read later fragments from a stale payload offset and sliced inside a multi-byte character, so completion "
         "next to a help text of several styled fragments panicked; found while transcribing Doc::to_completion), purity (by construction in Gallina; tied by re-running). "
         "Implementation side: every case under catch_unwind + watchdog; `twice` (same OptionParser, same vector) and `history` "
         "(one OptionParser: parse, completion at revisions 0/1/7/8/9 with and without an application name, html/markdown/"
         "manpage; two rounds must be identical).",
         "4/C04", "Rocq proof (totality of every definition incl. simple adjacent groups by mutual induction, ledger/scope/exact-count invariants, loop and retry-loop termination) + differential with explicit panic/fuel outcomes + run histories under catch_unwind"),
 "C01": ("proof", "coq/Model/Conv.v states the declared grammar: `level` (conventional fragment: uniquely named switches/flags/"
         "required flags/counted/repeated flags/arguments x {required, optional, many, some, fallback, last}, positional suffix, "
         "subcommand trees with aliases), `compile` (the combinator term) and `denote` (one left-to-right attribution scan giving "
         "every token a role, then arity and value checks; Unspecified exactly for the property's carve-outs: help requests, "
         "ambiguous clusters, dash-words, options of an enclosing level right of a command name). "
         "PROVED (coq/Props/C01.v), the full statement for the fragment: C01_conformance -- for every whole subcommand tree and "
         "every argv: denote = Accept v gives run_inner = Ok v, denote = Reject gives an error message on stderr (never a value, "
         "a document or a panic), Unspecified is the property's carve-out; C01_tree_complete -- for every whole subcommand tree "
         "(any number of subcommands with aliases at every level; decidable conditions tree_ok and plain_cmds = command names "
         "non-empty without leading dash) and every argv the grammar specifies, run_inner = Ok v EXACTLY when denote = Accept v; "
         "C01_tree_rejected_never_ok; the same for flat levels (C01_flat_complete) and the Accept half alone for flat/chain/tree "
         "(C01_sentences_accepted_*); C01_flat_total -- never a panic outcome or fuel exhaustion (for trees: "
         "C04_total). By refinement in layers: AbsSim.v (the evaluator of the fragment depends on the ledger "
         "only through its live tokens: simulation with an interpreter over token lists, mutual induction over the parser), "
         "ConvRefine.v (that interpreter on the compiled level computes what the scan attributes), ConvChain.v (command step: "
         "scope narrowing, deeper levels' tokens are inert), ConvTree.v (the alternative over subcommands), ConvSound.v (the "
         "converse on a flat level: an item read backwards took exactly its occurrences or left one behind; what the scan "
         "rejects is a token no field can remove), ConvTreeSound.v (the converse through command levels: fields take whole "
         "occurrences only, so the first token they leave is a key or the command word the scan stopped at; construct! and the "
         "alternative read backwards; induction on the tree), TokOs.v (the text recorded for an option token starts with a dash "
         "or is empty, so it is never taken for a command name), QuietLaws.v + ConvStderr.v (no help flag left on the line: no "
         "run ends on stdout; the compiled tree passes check_invariants at every level, so TotalLaws applies). Also proved: a key no item of a whole subcommand tree owns is "
         "never swallowed (corollary of C05). The theorems speak about the model; the tie: conformance of the implementation "
         "against `denote` (4000 vectors quick: sentences in every spelling/order, near-miss and mutated non-sentences, salted "
         "vectors) and of the evaluator model on Coq's `compile`; flat_ok/chain_ok/tree_ok/plain_cmds are evaluated on every "
         "generated level: every generated vector the grammar specifies (about 3750 of 4000 per run) falls under a theorem.",
         "4/C01", "Rocq proof by refinement (token-list interpreter simulation + scan/attribution equivalence; both directions for flat levels and whole subcommand trees) + conformance differential implementation vs denote"),
 "C17": ("proof", "PARTIAL by nature: the proc-macro (syn-level Rust) is not modelled. coq/Model/Derive.v states the documented rules "
         "(implicit consumer and shape from the field type, kebab-case naming incl. single-character names, what short/long/env/"
         "argument/positional/fallback/doc comments override, unit-variant and command names, group_help of nested parsers) as a "
         "function from a field definition to a combinator plan. Theorems (coq/Props/C17.v): kebab-case output alphabet, "
         "idempotence, injectivity on snake_case names; the implicit rules per field type; unnamed fields are positionals; naming "
         "annotations change only the names, the doc comment only the help. Tie: translation-validation style -- a seeded family "
         "of 40 (quick) / 600 (thorough) struct, tuple-struct, enum and nested-parser definitions is compiled with the real "
         "#[derive(Bpaf)] AND as hand-written combinators PRINTED FROM THE EXTRACTED COQ PLAN, in one crate built against /repo "
         "and its bpaf_derive; both are run on 13 vectors per type: equal Debug value, equal failure class, equal help text. Session 6: the doc comment of an `options`/`command` type -- Model/Derive.v doc_blocks (bpaf_derive LineIter: blocks cut at double empty lines) and options_help (split_options_help: description / header / footer) with C17_options_annotation_overrides_its_part and _only_its_part (an explicit descr/header/footer annotation replaces exactly the part it names, every other part depends on the doc comment and its own annotation only); the hand-written equivalents take their descr/header/footer from the extracted model.",
         "4/C17", "Rocq proof of the derive rules (naming, implicit consumers, locality of annotations) + derive-vs-hand-written differential printed from the extracted rules"),
}

NA_REASON = "check not built yet in this revision (machinery under construction; see DESIGN.md section 7 staging)"

def main():
    props = [json.loads(l)["id"] for l in open(os.path.join(ROOT, "properties.jsonl"))]
    checks = []
    for pid in props:
        if pid not in CHECKS:
            continue
        cat, text, ref, tech = CHECKS[pid]
        checks.append({
            "property_id": pid,
            "quick_cmd": "./verify check %s --tier quick" % pid,
            "thorough_cmd": "./verify check %s --tier thorough" % pid,
            "evidence_file": "/verif/evidence/%s.json" % pid,
            "replay_cmd_template": "./verify check %s --replay {path}" % pid,
            "engine": "rocq+diff",
            "level_claimed": {"category": cat, "text": text, "design_ref": ref},
            "level_note": TB,
            "technique": tech,
        })
    m = {
        "version": 1,
        "setup_cmd": "./verify setup",
        "hooks": {"guard": "bpaf_verif", "enable": "harness/driver/.cargo/config.toml passes rustflags --cfg bpaf_verif (and --check-cfg cfg(bpaf_verif)) to every harness build; the hooks (bpaf::verif_hooks, Doc::verif_*) exist only under that cfg",
                  "baseline_off_cmd": "cd /repo && cargo test --workspace --no-fail-fast --offline",
                  "source_commits": ["871a93d", "0b5893f"], "add_only": True},
        "engines": [{"name": "rocq+diff", "path": "/verif/verify", "serves_properties": [c["property_id"] for c in checks],
                     "kind_free_text": "Coq 8.16 development (coq/), extracted OCaml model runner (ocaml/), Rust driver (harness/driver), Python orchestration (vlib/)"}],
        "checks": checks,
        "notes": "See DESIGN.md. Known findings are listed in /verif/KNOWN_FINDINGS.",
        "not_applicable": [{"property_id": p, "reason": NA_REASON} for p in props if p not in CHECKS],
    }
    json.dump(m, open(os.path.join(ROOT, "MANIFEST.json"), "w"), indent=1)
    print("MANIFEST.json: %d checks, %d not_applicable" % (len(checks), len(m["not_applicable"])))

main()
