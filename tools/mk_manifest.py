#!/usr/bin/env python3
"""Writes MANIFEST.json from the table below (kept in one place so it stays valid)."""
import json, os
ROOT = os.path.dirname(os.path.dirname(os.path.abspath(__file__)))

TB = ("Trusted: Coq 8.16.1 kernel/coqc (no native_compute), no axioms (Print Assumptions closed), ExtrOcamlBasic "
      "extraction + OCaml runner, tools/gen_tables.py, the hand-written model coq/Model/*.v tied to the code only by the "
      "differential correspondence check (Rust driver, Python generators/oracles); user closures pure and total.")

CHECKS = {
 "C05": ("proof", "Theorems in coq/Props/C05.v about the executable model of the parsing core (run_subparser returns a value "
         "only when no live item remains in scope; ledger invariants); model tied to /repo by a differential run of the "
         "extracted model against the real library on generated definitions x sentences x single-item insertions, plus an "
         "implementation-only metamorphic oracle (an undeclared item inserted into an accepted line must fail).",
         "4/C05", "Rocq proof over a hand-written model + differential correspondence + metamorphic oracle"),
}

NA_REASON = "check not built yet in this revision (machinery under construction; see DESIGN.md section 7 staging)"

def main():
    props = [json.loads(l)["id"] for l in open(os.path.join(ROOT, "properties.jsonl"))]
    checks = []
    for pid in props:
        if pid not in CHECKS:
            continue
        cat, text, ref, tech = CHECKS[pid]
        checks.append({
            "property_id": pid,
            "quick_cmd": "./verify check %s --tier quick" % pid,
            "thorough_cmd": "./verify check %s --tier thorough" % pid,
            "evidence_file": "/verif/evidence/%s.json" % pid,
            "replay_cmd_template": "./verify check %s --replay {path}" % pid,
            "engine": "rocq+diff",
            "level_claimed": {"category": cat, "text": text, "design_ref": ref},
            "level_note": TB,
            "technique": tech,
        })
    m = {
        "version": 1,
        "setup_cmd": "./verify setup",
        "hooks": {"guard": "bpaf_verif", "enable": "none needed: the machinery uses only bpaf's public API (no source hooks)",
                  "baseline_off_cmd": "cd /repo && cargo test --workspace --no-fail-fast --offline",
                  "source_commits": [], "add_only": True},
        "engines": [{"name": "rocq+diff", "path": "/verif/verify", "serves_properties": [c["property_id"] for c in checks],
                     "kind_free_text": "Coq 8.16 development (coq/), extracted OCaml model runner (ocaml/), Rust driver (harness/driver), Python orchestration (vlib/)"}],
        "checks": checks,
        "notes": "See DESIGN.md. Known findings are listed in /verif/KNOWN_FINDINGS.",
        "not_applicable": [{"property_id": p, "reason": NA_REASON} for p in props if p not in CHECKS],
    }
    json.dump(m, open(os.path.join(ROOT, "MANIFEST.json"), "w"), indent=1)
    print("MANIFEST.json: %d checks, %d not_applicable" % (len(checks), len(m["not_applicable"])))

main()
