#!/bin/bash
# run every thorough check once, record exit status and wall time
cd /verif
OUT=/verif/.cache/thorough.log
: > $OUT
for c in $(python3 -c "import json; print(' '.join(c['property_id'] for c in json.load(open('MANIFEST.json'))['checks']))" 2>/dev/null); do
  s=$(date +%s)
  timeout 3600 ./verify check $c --tier thorough > /tmp/thorough_$c.log 2>&1; rc=$?
  e=$(date +%s)
  echo "$c rc=$rc secs=$((e-s)) $(grep -v '^WARNING conda' /tmp/thorough_$c.log | tail -1)" >> $OUT
done
echo done >> $OUT
