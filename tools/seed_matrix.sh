#!/bin/bash
export VERIF_EVIDENCE_DIR=/verif/.cache/seed-evidence
# seed_matrix.sh -- for every seeded change: apply it to /repo, run EVERY registered quick check, undo it.
# Writes seeded/MATRIX.txt: one line per (seed, check) with the exit status (1 = VIOLATION reported).
cd /verif
OUT=seeded/MATRIX.txt
: > $OUT
CHECKS=$(python3 -c "import json; print(' '.join(c['property_id'] for c in json.load(open('MANIFEST.json'))['checks']))" 2>/dev/null)
for S in seeded/C??-1; do
  ( cd /repo && git apply /verif/$S/patch.diff ) || { echo "$S patch-does-not-apply" >> $OUT; continue; }
  for c in $CHECKS; do
    ./verify check $c --tier quick > /tmp/matrix.log 2>&1; rc=$?
    v=$(grep -c "^VIOLATION" /tmp/matrix.log); nf=$(grep -c "no-failing-input-found" /tmp/matrix.log)
    echo "$(basename $S) $c exit=$rc violation_lines=$v no_failing_input=$nf" >> $OUT
  done
  git -C /repo checkout -- .
done
echo done >> $OUT
