#!/usr/bin/env python3
"""Development aid: random differential run of model vs implementation, prints disagreements."""
import sys, os, random
sys.path.insert(0, os.path.dirname(os.path.dirname(os.path.abspath(__file__))))
from vlib import infra, gen, compare

def main():
    seed = int(sys.argv[1]) if len(sys.argv) > 1 else 1
    n = int(sys.argv[2]) if len(sys.argv) > 2 else 500
    feats = tuple(sys.argv[3].split(",")) if len(sys.argv) > 3 else ("alt", "adj", "cmd", "pos")
    infra.gen_tables()
    infra.ensure_vpmodel()
    infra.ensure_driver()
    rng = random.Random(seed)
    lines = []
    meta = {}
    i = 0
    while len(lines) < n:
        opts, names = gen.gen_options(rng, features=feats)
        for j in range(6):
            argv = gen.gen_argv(rng, opts)
            if j >= 2:
                argv = gen.mutate(rng, argv, opts)
            if j == 5 and rng.random() < 0.5:
                argv.insert(rng.randrange(len(argv) + 1), rng.choice([b"--help", b"-h", b"--version", b"-V"]))
            cid = "e%d" % i
            i += 1
            line = gen.case_line(cid, opts, argv)
            lines.append(line)
            meta[cid] = line
    m = infra.run_model(lines)
    d = infra.run_driver(lines)
    bad = 0
    classes = {}
    for cid, line in meta.items():
        mm, dd = m.get(cid), d.get(cid)
        classes[compare.project_impl(dd)[0]] = classes.get(compare.project_impl(dd)[0], 0) + 1
        r = compare.agree_class_value(mm, dd)
        if r:
            bad += 1
            if bad <= 15:
                print("DISAGREE", cid, r)
                print("  ", line)
                print("   model:", mm)
                print("   impl :", dd if dd is None or dd[0] not in ("STDOUT","STDERR") else [dd[0], gen.unhx(dd[1])])
    print("cases", len(meta), "disagreements", bad, "classes", classes)

main()
