#!/bin/bash
export VERIF_EVIDENCE_DIR=/verif/.cache/seed-evidence
# quick tier under other seeds: any rc!=0 on the unchanged tree is a false alarm or a new finding to triage
cd /verif
OUT=/verif/.cache/seed_sweep.log
: > $OUT
for s in ${SEEDS:-2 3 4 5 6}; do
  for c in C01 C02 C03 C04 C05 C06 C07 C08 C09 C10 C11 C12 C13 C14 C15 C16 C17 C18 C19 C20; do
    timeout 1800 ./verify check $c --tier ${TIER:-quick} --seed $s > /tmp/sweep_$c.log 2>&1; rc=$?
    echo "seed=$s $c rc=$rc $(grep -v '^WARNING conda\|^KNOWN' /tmp/sweep_$c.log | tail -1)" >> $OUT
    if [ $rc -ne 0 ]; then grep "VIOLATION" -A2 /tmp/sweep_$c.log | cut -c1-600 >> $OUT; fi
  done
done
echo done >> $OUT
