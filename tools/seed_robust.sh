#!/bin/bash
export VERIF_EVIDENCE_DIR=/verif/.cache/seed-evidence
# every seeded change x its own check x seeds 1..3: how often is it caught with a concrete failing input
cd /verif
OUT=/verif/.cache/seed_robust.log
: > $OUT
for d in seeded/C*-*; do
  p=$(basename $d | cut -d- -f1)
  git -C /repo apply /verif/$d/patch.diff || { echo "$d patch does not apply" >> $OUT; continue; }
  line="$(basename $d)"
  for s in 1 2 3; do
    ./verify check $p --tier quick --seed $s > /tmp/robust.log 2>&1; rc=$?
    c=$(grep -c "^VIOLATION" /tmp/robust.log); n=$(grep -c "no-failing-input-found" /tmp/robust.log)
    line="$line seed$s:rc=$rc,viol=$c,nofail=$n"
  done
  echo "$line" >> $OUT
  git -C /repo checkout -- .
done
echo done >> $OUT
