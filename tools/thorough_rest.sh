#!/bin/bash
cd /verif
OUT=/verif/.cache/thorough2.log
: > $OUT
for c in C05 C06 C09 C13 C14 C15 C16 C17 C18 C19 C20 C01 C03 C04; do
  s=$(date +%s)
  timeout 3600 ./verify check $c --tier thorough > /tmp/thorough_$c.log 2>&1; rc=$?
  e=$(date +%s)
  echo "$c rc=$rc secs=$((e-s)) $(grep -v '^WARNING conda' /tmp/thorough_$c.log | tail -1)" >> $OUT
done
echo done >> $OUT
