#!/bin/bash
# confirm_seed.sh SRC_DIR ID  -- confirm a seeded change in a scratch worktree of /repo:
#   (1) demo passes on the unchanged tree, (2) with patch.diff applied the workspace compiles and the
#   existing suite has exactly the baseline failures, (3) the demo fails.  On success the change is
#   stored as /verif/seeded/ID/{patch.diff,demo.rs,meta.json}.
set -u
SRC=$1; ID=$2
WT=/tmp/confirm-$ID
export CARGO_NET_OFFLINE=true CARGO_TARGET_DIR=${CONFIRM_TARGET:-/tmp/confirm-target}
BASE_FAIL=/verif/tools/baseline_failures.txt
git -C /repo worktree remove --force $WT >/dev/null 2>&1
git -C /repo worktree add -f $WT HEAD >/dev/null 2>&1 || { echo "worktree failed"; exit 2; }
cd $WT
cp $SRC/demo.rs tests/seed_demo.rs
cargo test --offline --test seed_demo > /tmp/confirm-$ID.clean.log 2>&1; clean_rc=$?
git apply $SRC/patch.diff || { echo "$ID: patch does not apply"; git -C /repo worktree remove --force $WT; exit 2; }
cargo test --offline --test seed_demo > /tmp/confirm-$ID.seeded.log 2>&1; seeded_rc=$?
rm tests/seed_demo.rs
cargo test --workspace --no-fail-fast --offline > /tmp/confirm-$ID.suite.log 2>&1
grep -E "^test .* \.\.\. FAILED" /tmp/confirm-$ID.suite.log | sed 's/ \.\.\. FAILED//' | sort > /tmp/confirm-$ID.failed
grep -q "error: could not compile\|error\[E" /tmp/confirm-$ID.suite.log && compile=broken || compile=ok
if [ ! -f $BASE_FAIL ]; then echo "no baseline failure list"; fi
suite=same; diff -q /tmp/confirm-$ID.failed $BASE_FAIL >/dev/null 2>&1 || suite=DIFFERENT
passed=$(grep -E "^test result" /tmp/confirm-$ID.suite.log | awk '{s+=$4} END {print s}')
echo "$ID: demo clean rc=$clean_rc seeded rc=$seeded_rc compile=$compile suite=$suite passed=$passed"
cd /; git -C /repo worktree remove --force $WT
if [ $clean_rc -eq 0 ] && [ $seeded_rc -ne 0 ] && [ $compile = ok ] && [ $suite = same ]; then
  mkdir -p /verif/seeded/$ID
  cp $SRC/patch.diff $SRC/demo.rs /verif/seeded/$ID/
  python3 - "$SRC" "$ID" "$passed" <<'EOF'
import json, sys
src, sid, passed = sys.argv[1:4]
m = json.load(open(src + "/meta.json"))
m["confirmed"] = {"by": "tools/confirm_seed.sh in a scratch worktree of /repo HEAD",
                  "demo_on_unchanged_tree": "passes", "demo_with_patch": "fails",
                  "workspace_suite_with_patch": "compiles; same failing set as the unchanged tree (%s tests passed)" % passed}
json.dump(m, open("/verif/seeded/%s/meta.json" % sid, "w"), indent=1)
EOF
  echo "$ID: CONFIRMED -> /verif/seeded/$ID"
else
  echo "$ID: NOT confirmed"
fi
