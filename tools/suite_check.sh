#!/bin/bash
# suite_check.sh -- run pacak/bpaf's own workspace test suite on a scratch copy of /repo's CURRENT working
# tree (HEAD + uncommitted changes) and compare the failing set with tools/baseline_failures.txt.
# Used before every `fix:` commit.  Scratch worktree and target dir are removed afterwards.
set -u
WT=/tmp/suite-wt
export CARGO_NET_OFFLINE=true CARGO_TARGET_DIR=/tmp/suite-target
git -C /repo worktree remove --force $WT >/dev/null 2>&1
git -C /repo worktree add -f $WT HEAD >/dev/null 2>&1 || { echo "worktree failed"; exit 2; }
git -C /repo diff HEAD -- src tests bpaf_derive Cargo.toml | (cd $WT && git apply --allow-empty) || { echo "cannot copy working changes"; exit 2; }
cd $WT
cargo test --workspace --no-fail-fast --offline > /tmp/suite.log 2>&1
grep -E "^test .* \.\.\. FAILED" /tmp/suite.log | sed 's/ \.\.\. FAILED//' | sort > /tmp/suite.failed
grep -q "error: could not compile\|error\[E" /tmp/suite.log && compile=broken || compile=ok
suite=same; diff -q /tmp/suite.failed /verif/tools/baseline_failures.txt >/dev/null 2>&1 || suite=DIFFERENT
passed=$(grep -E "^test result" /tmp/suite.log | awk '{s+=$4} END {print s}')
echo "suite: compile=$compile failing-set=$suite passed=$passed"
[ $suite = DIFFERENT ] && diff /tmp/suite.failed /verif/tools/baseline_failures.txt
cd /; git -C /repo worktree remove --force $WT; rm -rf /tmp/suite-target
