#!/bin/bash
export VERIF_EVIDENCE_DIR=/verif/.cache/seed-evidence
# seedtest.sh PATCH_DIR CHECK...  -- apply a seeded change to /repo, run the named checks (quick), undo it.
D=$1; shift
cd /repo && git apply $D/patch.diff || { echo "patch does not apply"; exit 2; }
cd /verif
for c in "$@"; do
  ./verify check $c --tier quick 2>&1 | grep -v "^WARNING conda" | tail -4
  echo "  -> $c exit ${PIPESTATUS[0]}"
done
git -C /repo checkout -- . 
