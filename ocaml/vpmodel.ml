(* vpmodel -- runner for the extracted Coq model.
   Reads one case per line (s-expressions, the shared case language), evaluates the model,
   prints one canonical line per case on stdout:  ID \t CLASS \t payload...                 *)
open Model

(* ------------------------------------------------------------------ s-expressions *)
type sexp = A of string | L of sexp list

let parse_sexp (s : string) : sexp =
  let n = String.length s in
  let pos = ref 0 in
  let rec skip () = while !pos < n && (s.[!pos] = ' ' || s.[!pos] = '\t' || s.[!pos] = '\n') do incr pos done
  and item () =
    skip ();
    if !pos >= n then failwith "sexp: eof"
    else if s.[!pos] = '(' then begin
      incr pos;
      let acc = ref [] in
      let fin = ref false in
      while not !fin do
        skip ();
        if !pos >= n then failwith "sexp: unclosed"
        else if s.[!pos] = ')' then (incr pos; fin := true)
        else acc := item () :: !acc
      done;
      L (List.rev !acc)
    end else begin
      let st = !pos in
      while !pos < n && s.[!pos] <> ' ' && s.[!pos] <> '(' && s.[!pos] <> ')' && s.[!pos] <> '\t' && s.[!pos] <> '\n' do incr pos done;
      A (String.sub s st (!pos - st))
    end
  in
  item ()

(* ------------------------------------------------------------------ numbers *)
let rec pos_of_int (i : int) : positive =
  if i = 1 then XH else if i land 1 = 0 then XO (pos_of_int (i lsr 1)) else XI (pos_of_int (i lsr 1))
let n_of_int (i : int) : n = if i = 0 then N0 else Npos (pos_of_int i)
let rec int_of_pos = function XH -> 1 | XO p -> 2 * int_of_pos p | XI p -> 2 * int_of_pos p + 1
let int_of_n = function N0 -> 0 | Npos p -> int_of_pos p
let rec int_of_nat = function O -> 0 | S k -> 1 + int_of_nat k

(* Z <-> decimal strings, by schoolbook arithmetic on little-endian digit lists (no bignum lib) *)
let dec_double_add (ds : int list) (carry : int) : int list =
  let rec go ds c = match ds with
    | [] -> if c = 0 then [] else [c]
    | d :: t -> let v = 2 * d + c in (v mod 10) :: go t (v / 10) in
  go ds carry
let rec dec_of_pos (p : positive) : int list =
  match p with XH -> [1] | XO q -> dec_double_add (dec_of_pos q) 0 | XI q -> dec_double_add (dec_of_pos q) 1
let string_of_pos (p : positive) : string =
  String.concat "" (List.rev_map string_of_int (dec_of_pos p))
let string_of_z (x : z) : string =
  match x with Z0 -> "0" | Zpos p -> string_of_pos p | Zneg p -> "-" ^ string_of_pos p

(* big-endian digit list halving: returns (quotient digits, remainder) *)
let dec_half (ds : int list) : int list * int =
  let rec go ds r acc = match ds with
    | [] -> (List.rev acc, r)
    | d :: t -> let v = r * 10 + d in go t (v mod 2) ((v / 2) :: acc) in
  let (q, r) = go ds 0 [] in
  let rec strip = function 0 :: (_ :: _ as t) -> strip t | l -> l in
  (strip q, r)
let rec pos_of_dec (ds : int list) : positive =
  if ds = [1] then XH else
    let (q, r) = dec_half ds in
    if r = 0 then XO (pos_of_dec q) else XI (pos_of_dec q)
let z_of_string (s : string) : z =
  let neg, digits = if String.length s > 0 && s.[0] = '-' then (true, String.sub s 1 (String.length s - 1)) else (false, s) in
  let ds = List.init (String.length digits) (fun i -> Char.code digits.[i] - 48) in
  let rec strip = function 0 :: (_ :: _ as t) -> strip t | l -> l in
  let ds = strip ds in
  if ds = [0] || ds = [] then Z0 else if neg then Zneg (pos_of_dec ds) else Zpos (pos_of_dec ds)

(* ------------------------------------------------------------------ hex / bytes *)
let hexval c =
  match c with
  | '0' .. '9' -> Char.code c - 48
  | 'a' .. 'f' -> Char.code c - 87
  | 'A' .. 'F' -> Char.code c - 55
  | _ -> failwith "bad hex"

let bytes_of_hexatom (a : string) : bytes =
  (* atom is 'x' followed by hex digits *)
  if String.length a = 0 || a.[0] <> 'x' then failwith ("expected hex atom, got " ^ a);
  let n = (String.length a - 1) / 2 in
  List.init n (fun i -> n_of_int (hexval a.[1 + 2 * i] * 16 + hexval a.[2 + 2 * i]))

let hex_of_bytes (b : bytes) : string =
  "x" ^ String.concat "" (List.map (fun x -> Printf.sprintf "%02x" (int_of_n x)) b)

let bytes_of_string (s : string) : bytes = List.init (String.length s) (fun i -> n_of_int (Char.code s.[i]))

let hx = function A a -> bytes_of_hexatom a | _ -> failwith "expected hex atom"
let text_doc (b : bytes) : doc = [TText (SText, b)]

(* ------------------------------------------------------------------ values *)
let rec val_of_sexp (s : sexp) : val0 =
  match s with
  | A "unit" -> VUnit
  | A "true" -> VBool true
  | A "false" -> VBool false
  | A "none" -> VNone
  | L [A "num"; A z] -> VNum (z_of_string z)
  | L [A "bytes"; h] -> VBytes (hx h)
  | L (A "list" :: l) -> VList (List.map val_of_sexp l)
  | L (A "tuple" :: l) -> VTuple (List.map val_of_sexp l)
  | L [A "some"; v] -> VSome (val_of_sexp v)
  | _ -> failwith "bad value"

let rec string_of_val (v : val0) : string =
  match v with
  | VUnit -> "unit"
  | VBool true -> "true"
  | VBool false -> "false"
  | VNone -> "none"
  | VNum z -> "(num " ^ string_of_z z ^ ")"
  | VBytes b -> "(bytes " ^ hex_of_bytes b ^ ")"
  | VList l -> "(list" ^ String.concat "" (List.map (fun x -> " " ^ string_of_val x) l) ^ ")"
  | VTuple l -> "(tuple" ^ String.concat "" (List.map (fun x -> " " ^ string_of_val x) l) ^ ")"
  | VSome v -> "(some " ^ string_of_val v ^ ")"

(* ------------------------------------------------------------------ parsers *)
let named_of_sexp (s : sexp) : named =
  match s with
  | L (A "named" :: fields) ->
    let sh = ref [] and lo = ref [] and en = ref [] and he = ref None in
    List.iter (function
        | L [A "s"; A cp] -> sh := n_of_int (int_of_string cp) :: !sh
        | L [A "l"; h] -> lo := hx h :: !lo
        | L [A "e"; h] -> en := hx h :: !en
        | L [A "h"; h] -> he := Some (text_doc (hx h))
        | L (A "hd" :: frs) ->
          let emb st h = [TStart BInlineBlock; TText (st, hx h); TEnd BInlineBlock] in
          he := Some (List.concat (List.map (function
              | L [A "text"; h] -> [TText (SText, hx h)]
              | L [A "literal"; h] -> [TText (SLiteral, hx h)]
              | L [A "emphasis"; h] -> [TText (SEmphasis, hx h)]
              | L [A "invalid"; h] -> [TText (SInvalid, hx h)]
              | L [A "doc-text"; h] -> emb SText h
              | L [A "doc-literal"; h] -> emb SLiteral h
              | L [A "doc-emphasis"; h] -> emb SEmphasis h
              | L [A "doc-invalid"; h] -> emb SInvalid h
              | _ -> failwith "bad fragment") frs))
        | _ -> failwith "bad named field") fields;
    { n_short = List.rev !sh; n_long = List.rev !lo; n_env = List.rev !en; n_help = !he }
  | _ -> failwith "bad named"

let ty_of = function
  | A "osstring" -> TyOsString | A "pathbuf" -> TyPathBuf | A "string" -> TyString
  | A "u32" -> TyU32 | A "i64" -> TyI64 | _ -> failwith "bad type"

let menu_id (a : sexp) : n = match a with A k -> n_of_int (int_of_string k) | _ -> failwith "bad menu id"

let res_of = function
  | L [A "ok"; v] -> Inl (val_of_sexp v)
  | L [A "err"; h] -> Inr (hx h)
  | _ -> failwith "bad result"

let shown_of (v : val0) : bytes = bytes_of_string ("[default: " ^ string_of_val v ^ "]")

let rec cparser_of_sexp (s : sexp) : cparser =
  match s with
  | L [A "flag"; nm; v] -> XFlag (named_of_sexp nm, val_of_sexp v, None)
  | L [A "flag"; nm; v; a] -> XFlag (named_of_sexp nm, val_of_sexp v, Some (val_of_sexp a))
  | L [A "arg"; nm; mv; ty] -> XArg (named_of_sexp nm, hx mv, ty_of ty, false)
  | L [A "arg"; nm; mv; ty; A "adjacent"] -> XArg (named_of_sexp nm, hx mv, ty_of ty, true)
  | L (A "pos" :: mv :: ty :: A st :: rest) ->
    let pos = match st with "free" -> Unrestricted | "strict" -> Strict | "nonstrict" -> NonStrict | _ -> failwith "bad strictness" in
    let help = match rest with [L [A "h"; h]] -> Some (text_doc (hx h)) | [] -> None | _ -> failwith "bad pos" in
    XPos (hx mv, ty_of ty, pos, help)
  | L (A "anyp" :: mv :: k :: txt :: rest) ->
    let anywhere = (rest = [A "anywhere"]) in
    let kk = menu_id k and t = hx txt in
    XAny ([TText (SMetavar, hx mv)], None, (fun os -> any_menu kk t os), anywhere)
  | L (A "cmd" :: name :: L (A "aliases" :: al) :: L (A "shorts" :: sh) :: rest) ->
    let adjacent = List.mem (L [A "adjacent"]) rest in
    let help = List.fold_left (fun acc x -> match x with L [A "h"; h] -> Some (text_doc (hx h)) | _ -> acc) None rest in
    let sub = match List.filter (function L (A "options" :: _) -> true | _ -> false) rest with
      | [o] -> coptions_of_sexp o | _ -> failwith "cmd needs one options" in
    (* command(): help defaults to the first line of the inner descr; the generator always
       passes an explicit help when a descr is present, see gen/ *)
    XCmd (hx name, List.map hx al, List.map (function A cp -> n_of_int (int_of_string cp) | _ -> failwith "bad short") sh,
          help, adjacent, sub)
  | L (A "con" :: ps) -> XCon (cplist_of ps)
  | L (A "adj" :: ps) -> XAdj (cplist_of ps)
  | L (A "alt" :: p :: ps) -> List.fold_left (fun acc q -> XOr (acc, cparser_of_sexp q)) (cparser_of_sexp p) ps
  | L [A "optional"; p] -> XOptional (cparser_of_sexp p, false)
  | L [A "optional-catch"; p] -> XOptional (cparser_of_sexp p, true)
  | L [A "many"; p] -> XMany (cparser_of_sexp p, false)
  | L [A "many-catch"; p] -> XMany (cparser_of_sexp p, true)
  | L [A "some"; p; m] -> XSome (cparser_of_sexp p, hx m, false)
  | L [A "some-catch"; p; m] -> XSome (cparser_of_sexp p, hx m, true)
  | L [A "collect"; p] -> XCollect (cparser_of_sexp p, false)
  | L [A "collect-catch"; p] -> XCollect (cparser_of_sexp p, true)
  | L [A "count"; p] -> XCount (cparser_of_sexp p)
  | L [A "last"; p] -> XLast (cparser_of_sexp p)
  | L [A "fallback"; p; v] -> XFallback (cparser_of_sexp p, val_of_sexp v, [])
  | L [A "fallback"; p; v; A "show"] -> let vv = val_of_sexp v in XFallback (cparser_of_sexp p, vv, shown_of vv)
  | L [A "fallback-with"; p; r] -> XFallbackWith (cparser_of_sexp p, res_of r, [])
  | L [A "fallback-with"; p; r; A "show"] ->
    let rr = res_of r in
    XFallbackWith (cparser_of_sexp p, rr, (match rr with Inl v -> shown_of v | Inr _ -> []))
  | L [A "guard"; p; k; m] -> let kk = menu_id k in XGuard (cparser_of_sexp p, (fun v -> guard_menu kk v), hx m)
  | L [A "parse"; p; k; t] -> let kk = menu_id k and tt = hx t in XParse (cparser_of_sexp p, (fun v -> parse_menu kk tt v))
  | L [A "map"; p; k] -> let kk = menu_id k in XMap (cparser_of_sexp p, (fun v -> map_menu kk v))
  | L [A "hide"; p] -> XHide (cparser_of_sexp p)
  | L [A "hide-usage"; p] -> XUsage (cparser_of_sexp p, [])
  | L [A "usage"; p; d] -> XUsage (cparser_of_sexp p, text_doc (hx d))
  | L [A "group-help"; p; d] -> XGroupHelp (cparser_of_sexp p, text_doc (hx d))
  | L [A "pure"; v] -> XPure (val_of_sexp v)
  | L [A "pure-with"; r] -> XPureWith (res_of r)
  | L [A "fail"; m] -> XFail (hx m)
  | L [A "boxed"; p] -> XBoxed (cparser_of_sexp p)
  | L [A "complete"; p; k] -> let kk = menu_id k in XComplete (cparser_of_sexp p, (fun v -> completer_menu kk v), None)
  | L [A "complete-shell"; p; A kind] ->
    let cs s = (match utf8_decode (bytes_of_string s) with Some c -> c | None -> []) in
    let op = match kind with
      | "file" -> OpFile None | "filemask" -> OpFile (Some (cs "*.rs")) | "dir" -> OpDir None
      | "raw" -> OpRaw (cs "_b", cs "_z", cs "_f", cs "_e") | _ -> OpNothing in
    XCompShell (cparser_of_sexp p, op)
  | _ -> failwith "bad parser"

and cplist_of (ps : sexp list) : cplist =
  match ps with [] -> XNil | p :: t -> XCons (cparser_of_sexp p, cplist_of t)

and coptions_of_sexp (s : sexp) : coparser =
  match s with
  | L (A "options" :: p :: fields) ->
    let i = ref default_info in
    List.iter (fun f ->
        let d = !i in
        match f with
        | L [A "descr"; h] -> i := { d with i_descr = Some (text_doc (hx h)) }
        | L [A "header"; h] -> i := { d with i_header = Some (text_doc (hx h)) }
        | L [A "footer"; h] -> i := { d with i_footer = Some (text_doc (hx h)) }
        | L [A "version"; h] -> i := { d with i_version = Some (text_doc (hx h)) }
        | L [A "usage"; h] -> i := { d with i_usage = Some (text_doc (hx h)) }
        | L [A "help-names"; nm] -> i := { d with i_help_arg = named_of_sexp nm }
        | L [A "version-names"; nm] -> i := { d with i_version_arg = named_of_sexp nm }
        | L [A "fallback-to-usage"] -> i := { d with i_help_if_no_args = true }
        | L [A "max-width"; A w] -> i := { d with i_max_width = n_of_int (int_of_string w) }
        | _ -> failwith "bad options field") fields;
    XOptions (cparser_of_sexp p, !i)
  | _ -> failwith "bad options"

(* the parser of a build without completers: the wrappers erased (Model/CompEval.v erase) *)
let parser_of_sexp (s : sexp) : parser0 = erase (cparser_of_sexp s)
let options_of_sexp (s : sexp) : oparser = erase_o (coptions_of_sexp s)

(* ------------------------------------------------------------------ outcome printing *)
let doc_text (d : doc) : bytes =
  List.concat (List.map (function TText (_, s) -> s | _ -> []) d)

let msg_kind_text (m : message) : string * bytes =
  match m with
  | MsgNoEnv n -> ("NoEnv", n)
  | MsgParseSome t -> ("ParseSome", t)
  | MsgParseFail t -> ("ParseFail", t)
  | MsgPureFailed t -> ("PureFailed", t)
  | MsgMissing _ -> ("Missing", [])
  | MsgParseFailure _ -> ("ParseFailure", [])
  | MsgStrictPos (_, mv) -> ("StrictPos", mv)
  | MsgNonStrictPos (_, mv) -> ("NonStrictPos", mv)
  | MsgParseFailed (_, t) -> ("ParseFailed", t)
  | MsgGuardFailed (_, t) -> ("GuardFailed", t)
  | MsgNoArgument (_, mv) -> ("NoArgument", mv)
  | MsgUnconsumed ix -> ("Unconsumed", bytes_of_string (string_of_int (int_of_nat ix)))
  | MsgAmbiguity (_, s) -> ("Ambiguity", s)

let print_outcome (id : string) (o : outcome) =
  match o with
  | OutOk v -> Printf.printf "%s\tOK\t%s\n" id (string_of_val v)
  | OutStdout (HHelp (path, i, _, detailed)) ->
    Printf.printf "%s\tHELP\t%s\t%s\t%d\n" id
      (String.concat "," (List.map hex_of_bytes path))
      (match i.i_descr with Some d -> hex_of_bytes (doc_text d) | None -> "-")
      (if detailed then 1 else 0)
  | OutStdout (HVersion v) -> Printf.printf "%s\tVERSION\t%s\n" id (hex_of_bytes (doc_text v))
  | OutCompletion c -> Printf.printf "%s\tCOMP\t%s\n" id (hex_of_bytes c)
  | OutStderr m -> let (k, t) = msg_kind_text m in Printf.printf "%s\tSTDERR\t%s\t%s\n" id k (hex_of_bytes t)
  | OutPanic w -> Printf.printf "%s\tPANIC\t%d\n" id (int_of_n w)
  | OutFuel -> Printf.printf "%s\tFUEL\n" id

let style_name = function
  | SText -> "text" | SEmphasis -> "emphasis" | SLiteral -> "literal" | SMetavar -> "metavar" | SInvalid -> "invalid"
let block_name = function
  | BHeader -> "header" | BSection2 -> "section2" | BSection3 -> "section3" | BItemTerm -> "itemterm"
  | BItemBody -> "itembody" | BDefinitionList -> "definitionlist" | BBlock -> "block"
  | BInlineBlock -> "inlineblock" | BTermRef -> "termref" | BMeta -> "meta" | BMono -> "mono"
let string_of_doc (d : doc) : string =
  "(doc" ^ String.concat "" (List.map (function
      | TText (st, s) -> Printf.sprintf " (t %s %s)" (style_name st) (hex_of_bytes s)
      | TStart b -> Printf.sprintf " (s %s)" (block_name b)
      | TEnd b -> Printf.sprintf " (e %s)" (block_name b)) d) ^ ")"

(* ------------------------------------------------------------------ conventional levels (C01) *)
let arity_of = function
  | A "required" -> ARequired | A "optional" -> AOptional | A "many" -> AMany | A "some" -> ASome | A "last" -> ALast
  | L [A "fallback"; v] -> AFallback (val_of_sexp v)
  | _ -> failwith "bad arity"
let citem_of = function
  | L [A "switch"; nm] -> CSwitch (named_of_sexp nm)
  | L [A "flag"; nm; p; a] -> CFlag (named_of_sexp nm, val_of_sexp p, val_of_sexp a)
  | L [A "reqflag"; nm; p] -> CReqFlag (named_of_sexp nm, val_of_sexp p)
  | L [A "count"; nm] -> CCount (named_of_sexp nm)
  | L [A "reqmany"; nm; p] -> CReqMany (named_of_sexp nm, val_of_sexp p)
  | L [A "arg"; nm; mv; ty; ar] -> CArg (named_of_sexp nm, hx mv, ty_of ty, arity_of ar)
  | _ -> failwith "bad level item"
let parity_of = function
  | A "req" -> QReq | A "opt" -> QOpt | A "many" -> QMany | A "some" -> QSome | _ -> failwith "bad parity"
let rec level_of_sexp = function
  | L [A "level"; L (A "items" :: its); tail] ->
    let t = match tail with
      | L [A "none"] -> TNone
      | L (A "pos" :: ps) ->
        TPos (List.map (function L [A "p"; mv; ty; par] -> { cp_mv = hx mv; cp_ty = ty_of ty; cp_par = parity_of par }
                                 | _ -> failwith "bad positional") ps)
      | L (A "cmds" :: cs) ->
        TCmds (List.fold_right (fun c acc -> match c with
            | L [A "c"; name; L (A "aliases" :: al); sub] -> CCons (hx name, List.map hx al, level_of_sexp sub, acc)
            | _ -> failwith "bad command") cs CNil)
      | _ -> failwith "bad tail" in
    Level (List.map citem_of its, t)
  | _ -> failwith "bad level"

let string_of_outcome (o : outcome) : string =
  match o with
  | OutOk v -> "OK " ^ string_of_val v
  | OutStdout (HHelp _) -> "HELP"
  | OutStdout (HVersion _) -> "VERSION"
  | OutCompletion _ -> "COMP"
  | OutStderr m -> let (k, _) = msg_kind_text m in "STDERR " ^ k
  | OutPanic w -> "PANIC " ^ string_of_int (int_of_n w)
  | OutFuel -> "FUEL"

(* (conv ID LEVEL (argv HEX ..)): the declarative verdict and the operational outcome of the compiled parser *)
let run_conv (id : string) (lv : sexp) (fields : sexp list) =
  let l = level_of_sexp lv in
  let argv = match List.fold_left (fun acc f -> match f with L (A "argv" :: r) -> Some r | _ -> acc) None fields with
    | Some r -> List.map hx r | None -> [] in
  let v = match denote l argv with
    | Accept v -> "ACCEPT " ^ string_of_val v | Reject -> "REJECT" | Unspecified -> "UNSPEC" in
  let feat = { f_autocomplete = true; f_docgen = true; f_color = false } in
  let flat = match l with Level (items, tail) -> flat_okb items tail in
  let chain = chain_okb l in
  let tree = tree_okb l in
  Printf.printf "%s\tCONV\t%s\t%s\t%s\n" id v (string_of_outcome (run_inner feat (fun _ -> None) (compile_options l) None argv))
    (if flat then "flat_ok" else if chain && tree && plain_cmds l then "chain_ok+" else if chain then "chain_ok"
     else if tree && plain_cmds l then "tree_ok+" else if tree then "tree_ok" else "-")

(* ------------------------------------------------------------------ derive rules (C17) *)
let opt_hex = function A "-" -> None | h -> Some (hx h)
(* identifiers and names of the derive rules are sequences of characters (code points) *)
let dchars (s : sexp) = match utf8_decode (hx s) with Some cs -> cs | None -> failwith "not UTF-8"
let opt_dchars = function A "-" -> None | h -> Some (dchars h)
let hex_of_chars cs = hex_of_bytes (utf8_encode cs)
let nameanns_of (l : sexp list) : nameann list =
  List.map (function
      | L [A "s"; A "-"] -> NShort None
      | L [A "s"; A cp] -> NShort (Some (n_of_int (int_of_string cp)))
      | L [A "l"; A "-"] -> NLong None
      | L [A "l"; h] -> NLong (Some (dchars h))
      | L [A "e"; h] -> NEnv (hx h)
      | _ -> failwith "bad name annotation") l
let commas f l = if l = [] then "-" else String.concat "," (List.map f l)
let print_names id tag (sh, lo) =
  Printf.printf "%s\t%s\t%s\t%s\n" id tag (commas (fun c -> string_of_int (int_of_n c)) sh) (commas hex_of_chars lo)
let run_dfield (id : string) (fields : sexp list) =
  match fields with
  | [ident; A shape; L (A "names" :: names); cons; A fb; help] ->
    let sh = match shape with
      | "bool" -> ShBool | "unit" -> ShUnit | "optional" -> ShOptional | "multiple" -> ShMultiple | "direct" -> ShDirect
      | _ -> failwith "bad shape" in
    let ca = match cons with
      | A "-" -> None | A "switch" -> Some CASwitch | A "reqflag" -> Some CAReqFlag | A "flag" -> Some CAFlag
      | L [A "argument"; mv] -> Some (CAArgument (opt_hex mv))
      | L [A "positional"; mv] -> Some (CAPositional (opt_hex mv))
      | _ -> failwith "bad consumer annotation" in
    let fd = { fd_ident = opt_dchars ident; fd_shape = sh; fd_names = nameanns_of names; fd_cons = ca;
               fd_fallback = (fb = "1"); fd_help = opt_hex help } in
    (match derive_field fd with
     | None -> Printf.printf "%s\tPLAN\tERROR\n" id
     | Some p ->
       let cons = match p.pl_cons with
         | KSwitch -> "switch" | KReqFlagK -> "reqflag" | KFlagK -> "flag"
         | KArgumentK mv -> "argument:" ^ hex_of_bytes mv
         | KPositionalK mv -> "positional:" ^ hex_of_bytes mv in
       Printf.printf "%s\tPLAN\t%s\t%s\t%s\t%s\t%s\t%s\n" id
         (commas (fun c -> string_of_int (int_of_n c)) p.pl_short) (commas hex_of_chars p.pl_long)
         (commas hex_of_bytes p.pl_env) cons
         (commas (function PoOptional -> "optional" | PoMany -> "many" | PoFallback -> "fallback") p.pl_post)
         (match p.pl_help with Some h -> hex_of_bytes h | None -> "-"))
  | _ -> failwith "bad dfield"

(* ------------------------------------------------------------------ cases *)
let find_field (name : string) (fields : sexp list) : sexp list option =
  List.fold_left (fun acc f -> match f with L (A n :: rest) when n = name -> Some rest | _ -> acc) None fields

(* ------------------------------------------------------------------ documents *)
let style_of = function
  | "text" -> SText | "emphasis" -> SEmphasis | "literal" -> SLiteral | "metavar" -> SMetavar
  | "invalid" -> SInvalid | s -> failwith ("bad style " ^ s)
let block_of = function
  | "header" -> BHeader | "section2" -> BSection2 | "section3" -> BSection3 | "itemterm" -> BItemTerm
  | "itembody" -> BItemBody | "definitionlist" -> BDefinitionList | "block" -> BBlock
  | "inlineblock" -> BInlineBlock | "termref" -> BTermRef | "meta" -> BMeta | "mono" -> BMono
  | s -> failwith ("bad block " ^ s)

let cdoc_of_sexp (s : sexp) : cdoc =
  match s with
  | L (A "doc" :: toks) ->
    List.map (function
        | L [A "t"; A st; h] ->
          (match utf8_decode (hx h) with
           | Some cs -> CText (style_of st, cs)
           | None -> failwith "doc text is not UTF-8")
        | L [A "s"; A b] -> CStart (block_of b)
        | L [A "e"; A b] -> CEnd (block_of b)
        | _ -> failwith "bad doc token") toks
  | _ -> failwith "bad doc"

let doc_of_sexp (s : sexp) : doc =
  match s with
  | L (A "doc" :: toks) ->
    List.map (function
        | L [A "t"; A st; h] -> TText (style_of st, hx h)
        | L [A "s"; A b] -> TStart (block_of b)
        | L [A "e"; A b] -> TEnd (block_of b)
        | _ -> failwith "bad doc token") toks
  | _ -> failwith "bad doc"

(* (rdoc ID (doc ..) (full 0|1) (th HEX ..)): the html and roff renderers on an explicit document *)
let run_rdoc (id : string) (fields : sexp list) =
  let doc = match List.filter (function L (A "doc" :: _) -> true | _ -> false) fields with
    | [d] -> doc_of_sexp d | _ -> failwith "rdoc needs one doc" in
  let full = match find_field "full" fields with Some [A "0"] -> false | _ -> true in
  let th = match find_field "th" fields with Some l -> List.map hx l | None -> [] in
  let show = function Some b -> hex_of_bytes b | None -> "PANIC" in
  let console =
    try (let cdoc = match List.filter (function L (A "doc" :: _) -> true | _ -> false) fields with
           | [d] -> cdoc_of_sexp d | _ -> failwith "rdoc needs one doc" in
         match render_console true full (n_of_int 100) cdoc with
         | Some out -> hex_of_bytes (utf8_encode out)
         | None -> "PANIC")
    with Failure _ -> "NOTUTF8" in
  Printf.printf "%s\tRDOC\t%s\t%s\t%s\t%s\n" id (show (render_html full doc)) (show (render_roff th doc)) console
    (show (render_markdown full doc))

let run_render (id : string) (fields : sexp list) =
  let doc = match List.filter (function L (A "doc" :: _) -> true | _ -> false) fields with
    | [d] -> cdoc_of_sexp d | _ -> failwith "render needs one doc" in
  let widths = match find_field "widths" fields with
    | Some l -> List.map (function A w -> int_of_string w | _ -> failwith "bad width") l | None -> [100] in
  let full = match find_field "full" fields with Some [A "0"] -> false | _ -> true in
  let docgen = match find_field "feat" fields with Some l -> List.mem (A "docgen") l | None -> true in
  let one w = match render_console docgen full (n_of_int w) doc with
    | Some out -> Printf.sprintf "%d:%s" w (hex_of_bytes (utf8_encode out))
    | None -> Printf.sprintf "%d:PANIC" w in
  Printf.printf "%s\tRENDER\t%s\n" id (String.concat ";" (List.map one widths))

(* ------------------------------------------------------------------ shell renderers *)
let chars_of (s : sexp) : str =
  match utf8_decode (hx s) with Some cs -> cs | None -> failwith "not UTF-8"
let opt_chars = function A "-" -> None | h -> Some (chars_of h)

let run_shell (id : string) (rev : string) (fields : sexp list) =
  let items = match find_field "items" fields with
    | Some l -> List.map (function
        | L [A "i"; s; p; g; h] -> { sc_subst = chars_of s; sc_pretty = chars_of p; sc_group = opt_chars g; sc_help = opt_chars h }
        | _ -> failwith "bad item") l
    | None -> [] in
  let ops = match find_field "ops" fields with
    | Some l -> List.map (function
        | L [A "file"; m] -> OpFile (opt_chars m)
        | L [A "dir"; m] -> OpDir (opt_chars m)
        | L [A "raw"; b; z; f; e] -> OpRaw (chars_of b, chars_of z, chars_of f, chars_of e)
        | L [A "nothing"] -> OpNothing
        | _ -> failwith "bad op") l
    | None -> [] in
  let lit = match find_field "lit" fields with Some [h] -> chars_of h | _ -> [] in
  let out = match rev with
    | "7" -> render_zsh items ops lit
    | "8" -> render_bash items ops lit
    | "9" -> render_fish items ops lit
    | "1" -> render_simple items
    | _ -> failwith "bad revision" in
  Printf.printf "%s\tSHELL\t%s\n" id (hex_of_bytes (utf8_encode out))

(* ------------------------------------------------------------------ Complete::complete on explicit hints (C14) *)
let op_of_sexp = function
  | L [A "file"; m] -> OpFile (opt_chars m)
  | L [A "dir"; m] -> OpDir (opt_chars m)
  | L [A "raw"; b; z; f; e] -> OpRaw (chars_of b, chars_of z, chars_of f, chars_of e)
  | L [A "nothing"] -> OpNothing
  | _ -> failwith "bad op"
let rec nat_of_int (i : int) : nat = if i <= 0 then O else S (nat_of_int (i - 1))
let short_opt = function A "-" -> None | A cp -> Some (n_of_int (int_of_string cp)) | _ -> failwith "bad short"
let flag01 = function A "0" -> false | _ -> true
let show_str (s : str) = hex_of_bytes (utf8_encode s)
let show_ostr = function None -> "-" | Some s -> show_str s
let show_op = function
  | OpFile m -> "file:" ^ show_ostr m
  | OpDir m -> "dir:" ^ show_ostr m
  | OpRaw (b, z, f, e) -> Printf.sprintf "raw:%s:%s:%s:%s" (show_str b) (show_str z) (show_str f) (show_str e)
  | OpNothing -> "nothing"

let run_comps (id : string) (fields : sexp list) =
  let extra d g h = { ce_depth = nat_of_int (int_of_string d); ce_group = opt_chars g; ce_help = opt_chars h } in
  let hints = match find_field "hints" fields with
    | Some l -> List.concat_map (function
        | L [A "flag"; A d; g; h; s; lo] ->
          (match short_opt s, opt_chars lo with None, None -> [] | sh, l -> [CoFlag (extra d g h, sh, l)])
        | L [A "argument"; A d; g; h; s; lo; mv] ->
          (match short_opt s, opt_chars lo with None, None -> [] | sh, l -> [CoArgument (extra d g h, sh, l, chars_of mv)])
        | L [A "command"; A d; g; h; name; s] -> [CoCommand (extra d g h, chars_of name, short_opt s)]
        | L [A "value"; A d; g; h; body; a] -> [CoValue (extra d g h, chars_of body, flag01 a)]
        | L [A "meta"; A d; g; h; m; a] -> [CoMeta (extra d g h, chars_of m, flag01 a)]
        | L [A "shell"; A d; g; h; op; a] -> [CoShell (extra d g h, op_of_sexp op, flag01 a)]
        | _ -> failwith "bad hint") l
    | None -> [] in
  let arg = match find_field "arg" fields with Some [h] -> chars_of h | _ -> [] in
  let pos = match find_field "pos" fields with Some [a] -> flag01 a | _ -> false in
  let named = match find_field "named" fields with Some [a] -> flag01 a | _ -> false in
  let prefix = match find_field "prefix" fields with
    | Some [L [A "s"; c]] -> (match short_opt c with Some c -> PxShort c | None -> PxNA)
    | Some [L [A "l"; l]] -> PxLong (chars_of l)
    | _ -> PxNA in
  let (items, ops) = complete hints arg pos named prefix in
  let show_item i = Printf.sprintf "%s:%s:%s:%s" (show_str i.sc_subst) (show_str i.sc_pretty) (show_ostr i.sc_group) (show_ostr i.sc_help) in
  Printf.printf "%s\tCOMPLETE\t%s\t%s\n" id (String.concat ";" (List.map show_item items)) (String.concat ";" (List.map show_op ops))

let run_case (line : string) =
  match parse_sexp line with
  | L (A "shell" :: A id :: A rev :: fields) ->
    (try run_shell id rev fields with Failure m -> Printf.printf "%s\tBADCASE\t%s\n" id m)
  | L (A "comps" :: A id :: fields) ->
    (try run_comps id fields with Failure m -> Printf.printf "%s\tBADCASE\t%s\n" id m)
  | L (A "__never" :: A id :: A rev :: fields) ->
    (try run_shell id rev fields with Failure m -> Printf.printf "%s\tBADCASE\t%s\n" id m)
  | L [A "argmatch"; A id; arg; sh; lo] ->
    (try
       let short = match sh with A "-" -> None | A cp -> Some (n_of_int (int_of_string cp)) | _ -> failwith "bad short" in
       (match arg_matches (chars_of arg) short (opt_chars lo) with
        | Some n -> Printf.printf "%s\tMATCH\t%s\n" id (hex_of_bytes (utf8_encode n))
        | None -> Printf.printf "%s\tMATCH\t-\n" id)
     with Failure m -> Printf.printf "%s\tBADCASE\t%s\n" id m)
  | L [A "cmdmatch"; A id; arg; name; sh] ->
    (try
       let short = match sh with A "-" -> None | A cp -> Some (n_of_int (int_of_string cp)) | _ -> failwith "bad short" in
       Printf.printf "%s\tMATCH\t%b\n" id (cmd_matches (chars_of arg) (chars_of name) short)
     with Failure m -> Printf.printf "%s\tBADCASE\t%s\n" id m)
  | L [A "progname"; A id; h] ->
    (match program_name (Some (hx h)) with
     | Some n -> Printf.printf "%s\tNAME\t%s\n" id (hex_of_bytes n)
     | None -> Printf.printf "%s\tNAME\t-\n" id)
  | L (A "dfield" :: A id :: fields) ->
    (try run_dfield id fields with Failure m -> Printf.printf "%s\tBADCASE\t%s\n" id m)
  | L [A "grouphelp"; A id; d; e] ->
    Printf.printf "%s\tGROUPHELP\t%s\n" id (match group_help_of (opt_hex d) (opt_hex e) with Some h -> hex_of_bytes h | None -> "-")
  | L [A "optionshelp"; A id; doc; d; h; f] ->
    (try
       let o = function A "-" -> None | x -> Some (dchars x) in
       let ((dd, hh), ff) = options_help (o doc) (o d) (o h) (o f) in
       let sh = function Some b -> hex_of_chars b | None -> "-" in
       Printf.printf "%s\tOPTHELP\t%s\t%s\t%s\n" id (sh dd) (sh hh) (sh ff)
     with Failure m -> Printf.printf "%s\tBADCASE\t%s\n" id m)
  | L [A "kebab"; A id; h] -> Printf.printf "%s\tKEBAB\t%s\n" id (hex_of_chars (to_kebab_case (dchars h)))
  | L [A "unitnames"; A id; h; L (A "names" :: names)] ->
    (match unit_variant_names (dchars h) (nameanns_of names) with
     | Some r -> print_names id "UNITNAMES" r
     | None -> Printf.printf "%s\tUNITNAMES\tERROR\n" id)
  | L (A "conv" :: A id :: lv :: fields) ->
    (try run_conv id lv fields
     with Failure m -> Printf.printf "%s\tBADCASE\t%s\n" id m
        | Stack_overflow -> Printf.printf "%s\tBADCASE\tstack_overflow\n" id)
  | L (A "rdoc" :: A id :: fields) ->
    (try run_rdoc id fields
     with Failure m -> Printf.printf "%s\tBADCASE\t%s\n" id m
        | Stack_overflow -> Printf.printf "%s\tBADCASE\tstack_overflow\n" id)
  | L (A "render" :: A id :: fields) ->
    (try run_render id fields
     with Failure m -> Printf.printf "%s\tBADCASE\t%s\n" id m
        | Stack_overflow -> Printf.printf "%s\tBADCASE\tstack_overflow\n" id)
  | L (A "case" :: A id :: opts :: fields) ->
    (try
       let o = options_of_sexp opts in
       let argv = match find_field "argv" fields with Some l -> List.map hx l | None -> [] in
       let envl = match find_field "env" fields with
         | Some l -> List.map (function L [k; v] -> (hx k, hx v) | _ -> failwith "bad env") l
         | None -> [] in
       let env (k : bytes) = List.assoc_opt k envl in
       let name = match find_field "name" fields with Some [h] -> Some (hx h) | _ -> None in
       let feat_l = match find_field "feat" fields with Some l -> l | None -> [A "autocomplete"; A "docgen"] in
       let feat = { f_autocomplete = List.mem (A "autocomplete") feat_l;
                    f_docgen = List.mem (A "docgen") feat_l;
                    f_color = List.mem (A "color") feat_l } in
       let mode = match find_field "mode" fields with Some m -> m | None -> [A "parse"] in
       (match mode with
        | [A "parse"] when List.exists (fun w -> marker_rev w <> None) argv ->
          (* a completion marker on the line: the evaluator of the autocomplete build (Model/CompEval.v) *)
          (match c_run_inner feat env (coptions_of_sexp opts) name argv None with
           | OutCompletion t -> Printf.printf "%s\tCOMP\t%s\n" id (hex_of_bytes t)
           | other -> print_outcome id other)
        | [A "parse"] ->
          let (r, s') = run_inner_state feat env o name argv in
          (match r with
           | SFail (FStderr (m, d)) ->
             (* the text of the message: the document the failure carries (built by the command level that reported
                it), rendered as ParseFailure::unwrap_stderr does -- when every item is UTF-8 *)
             let text =
               if not (List.for_all (fun a -> utf8_valid (arg_os a)) s'.items) then "-"
               (* a value that is not UTF-8 (here: from the environment): the library quotes its lossy rendering,
                  the model's conversion error does not *)
               else if (match m with MsgParseFailed (_, t) -> hex_of_bytes t = "x206973206e6f7420612076616c69642075746638" | _ -> false) then "-"
               else (match d with
                   | None -> "PANIC"
                   | Some d ->
                     (match render_doc_text feat.f_docgen d with
                      | Some t -> hex_of_bytes (utf8_encode t)
                      | None -> "PANIC")) in
             let (k, t) = msg_kind_text m in
             Printf.printf "%s\tSTDERR\t%s\t%s\t%s\n" id k (hex_of_bytes t) text
           | _ -> print_outcome id (outcome_of r))
        | [A "comp"; A rev] ->
          let co = coptions_of_sexp opts in
          let rv = Some (nat_of_int (int_of_string rev)) in
          (match c_run_inner feat env co name argv rv with
           | OutCompletion t -> Printf.printf "%s\tCOMP\t%s\n" id (hex_of_bytes t)
           | other -> print_outcome id other);
          (* the premises of C14_request_never_value_or_error on this case: request on with a known revision, an item with
             valid UTF-8 text on the line *)
          let ((s0, k0), _) = c_initial_state co name argv rv in
          let known = (match k0 with Some c -> List.mem (int_of_nat c.cs_rev) [0; 1; 7; 8; 9] | None -> false) in
          Printf.printf "%s_t\tPREM\t%d\n" id (if known && lit_items s0 <> [] then 1 else 0)
        | [A "tokens"] ->
          let (st, amb) = initial_state o name argv in
          let show = function
            | Short (c, adj, os) -> Printf.sprintf "(short %d %b %s)" (int_of_n c) adj (hex_of_bytes os)
            | Long (l, adj, os) -> Printf.sprintf "(long %s %b %s)" (hex_of_bytes l) adj (hex_of_bytes os)
            | ArgWord w -> "(argword " ^ hex_of_bytes w ^ ")"
            | Word w -> "(word " ^ hex_of_bytes w ^ ")"
            | PosWord w -> "(posword " ^ hex_of_bytes w ^ ")" in
          Printf.printf "%s\tTOKENS\t%s\t%s\n" id (String.concat " " (List.map show st.items))
            (match amb with Some _ -> "ambiguous" | None -> "-")
        | [A "helpdoc"] ->
          (match run_inner feat env o name argv with
           | OutStdout (HHelp (path, i, m, detailed)) ->
             (match render_help env path i m (info_meta i) true with
              | Some d -> Printf.printf "%s\tHELPDOC\t%d\t%s\n" id (if detailed then 1 else 0) (string_of_doc d)
              | None -> Printf.printf "%s\tHELPDOC\tNONE\n" id)
           | other -> print_outcome id other)
        | [A "docs"; app] ->
          let app = hx app in
          let (m, i) = match o with Options (p, i) -> (meta_of p, i) in
          let show = function Some b -> hex_of_bytes b | None -> "PANIC" in
          let sd = function Some d -> string_of_doc d | None -> "NONE" in
          let bind o f = match o with Some x -> f x | None -> None in
          let dh = collect_html env app m i in
          let dr = manpage_doc env app m i in
          Printf.printf "%s\tDOCS\t%s\t%s\t%s\t%s\t%s\n" id
            (show (bind dh (render_html true))) (show (bind dr (render_roff (manpage_th app)))) (sd dh) (sd dr)
            (show (bind dh (render_markdown true)))
        | [A "invariant"] -> Printf.printf "%s\tINVARIANT\t%b\t%b\n" id (check_invariants_ok (match o with Options (p, _) -> meta_of p)) (oko o)
        | _ -> Printf.printf "%s\tBADMODE\n" id)
     with Failure m -> Printf.printf "%s\tBADCASE\t%s\n" id m
        | Not_found -> Printf.printf "%s\tBADCASE\tnot_found\n" id
        | Stack_overflow -> Printf.printf "%s\tBADCASE\tstack_overflow\n" id)
  | _ -> print_string "?\tBADCASE\tnot a case\n"

let () =
  let ic = if Array.length Sys.argv > 1 then open_in Sys.argv.(1) else stdin in
  (try
     while true do
       let line = input_line ic in
       if String.length line > 0 && line.[0] = '(' then run_case line
     done
   with End_of_file -> ());
  flush stdout
