(* Menu.v -- the fixed menu of named user closures used by the correspondence check.
   The Rust driver (harness/driver/src/menu.rs) implements the same functions; theorems never
   mention the menu: they quantify over arbitrary total functions. *)
From BpafModel Require Export Values.

Definition guard_menu (k : N) (v : val) : bool :=
  match k with
  | 0%N => true                                              (* always-true *)
  | 1%N => false                                             (* always-false *)
  | 2%N => match v with VNum z => (z <? 10)%Z | _ => false end        (* lt10 *)
  | 3%N => match v with                                      (* nonempty *)
           | VBytes b => negb (is_nil b)
           | VList l => negb (is_nil l)
           | _ => false
           end
  | 4%N => match v with VNum z => Z.even z | _ => false end  (* is-even *)
  | _ => true
  end.

Definition val_len (v : val) : Z :=
  match v with
  | VBytes b => Z.of_nat (length b)
  | VList l => Z.of_nat (length l)
  | VTuple l => Z.of_nat (length l)
  | _ => 0%Z
  end.

(* parse menu: k = 0 to-len, 1 parse-u32, 2 always-fail <text>, 3 small (fails unless < 100) *)
Definition parse_menu (k : N) (txt : bytes) (v : val) : val + bytes :=
  match k with
  | 0%N => inl (VNum (val_len v))
  | 1%N => match v with
           | VBytes b => convert TyU32 b
           | _ => inr txt
           end
  | 2%N => inr txt
  | 3%N => match v with
           | VNum z => if (z <? 100)%Z then inl (VNum z) else inr txt
           | _ => inr txt
           end
  | _ => inl v
  end.

(* map menu: 0 id, 1 len, 2 wrap, 3 not, 4 inc *)
Definition map_menu (k : N) (v : val) : val :=
  match k with
  | 0%N => v
  | 1%N => VNum (val_len v)
  | 2%N => VTuple [v]
  | 3%N => match v with VBool b => VBool (negb b) | _ => v end
  | 4%N => match v with VNum z => VNum (z + 1)%Z | _ => v end
  | _ => v
  end.

(* any menu: 0 any-all, 1 any-dash (items starting with '-'), 2 any-lit <text> *)
Definition any_menu (k : N) (txt : bytes) (os : bytes) : option val :=
  match k with
  | 0%N => Some (VBytes os)
  | 1%N => match os with c :: _ => if (c =? c_dash)%N then Some (VBytes os) else None | [] => None end
  | 2%N => if utf8_valid os && beqb os txt then Some VUnit else None
  | _ => None
  end.
