(* Tokenize.v -- src/arg.rs (Arg, split_os_argument) and the tokenizer half of
   src/args.rs (disambiguate_short, the loop of State::construct). *)
From BpafModel Require Export Syntax.

Inductive arg :=
| Short (c : char) (adj : bool) (os : bytes)
| Long (name : bytes) (adj : bool) (os : bytes)
| ArgWord (w : bytes)
| Word (w : bytes)
| PosWord (w : bytes).

Definition arg_os (a : arg) : bytes :=
  match a with
  | Short _ _ s | Long _ _ s | ArgWord s | Word s | PosWord s => s
  end.

Inductive argtype := ATShort | ATLong.

Definition is_eq_byte (b : N) : bool := (b =? c_eq)%N.

(* str_from_vec *)
Definition str_ok (name : bytes) : bool := utf8_valid name.

(* how many bytes the character starting with byte b takes (a stray continuation byte counts as one) *)
Definition utf8_first_len (b : N) : nat :=
  if (b <? 192)%N then 1 else if (b <? 224)%N then 2 else if (b <? 240)%N then 3 else 4.

(* split_os_argument (unix): result (type, name bytes [valid UTF-8], attached ArgWord payload) *)
Definition split_os_argument (input : bytes) : option (argtype * bytes * option bytes) :=
  match input with
  | d0 :: second :: rest =>
    if negb (d0 =? c_dash)%N then None
    else if (second =? c_dash)%N then
      (* long *)
      let '(name, after) := split_first is_eq_byte rest in
      match after with
      | Some body => if str_ok name then Some (ATLong, name, Some body) else None
      | None => if is_nil name then None
                else if str_ok name then Some (ATLong, name, None) else None
      end
    else
      (* short: the second element is pushed to the name whatever it is (even '=') *)
      let '(name_tl, after) := split_first is_eq_byte rest in
      let name := second :: name_tl in
      match after with
      | Some body =>
        (* (fix: commit) the name is the first CHARACTER; when more than it stands in front of the `=`,
           everything after it is the value *)
        let first := Nat.min (utf8_first_len second) (length name) in
        if Nat.ltb first (length name)
        then if str_ok (firstn first name)
             then Some (ATShort, firstn first name, Some (skipn first name ++ c_eq :: body))
             else None
        else if str_ok name then Some (ATShort, name, Some body) else None
      | None => if str_ok name then Some (ATShort, name, None) else None
      end
  | _ => None
  end.

(* ------------------------------------------------------------------ disambiguate_short *)
Inductive dis_result :=
| DisOk (pushed : list arg)          (* items appended *)
| DisAmbig (pushed : list arg).      (* Message::Ambiguity raised after pushing these *)

(* cs: the characters of the cluster; first: are we at ix = 0;
   first_flag / os: the two OsStrings that std::mem::take empties as they are used;
   acc: items pushed so far by this call (reversed). *)
Fixpoint dis_go (short_flags short_args : list char) (os : bytes) (cs : list char)
         (first : bool) (first_flag : bytes) (acc : list arg) : dis_result :=
  match cs with
  | [] => DisOk (rev acc)
  | c :: rest =>
    if first && is_nil rest then DisOk (rev (Short c false first_flag :: acc))
    else
      match mem_N c short_flags, mem_N c short_args with
      | true, false =>
        dis_go short_flags short_args os rest false [] (Short c false first_flag :: acc)
      | false, true =>
        let adjacent_body := negb (is_nil rest) in
        if adjacent_body
        then DisOk (rev (Word (utf8_encode rest) :: Short c true os :: acc))
        else DisOk (rev (Short c false os :: acc))
      | false, false => DisOk [Word os]
      | true, true => DisAmbig (rev (Word os :: acc))
      end
  end.

Definition disambiguate_short (short_flags short_args : list char) (os : bytes)
           (cs : list char) : dis_result :=
  dis_go short_flags short_args os cs true os [].

(* ------------------------------------------------------------------ State::construct, token part *)
Definition dashdash : bytes := [c_dash; c_dash].

Record tokenized := mkTok {
  t_items : list arg;
  t_marker : option nat;          (* index of the `--` item *)
  t_ambiguity : option (nat * bytes) }.

(* items are accumulated in order (acc holds them reversed) *)
Fixpoint tok_go (short_flags short_args : list char) (argv : list bytes)
         (pos_only : bool) (acc : list arg) (marker : option nat) : tokenized :=
  match argv with
  | [] => mkTok (rev acc) marker None
  | os :: more =>
    if pos_only then tok_go short_flags short_args more true (PosWord os :: acc) marker
    else
      match split_os_argument os with
      | Some (ATShort, short, None) =>
        match utf8_decode short with
        | None => mkTok (rev acc) marker None    (* unreachable: short is valid UTF-8 *)
        | Some cs =>
          match disambiguate_short short_flags short_args os cs with
          | DisOk pushed => tok_go short_flags short_args more false (rev pushed ++ acc) marker
          | DisAmbig pushed =>
            (* Ambiguity(items.len() before the Word push, short); then `break` *)
            let all := rev (rev pushed ++ acc) in
            mkTok all marker (Some (pred (length all), short))
          end
        end
      | Some (ATShort, short, Some body) =>
        match utf8_decode short with
        | Some (c :: _) =>
          tok_go short_flags short_args more false (ArgWord body :: Short c true os :: acc) marker
        | _ => mkTok (rev acc) marker None       (* unreachable *)
        end
      | Some (ATLong, long, Some body) =>
        tok_go short_flags short_args more false (ArgWord body :: Long long true os :: acc) marker
      | Some (ATLong, long, None) =>
        tok_go short_flags short_args more false (Long long false os :: acc) marker
      | None =>
        if beqb os dashdash
        then tok_go short_flags short_args more true (PosWord os :: acc) (Some (length acc))
        else tok_go short_flags short_args more false (Word os :: acc) marker
      end
  end.

Definition tokenize (short_flags short_args : list char) (argv : list bytes) : tokenized :=
  tok_go short_flags short_args argv false [] None.
