(* Message.v -- src/error.rs Message::render (+ check_conflicts, only_once, textual_part,
   summarize_missing) and src/meta_youmean.rs (suggest, damerau_levenshtein): from the error a failed run
   reports, the state it was reported in and the metadata of the level, to the document printed on stderr.
   Indexing that panics in the Rust code (`args.items[ix]`, the two `unwrap`s of Ambiguity) is an explicit
   `None`.  Modelled domain: the items the text quotes are valid UTF-8 (`to_string_lossy` is the identity). *)
From Coq Require Import Ascii String.
From BpafModel Require Export State Help Console Docs.
Import ListNotations.

(* ------------------------------------------------------------------ fixed vocabulary *)
Definition m_hidden : bytes := Eval vm_compute in
  bs "parser requires an extra flag, argument or parameter, but its name is hidden by the author".
Definition m_not_expected : bytes := Eval vm_compute in bs " is not expected in this context".
Definition m_env_var : bytes := Eval vm_compute in bs "environment variable ".
Definition m_is_not_set : bytes := Eval vm_compute in bs " is not set".
Definition m_expected : bytes := Eval vm_compute in bs "expected ".
Definition m_right_side : bytes := Eval vm_compute in bs " to be on the right side of ".
Definition m_left_side : bytes := Eval vm_compute in bs " to be on the left side of ".
Definition m_couldnt : bytes := Eval vm_compute in bs "couldn't parse".
Definition m_colon_sp : bytes := Eval vm_compute in bs ": ".
Definition m_check_failed : bytes := Eval vm_compute in bs "check failed: ".
Definition m_requires : bytes := Eval vm_compute in bs " requires an argument ".
Definition m_got_flag : bytes := Eval vm_compute in bs ", got a flag ".
Definition m_try : bytes := Eval vm_compute in bs ", try ".
Definition m_to_use : bytes := Eval vm_compute in bs " to use it as an argument".
Definition m_supports : bytes := Eval vm_compute in bs " supports ".
Definition m_app_supports : bytes := Eval vm_compute in bs "app supports ".
Definition m_as_both : bytes := Eval vm_compute in bs " as both an option and an option-argument, try to split ".
Definition m_into : bytes := Eval vm_compute in bs " into individual options (".
Definition m_sp_dash : bytes := Eval vm_compute in bs " -".
Definition m_dotdot : bytes := Eval vm_compute in bs " ..".
Definition m_or_use : bytes := Eval vm_compute in bs ") or use ".
Definition m_syntax : bytes := Eval vm_compute in bs " syntax to disambiguate".
Definition m_no_such : bytes := Eval vm_compute in bs "no such ".
Definition m_flag : bytes := Eval vm_compute in bs "flag".
Definition m_argval : bytes := Eval vm_compute in bs "argument value".
Definition m_cmd_or_pos : bytes := Eval vm_compute in bs "command or positional".
Definition m_did_you_mean : bytes := Eval vm_compute in bs ", did you mean ".
Definition m_q : bytes := Eval vm_compute in bs "?".
Definition m_no_such_flag : bytes := Eval vm_compute in bs "no such flag: ".
Definition m_one_dash : bytes := Eval vm_compute in bs " (with one dash), did you mean ".
Definition m_two_dashes : bytes := Eval vm_compute in bs " (with two dashes), did you mean ".
Definition m_subcommand : bytes := Eval vm_compute in bs "subcommand".
Definition m_not_valid : bytes := Eval vm_compute in bs " is not valid in this context, did you mean to pass it to command ".
Definition m_no_arguments : bytes := Eval vm_compute in bs "no arguments".
Definition m_or : bytes := Eval vm_compute in bs " or ".
Definition m_comma : bytes := Eval vm_compute in bs ", ".
Definition m_or_more : bytes := Eval vm_compute in bs ", or more".
Definition m_got : bytes := Eval vm_compute in bs ", got ".
Definition m_dot_pass : bytes := Eval vm_compute in bs ". Pass ".
Definition m_comma_pass : bytes := Eval vm_compute in bs ", pass ".
Definition m_help : bytes := Eval vm_compute in bs "--help".
Definition m_for_usage : bytes := Eval vm_compute in bs " for usage information".
Definition m_cannot_same : bytes := Eval vm_compute in bs " cannot be used at the same time as ".
Definition m_argument : bytes := Eval vm_compute in bs "argument ".
Definition m_multiple : bytes := Eval vm_compute in bs " cannot be used multiple times in this context".

(* ------------------------------------------------------------------ small helpers *)
(* Display for Arg *)
Definition arg_text (a : arg) : bytes :=
  match a with
  | Short c _ _ => c_dash :: utf8_encode_char c
  | Long l _ _ => c_dash :: c_dash :: l
  | ArgWord w | Word w | PosWord w => w
  end.

Fixpoint strip_prefix (p s : bytes) : option bytes :=
  match p, s with
  | [], _ => Some s
  | a :: p', b :: s' => if (a =? b)%N then strip_prefix p' s' else None
  | _ :: _, [] => None
  end.

Definition obeqb (a : option bytes) (b : bytes) : bool :=
  match a with Some x => beqb x b | None => false end.

(* ShortLong == &str *)
Definition sl_eq_str (n : shortlong) (s : bytes) : bool :=
  let short_eq c := obeqb (strip_prefix [c_dash] s) (utf8_encode_char c) in
  let long_eq l := obeqb (strip_prefix [c_dash; c_dash] s) l in
  match n with
  | SLShort c => short_eq c
  | SLLong l => long_eq l
  | SLBoth c l => short_eq c || long_eq l
  end.

Definition sl_long (n : shortlong) : option bytes :=
  match n with SLLong l | SLBoth _ l => Some l | SLShort _ => None end.
Definition sl_short (n : shortlong) : option char :=
  match n with SLShort c | SLBoth c _ => Some c | SLLong _ => None end.

(* ------------------------------------------------------------------ damerau_levenshtein *)
(* A faithful transcription: the matrix is one vector indexed by `a_len * j + i` (sic: the stride is a_len,
   not a_len + 1, so cells of neighbouring rows alias), `pb` is not reset between rows.  None = usize::MAX. *)
Definition dl_get (d : list nat) (k : nat) : nat := nth k d O.

Fixpoint dl_init_i (d : list nat) (i n : nat) : list nat :=      (* d[i] = i for i in [i, i+n) *)
  match n with O => d | S n' => dl_init_i (update_nth i i d) (S i) n' end.
Fixpoint dl_init_j (alen : nat) (d : list nat) (j n : nat) : list nat :=   (* d[alen*j] = j *)
  match n with O => d | S n' => dl_init_j alen (update_nth (alen * j) j d) (S j) n' end.

Fixpoint dl_row (alen i : nat) (ca pa : char) (bs0 : list char) (j : nat) (pb : char) (d : list nat)
  : list nat * char :=
  match bs0 with
  | [] => (d, pb)
  | cb :: t =>
    let ix (ii jj : nat) := alen * jj + ii in
    let cost := if (ca =? cb)%N then O else 1 in
    let v := Nat.min (Nat.min (dl_get d (ix (i - 1) j) + 1) (dl_get d (ix i (j - 1)) + 1))
                     (dl_get d (ix (i - 1) (j - 1)) + cost) in
    let d1 := update_nth (ix i j) v d in
    let d2 := if Nat.ltb 1 i && Nat.ltb 1 j && (ca =? pb)%N && (cb =? pa)%N
              then update_nth (ix i j) (Nat.min (dl_get d1 (ix i j)) (dl_get d1 (ix (i - 2) (j - 2)) + 1)) d1
              else d1 in
    dl_row alen i ca pa t (S j) cb d2
  end.

Fixpoint dl_rows (alen : nat) (as0 bs0 : list char) (i : nat) (pa pb : char) (d : list nat) : list nat :=
  match as0 with
  | [] => d
  | ca :: t =>
    let '(d', pb') := dl_row alen i ca pa bs0 1 pb d in
    dl_rows alen t bs0 (S i) ca pb' d'
  end.

Definition damerau_levenshtein (a b : list char) : option nat :=
  let alen := length a in
  let blen := length b in
  let d0 := repeat O ((alen + 1) * (blen + 1)) in
  let d1 := dl_init_i d0 O (S alen) in
  let d2 := dl_init_j alen d1 O (S blen) in
  let d3 := dl_rows alen a b 1 0%N 0%N d2 in
  let diff := dl_get d3 (alen * blen + alen) in
  if Nat.leb (Nat.min alen blen) diff then None else Some diff.

(* ------------------------------------------------------------------ suggest *)
Inductive variant := VCommandLong (name : bytes) | VFlag (n : shortlong).
Inductive sugg :=
| SgVariant (v : variant)
| SgMissingDash (l : bytes)
| SgExtraDash (c : char)
| SgNested (x : bytes) (v : variant).

Definition chars_of (s : bytes) : list char := match utf8_decode s with Some cs => cs | None => [] end.

Record sstate := mkSS { ss_dist : option nat; ss_match : option variant; ss_nest : option (bytes * variant) }.

Definition improve (st : sstate) (dist : option nat) (v : variant) : sstate :=
  match dist with
  | Some dd =>
    let better := match ss_dist st with None => true | Some b => Nat.ltb dd b end in
    if better && Nat.ltb 0 dd && Nat.ltb dd 4 then mkSS (Some dd) (Some v) (ss_nest st) else st
  | None => st
  end.

Fixpoint scan_nested (actual name : bytes) (items : list helpitem) (nest : option (bytes * variant))
  : option (bytes * variant) :=
  match items with
  | [] => nest
  | HCommand nname _ _ _ _ :: t =>
    scan_nested actual name t (if beqb nname actual then Some (name, VCommandLong nname) else nest)
  | HFlag nname _ _ :: t | HArgument nname _ _ _ :: t =>
    scan_nested actual name t (if sl_eq_str nname actual then Some (name, VFlag nname) else nest)
  | _ :: t => scan_nested actual name t nest
  end.

(* the loop over the help items of this level; inl = early return (ExtraDash) *)
Fixpoint suggest_go (actual : bytes) (items : list helpitem) (st : sstate) : char + sstate :=
  match items with
  | [] => inr st
  | HCommand name _ _ m' _ :: t =>
    let st1 := improve st (damerau_levenshtein (chars_of actual) (chars_of name)) (VCommandLong name) in
    let nest := scan_nested actual name (append_meta [] m') (ss_nest st1) in
    suggest_go actual t (mkSS (ss_dist st1) (ss_match st1) nest)
  | HFlag name _ _ :: t | HArgument name _ _ _ :: t =>
    let st1 := match sl_long name with
               | Some long => improve st (damerau_levenshtein (chars_of actual) (chars_of (c_dash :: c_dash :: long))) (VFlag name)
               | None => st
               end in
    match sl_short name with
    | Some short =>
      if obeqb (strip_prefix [c_dash; c_dash] actual) (utf8_encode_char short) then inl short
      else suggest_go actual t st1
    | None => suggest_go actual t st1
    end
  | _ :: t => suggest_go actual t st
  end.

Definition suggest (s : state) (m : meta) : option (nat * sugg) :=
  match first_item_ix s with
  | None => None
  | Some ix =>
    match nth_error (items s) ix with
    | None => None
    | Some a =>
      if is_nil (arg_os a) then None
      else match a with
           | PosWord _ => None
           | _ =>
             let actual := arg_text a in
             match suggest_go actual (append_meta [] m) (mkSS None None None) with
             | inl short => Some (ix, SgExtraDash short)
             | inr st =>
               match ss_nest st with
               | Some (name, v) => Some (ix, SgNested name v)
               | None =>
                 match ss_dist st, ss_match st with
                 | Some _, Some best =>
                   match best with
                   | VFlag n =>
                     match sl_long n with
                     | Some long => if obeqb (strip_prefix [c_dash] actual) long then Some (ix, SgMissingDash long)
                                    else Some (ix, SgVariant best)
                     | None => Some (ix, SgVariant best)
                     end
                   | _ => Some (ix, SgVariant best)
                   end
                 | _, _ => None
                 end
               end
             end
           end
    end
  end.

(* ------------------------------------------------------------------ the messages render works with *)
Inductive rmsg :=
| RPlain (m : message)
| RConflict (winner loser : nat)
| ROnlyOnce (winner loser : nat)
| RSuggestion (ix : nat) (s : sugg)
| RExpected (exp : list item) (actual : option nat).

(* only_once: the previous occurrence of the same short / long name *)
Definition only_once (s : state) (cur : nat) : option nat :=
  if Nat.eqb cur 0 then None
  else
    let before := firstn cur (items s) in
    let off :=
      match nth_error (items s) cur with
      | Some (Short c _ _) => Help.position (fun a => match a with Short c' _ _ => (c' =? c)%N | _ => false end) (rev before)
      | Some (Long l _ _) => Help.position (fun a => match a with Long l' _ _ => beqb l' l | _ => false end) (rev before)
      | _ => None
      end in
    match off with Some o => Some (cur - o - 1) | None => None end.

Definition is_cmd_item (i : item) : bool := match i with ICommand _ _ _ _ _ => true | _ => false end.

(* max_by_key keeps the LAST of several maximal elements *)
Definition key_le (a b : nat * nat) : bool :=
  Nat.ltb (fst a) (fst b) || (Nat.eqb (fst a) (fst b) && Nat.leb (snd a) (snd b)).
Fixpoint best_missing (xs : list missing_item) (best : option missing_item) : option missing_item :=
  match xs with
  | [] => best
  | x :: t =>
    let kx := (mi_position x, fst (mi_scope x)) in
    match best with
    | None => best_missing t (Some x)
    | Some b => if key_le (mi_position b, fst (mi_scope b)) kx then best_missing t (Some x) else best_missing t best
    end
  end.

Fixpoint expected_items (xs : list missing_item) (scope : nat * nat) (saw : bool) : list item :=
  match xs with
  | [] => []
  | x :: t =>
    let cmd := is_cmd_item (mi_item x) in
    if Nat.eqb (fst (mi_scope x)) (fst scope) && Nat.eqb (snd (mi_scope x)) (snd scope) && negb (saw && cmd)
    then mi_item x :: expected_items t scope (saw || cmd)
    else expected_items t scope saw
  end.

(* None: State::set_scope panics *)
Definition summarize_missing (xs : list missing_item) (m : meta) (s : state) : option rmsg :=
  match best_missing xs None with
  | None => Some (RPlain (MsgParseSome m_hidden))
  | Some best =>
    let scope := mi_scope best in
    let exp := expected_items xs scope false in
    match set_scope s (Nat.max (fst scope) (mi_position best)) (snd scope) with
    | None => None
    | Some s' =>
      match first_item_ix s' with
      | Some ix =>
        match suggest s' m with
        | Some (ix', sg) => Some (RSuggestion ix' sg)
        | None => Some (RExpected exp (Some ix))
        end
      | None => Some (RExpected exp None)
      end
    end
  end.

Definition pre_render (msg : message) (s : state) (m : meta) : option rmsg :=
  match msg with
  | MsgUnconsumed ix =>
    match conflict s with
    | Some (loser, winner) => Some (RConflict winner loser)
    | None =>
      match only_once s ix with
      | Some prev => Some (ROnlyOnce prev ix)
      | None =>
        match suggest s m with
        | Some (ix', sg) => Some (RSuggestion ix' sg)
        | None => Some (RPlain msg)
        end
      end
    end
  | MsgMissing xs => summarize_missing xs m s
  | _ => Some (RPlain msg)
  end.

(* ------------------------------------------------------------------ the document *)
Definition tref (d : doc) (f : doc -> doc) : doc := dtok (f (dtok d (TStart BTermRef))) (TEnd BTermRef).

Definition textual_part (s : state) (ix : option nat) : option bytes :=
  match ix with
  | None => None
  | Some i =>
    match nth_error (items s) i with
    | Some (ArgWord w) | Some (Word w) | Some (PosWord w) => Some w
    | _ => None
    end
  end.

Definition variant_doc (d : doc) (v : variant) : doc :=
  match v with
  | VCommandLong name => dwrite d SLiteral name
  | VFlag (SLLong l) | VFlag (SLBoth _ l) => dwrite (dwrite d SLiteral [c_dash; c_dash]) SLiteral l
  | VFlag (SLShort c) => dchar (dwrite d SLiteral [c_dash]) SLiteral c
  end.

(* None = an index out of range / an unwrap of None: a panic of the Rust code *)
Definition render_doc (r : rmsg) (s : state) : option doc :=
  let item_at ix := nth_error (items s) ix in
  match r with
  | RPlain msg =>
    match msg with
    | MsgParseFailure _ => None          (* handled by the caller: already rendered *)
    | MsgMissing _ => Some []            (* unreachable *)
    | MsgUnconsumed ix =>
      match item_at ix with
      | Some a => Some (dwrite (tref [] (fun d => dwrite d SInvalid (arg_text a))) SText m_not_expected)
      | None => None
      end
    | MsgNoEnv name =>
      Some (dwrite (tref (dwrite [] SText m_env_var) (fun d => dwrite d SInvalid name)) SText m_is_not_set)
    | MsgStrictPos _ mv =>
      Some (tref (dwrite (tref (dwrite [] SText m_expected) (fun d => dmetavar d mv)) SText m_right_side)
                 (fun d => dwrite d SLiteral [c_dash; c_dash]))
    | MsgNonStrictPos _ mv =>
      Some (tref (dwrite (tref (dwrite [] SText m_expected) (fun d => dmetavar d mv)) SText m_left_side)
                 (fun d => dwrite d SLiteral [c_dash; c_dash]))
    | MsgParseSome t | MsgParseFail t | MsgPureFailed t => Some (dwrite [] SText t)
    | MsgParseFailed mix t =>
      let d1 := dwrite [] SText m_couldnt in
      let d2 := match textual_part s mix with
                | Some field => tref (dwrite d1 SText [c_space]) (fun d => dwrite d SInvalid field)
                | None => d1
                end in
      Some (dwrite (dwrite d2 SText m_colon_sp) SText t)
    | MsgGuardFailed mix t =>
      let d1 := match textual_part s mix with
                | Some field => dwrite (tref [] (fun d => dwrite d SInvalid field)) SText m_colon_sp
                | None => dwrite [] SText m_check_failed
                end in
      Some (dwrite d1 SText t)
    | MsgNoArgument x mv =>
      match item_at x with
      | None => None
      | Some a =>
        let head := dwrite (tref [] (fun d => dwrite d SLiteral (arg_text a))) SText m_requires in
        let head := tref head (fun d => dmetavar d mv) in
        match get s (S x) with
        | Some (Short _ _ os) | Some (Long _ _ os) =>
          let d1 := dwrite head SText m_got_flag in
          let d2 := tref d1 (fun d => dwrite d SInvalid os) in
          let d3 := dwrite d2 SText m_try in
          let d4 := tref d3 (fun d => dwrite (dwrite (dwrite d SLiteral (arg_text a)) SLiteral [c_eq]) SLiteral os) in
          Some (dwrite d4 SText m_to_use)
        | _ => Some head
        end
      end
    | MsgAmbiguity ix name =>
      match utf8_decode name, item_at ix with
      | Some (first :: second :: rest'), Some a =>
        let rest := utf8_encode (second :: rest') in
        let sraw := arg_os a in
        let d0 := match path s with
                  | nm :: _ => dwrite (dwrite [] SLiteral nm) SText m_supports
                  | [] => dwrite [] SText m_app_supports
                  end in
        let d1 := tref d0 (fun d => dchar (dwrite d SLiteral [c_dash]) SLiteral first) in
        let d2 := dwrite d1 SText m_as_both in
        let d3 := tref d2 (fun d => dwrite d SLiteral sraw) in
        let d4 := dwrite d3 SText m_into in
        let d5 := dwrite (dchar (dwrite (dchar (dwrite d4 SLiteral [c_dash]) SLiteral first) SLiteral m_sp_dash) SLiteral second)
                         SLiteral m_dotdot in
        let d6 := dwrite d5 SText m_or_use in
        let d7 := tref d6 (fun d => dwrite (dwrite (dchar (dwrite d SLiteral [c_dash]) SLiteral first) SLiteral [c_eq]) SLiteral rest) in
        Some (dwrite d7 SText m_syntax)
      | _, _ => None
      end
    end
  | RSuggestion ix sg =>
    match item_at ix with
    | None => None
    | Some a =>
      let actual := arg_text a in
      match sg with
      | SgVariant v =>
        let ty := match actual with
                  | c :: _ => if (c =? c_dash)%N then m_flag
                              else match a with
                                   | Short _ _ _ | Long _ _ _ => m_flag
                                   | ArgWord _ => m_argval
                                   | _ => m_cmd_or_pos
                                   end
                  | [] => match a with
                          | Short _ _ _ | Long _ _ _ => m_flag
                          | ArgWord _ => m_argval
                          | _ => m_cmd_or_pos
                          end
                  end in
        let d1 := dwrite (dwrite (dwrite [] SText m_no_such) SText ty) SText m_colon_sp in
        let d2 := tref d1 (fun d => dwrite d SInvalid actual) in
        let d3 := dwrite d2 SText m_did_you_mean in
        let d4 := tref d3 (fun d => variant_doc d v) in
        Some (dwrite d4 SText m_q)
      | SgMissingDash name =>
        let d1 := tref (dwrite [] SText m_no_such_flag) (fun d => dwrite (dwrite d SLiteral [c_dash]) SLiteral name) in
        let d2 := tref (dwrite d1 SText m_one_dash) (fun d => dwrite (dwrite d SLiteral [c_dash; c_dash]) SLiteral name) in
        Some (dwrite d2 SText m_q)
      | SgExtraDash c =>
        let d1 := tref (dwrite [] SText m_no_such_flag) (fun d => dchar (dwrite d SLiteral [c_dash; c_dash]) SLiteral c) in
        let d2 := tref (dwrite d1 SText m_two_dashes) (fun d => dchar (dwrite d SLiteral [c_dash]) SLiteral c) in
        Some (dwrite d2 SText m_q)
      | SgNested x v =>
        let ty := match v with VCommandLong _ => m_subcommand | VFlag _ => m_flag end in
        let d1 := dwrite (dwrite [] SText ty) SText [c_space] in
        let d2 := tref d1 (fun d => dwrite d SLiteral actual) in
        let d3 := tref (dwrite d2 SText m_not_valid) (fun d => dwrite d SLiteral x) in
        Some (dwrite d3 SText m_q)
      end
    end
  | RExpected exp actual =>
    let d0 := dwrite [] SText m_expected in
    let it d i := tref d (fun d => dwrite_item d i) in
    let d1 := match exp with
              | [] => dwrite d0 SText m_no_arguments
              | [a] => it d0 a
              | [a; b] => it (dwrite (it d0 a) SText m_or) b
              | a :: b :: _ => dwrite (it (dwrite (it d0 a) SText m_comma) b) SText m_or_more
              end in
    match actual with
    | Some ix =>
      match item_at ix with
      | None => None
      | Some a =>
        let d2 := tref (dwrite d1 SText m_got) (fun d => dwrite d SInvalid (arg_text a)) in
        Some (dwrite (tref (dwrite d2 SText m_dot_pass) (fun d => dwrite d SLiteral m_help)) SText m_for_usage)
      end
    | None =>
      Some (dwrite (tref (dwrite d1 SText m_comma_pass) (fun d => dwrite d SLiteral m_help)) SText m_for_usage)
    end
  | RConflict winner loser =>
    match item_at loser, item_at winner with
    | Some l, Some w =>
      Some (tref (dwrite (tref [] (fun d => dwrite d SLiteral (arg_text l))) SText m_cannot_same)
                 (fun d => dwrite d SLiteral (arg_text w)))
    | _, _ => None
    end
  | ROnlyOnce _ loser =>
    match item_at loser with
    | Some l => Some (dwrite (tref (dwrite [] SText m_argument) (fun d => dwrite d SLiteral (arg_text l))) SText m_multiple)
    | None => None
    end
  end.

(* Message::render for a message that is not an already rendered failure: the stderr document *)
Definition render_message (msg : message) (s : state) (m : meta) : option doc :=
  match pre_render msg s m with
  | Some r => render_doc r s
  | None => None
  end.

(* the text `ParseFailure::Stderr(doc)` prints: doc.monochrome(true) *)
Definition cdoc_of (d : doc) : option cdoc :=
  let step (t : dtoken) (acc : option cdoc) : option cdoc :=
    match acc, t with
    | None, _ => None
    | Some l, TText sty s => match utf8_decode s with Some cs => Some (CText sty cs :: l) | None => None end
    | Some l, TStart b => Some (CStart b :: l)
    | Some l, TEnd b => Some (CEnd b :: l)
    end in
  fold_right step (Some []) d.

(* the text of a document a failure carries *)
Definition render_doc_text (docgen : bool) (d : doc) : option str :=
  match cdoc_of d with Some cd => render_console docgen true 100%N cd | None => None end.

Definition render_message_text (docgen : bool) (msg : message) (s : state) (m : meta) : option str :=
  match render_message msg s m with
  | Some d => match cdoc_of d with Some cd => render_console docgen true 100%N cd | None => None end
  | None => None
  end.
