(* Shell.v -- src/complete_shell.rs: single-quote escaping and the per-shell completion renderers
   (zsh rev 7, bash rev 8, fish rev 9, elvish/simple rev 1), and src/complete_gen.rs ShowComp's
   Display, arg_matches, cmd_matches.  Strings are lists of Unicode scalar values. *)
From BpafModel Require Export Console.

Record showcomp := mkShow {
  sc_subst : str;
  sc_pretty : str;
  sc_group : option str;
  sc_help : option str }.

Inductive shellop :=
| OpFile (mask : option str)
| OpDir (mask : option str)
| OpRaw (bash zsh fish elvish : str)
| OpNothing.

Definition q : N := 39%N.          (* ' *)
Definition bsl : N := 92%N.        (* \ *)
Definition tab : N := 9%N.

(* impl Display for Shell *)
Definition quote_char (c : N) : str := if (c =? q)%N then [q; bsl; q; q] else [c].
Definition quote (s : str) : str := q :: flat_map quote_char s ++ [q].

(* ASCII helper for literals of the renderers *)
Definition lit (l : list N) : str := l.

Definition s_compadd_dd : str := [99;111;109;112;97;100;100;32;45;45;32]%N.                    (* "compadd -- " *)
Definition s_files : str := [95;102;105;108;101;115]%N.                                       (* "_files" *)
Definition s_files_g : str := [95;102;105;108;101;115;32;45;103;32]%N.                        (* "_files -g " *)
Definition s_files_d : str := [95;102;105;108;101;115;32;45;47]%N.                            (* "_files -/" *)
Definition s_files_dg : str := [95;102;105;108;101;115;32;45;47;32;45;103;32]%N.              (* "_files -/ -g " *)
Definition s_compadd_empty : str := [99;111;109;112;97;100;100;32;39;39]%N.                   (* "compadd ''" *)
Definition s_local_descr : str := [108;111;99;97;108;32;45;97;32;100;101;115;99;114]%N.       (* "local -a descr" *)
Definition s_descr_open : str := [100;101;115;99;114;61;40]%N.                                (* "descr=(" *)
Definition s_compadd_grp : str := [99;111;109;112;97;100;100;32;45;108;32;45;100;32;100;101;115;99;114;32;45;86;32]%N.
                                                                 (* "compadd -l -d descr -V " *)
Definition s_dash_X : str := [32;45;88;32]%N.                                                 (* " -X " *)
Definition s_dd : str := [32;45;45;32]%N.                                                     (* " -- " *)
Definition s_compadd_nosort : str :=
  [99;111;109;112;97;100;100;32;45;108;32;45;86;32;110;111;115;111;114;116;32;45;100;32;100;101;115;99;114;32;45;45;32]%N.
                                                                 (* "compadd -l -V nosort -d descr -- " *)
Definition s_compreply_open : str := [67;79;77;80;82;69;80;76;89;43;61;40]%N.                 (* "COMPREPLY+=(" *)
Definition s_compreply_open_sp : str := [67;79;77;80;82;69;80;76;89;43;61;40;32]%N.           (* "COMPREPLY+=( " *)
Definition s_init : str :=
  [108;111;99;97;108;32;99;117;114;32;112;114;101;118;32;119;111;114;100;115;32;99;119;111;114;100;32;59;32;
   95;105;110;105;116;95;99;111;109;112;108;101;116;105;111;110;32;124;124;32;114;101;116;117;114;110;32;59]%N.
                                       (* "local cur prev words cword ; _init_completion || return ;" *)
Definition s_filedir : str := [32;95;102;105;108;101;100;105;114]%N.                          (* " _filedir" *)
Definition s_filedir_d : str := [32;95;102;105;108;101;100;105;114;32;45;100]%N.              (* " _filedir -d" *)

Definition rparen : N := 41%N.
Definition lparen : N := 40%N.

(* impl Display for ShowComp; {:24} pads to 24 characters *)
Definition pad24 (s : str) : str := s ++ repeat sp (24 - length s).
Definition show_item (i : showcomp) : str :=
  match sc_help i with
  | Some h =>
    if is_nil (sc_subst i) then sc_pretty i ++ [58; 32]%N ++ h
    else pad24 (sc_pretty i) ++ [32; 45; 45; 32]%N ++ h
  | None => sc_pretty i
  end.

Definition line (s : str) : str := s ++ [nl].

(* ------------------------------------------------------------------ zsh (revision 7) *)
Definition zsh_op (op : shellop) : str :=
  match op with
  | OpFile None => line s_files
  | OpFile (Some m) => line (s_files_g ++ quote m)
  | OpDir None => line s_files_d
  | OpDir (Some m) => line (s_files_dg ++ quote m)
  | OpRaw _ z _ _ => line z
  | OpNothing => []
  end.

Definition zsh_item (i : showcomp) : str :=
  line (s_descr_open ++ quote (show_item i) ++ [rparen]) ++
  match sc_group i with
  | Some g => line (s_compadd_grp ++ quote g ++ s_dash_X ++ quote g ++ s_dd ++ quote (sc_subst i))
  | None => line (s_compadd_nosort ++ quote (sc_subst i))
  end.

Definition render_zsh (items : list showcomp) (ops : list shellop) (full_lit : str) : str :=
  if is_nil items && is_nil ops then line (s_compadd_dd ++ quote full_lit)
  else
    let res := flat_map zsh_op ops in
    match items with
    | [i] =>
      if is_nil (sc_subst i)
      then res ++ line (s_compadd_dd ++ quote (sc_pretty i)) ++ line s_compadd_empty
      else res ++ line (s_compadd_dd ++ quote (sc_subst i))
    | _ => res ++ line s_local_descr ++ flat_map zsh_item items
    end.

(* ------------------------------------------------------------------ bash (revision 8) *)
Definition bashmask (m : str) : str :=
  let i := match m with
           | 42%N :: 46%N :: t => t          (* strip_prefix("*.") *)
           | _ => m
           end in
  match i with
  | 40%N :: _ => 64%N :: i                    (* "@(..." *)
  | _ => i
  end.

Definition bash_op (op : shellop) : str :=
  match op with
  | OpFile None => line (s_init ++ s_filedir)
  | OpFile (Some m) => line (s_init ++ s_filedir ++ [sp] ++ quote (bashmask m))
  | OpDir None => line (s_init ++ s_filedir_d)
  | OpDir (Some m) => line (s_init ++ s_filedir_d ++ [sp] ++ quote (bashmask m))
  | OpRaw b _ _ _ => line b
  | OpNothing => []
  end.

Fixpoint bash_items (prev : option str) (items : list showcomp) : str :=
  match items with
  | [] => []
  | i :: t =>
    let '(hdr, prev') :=
      match sc_group i with
      | Some g =>
        let same := match prev with Some p => beqb p g | None => is_nil g end in
        if same then ([], prev) else (line (s_compreply_open ++ quote g ++ [rparen]), Some g)
      | None => ([], prev)
      end in
    hdr ++ line (s_compreply_open ++ quote (show_item i) ++ [rparen]) ++ bash_items prev' t
  end.

Definition render_bash (items : list showcomp) (ops : list shellop) (full_lit : str) : str :=
  if is_nil items && is_nil ops then line (s_compreply_open ++ quote full_lit ++ [rparen])
  else
    let res := flat_map bash_op ops in
    match items with
    | [i] =>
      if is_nil (sc_subst i)
      then res ++ line (s_compreply_open_sp ++ quote (sc_pretty i) ++ [sp; q; q; rparen])
      else res ++ line (s_compreply_open_sp ++ quote (sc_subst i) ++ [sp; rparen]) ++ [nl]
    | _ => res ++ bash_items None items
    end.

(* ------------------------------------------------------------------ fish (revision 9), elvish (1) *)
Definition fish_item (i : showcomp) : str :=
  match sc_help i with
  | Some h => line (sc_subst i ++ [tab] ++ h)
  | None => line (sc_subst i)
  end.

Definition render_fish (items : list showcomp) (ops : list shellop) (full_lit : str) : str :=
  (if is_nil items && is_nil ops then line full_lit else []) ++
  flat_map fish_item (filter (fun i => negb (is_nil (sc_subst i))) (rev items)).

Definition first_line (s : str) : str := fst (split_nl s).

Definition simple_item (i : showcomp) : str :=
  match sc_help i with
  | Some h => line (sc_subst i ++ [tab] ++ first_line h)
  | None => line (sc_subst i)
  end.

Definition render_simple (items : list showcomp) : str :=
  match items with
  | [i] => line (sc_subst i)
  | _ => flat_map simple_item items
  end.

(* ------------------------------------------------------------------ name filters *)
Definition dash : N := 45%N.

Fixpoint is_prefix (p s : str) : bool := starts_with p s.

(* arg_matches: Some preferred name / None;  name given as (short, long) *)
Definition preferred_name (short : option N) (long : option str) : str :=
  match long with
  | Some l => dash :: dash :: l
  | None => match short with Some c => [dash; c] | None => [] end
  end.

Definition arg_matches (arg : str) (short : option N) (long : option str) : option str :=
  if is_nil arg || beqb arg [dash] then Some (preferred_name short long)
  else
    let m_short := match short with
                   | Some c => beqb arg [dash; c]
                   | None => false
                   end in
    let m_long := match long, arg with
                  | Some l, a :: b :: rest => (a =? dash)%N && (b =? dash)%N && starts_with rest l
                  | _, _ => false
                  end in
    if m_short || m_long then Some (preferred_name short long) else None.

Definition cmd_matches (arg : str) (name : str) (short : option N) : bool :=
  starts_with arg name || match short with Some c => beqb arg [c] | None => false end.
