(* Wf.v -- the definitions C04's totality theorem speaks about: no `adjacent` (group or command),
   every named item has a short name, a long name or a variable (the builder API cannot produce one
   without), every option level passes the positional invariant check (check_invariants). *)
From BpafModel Require Export Eval.
Import ListNotations.

Definition keyedb (n : named) : bool :=
  match shortlong_of n with Some _ => true | None => negb (is_nil (n_env n)) end.

Fixpoint okp (p : parser) {struct p} : bool :=
  match p with
  | PFlag n _ _ => keyedb n
  | PArg n _ _ _ => keyedb n
  | PPos _ _ _ _ | PAny _ _ _ _ => true
  | PCmd _ _ _ _ adjacent sub => negb adjacent && oko sub
  | PCon fs => okl fs
  | PAdj _ => false
  | POr a b => okp a && okp b
  | POptional q _ | PMany q _ | PCollect q _ | PCount q | PLast q | PHide q | PBoxed q => okp q
  | PSome q _ _ | PFallback q _ _ | PFallbackWith q _ _ | PGuard q _ _ | PUsage q _ | PGroupHelp q _ => okp q
  | PParse q _ | PMap q _ => okp q
  | PPure _ | PPureWith _ | PFail _ => true
  end
with okl (ps : plist) {struct ps} : bool :=
  match ps with PNil => true | PCons q t => okp q && okl t end
with oko (o : oparser) {struct o} : bool :=
  match o with Options q inf => okp q && invariant_ok (meta_of q) end.

