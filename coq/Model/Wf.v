(* Wf.v -- the definitions C04's totality theorem speaks about: subcommands, adjacent or not; adjacent
   GROUPS whose members keep their scope (flags, arguments, positionals under any of optional / many / some /
   collect / count / last / fallback / guard / parse / map / hide / usage / group_help / boxed, pure, fail,
   combined by construct! and alternatives, and nested groups: everything but subcommands) and which start with an item (Meta::first_item: without one the
   group panics; check_invariants reports it since fix 1225acf unless the group is hidden -- known finding
   C04-hidden-adjacent-without-first-item);
   every named item has a short name, a long name or a variable (the builder API cannot produce one
   without), every option level passes the positional invariant check (check_invariants). *)
From BpafModel Require Export Eval.
Import ListNotations.

Definition keyedb (n : named) : bool :=
  match shortlong_of n with Some _ => true | None => negb (is_nil (n_env n)) end.

(* members of an adjacent group the totality theorem covers *)
Fixpoint memb (p : parser) {struct p} : bool :=
  match p with
  | PFlag _ _ _ | PArg _ _ _ _ | PPos _ _ _ _ | PAny _ _ _ _ => true
  | POptional q _ | PGuard q _ _ | PParse q _ | PMap q _ => memb q
  | PMany q _ | PCollect q _ | PSome q _ _ | PCount q | PLast q => memb q
  | PFallback q _ _ | PFallbackWith q _ _ | PHide q | PUsage q _ | PGroupHelp q _ | PBoxed q => memb q
  | PCon fs => membl fs
  | PPure _ | PPureWith _ | PFail _ => true
  | POr a b => memb a && memb b
  | PAdj fs => membl fs          (* a nested group: it hands its caller's scope back (AdjTotal.adjacent_inscope) *)
  | PCmd _ _ _ _ _ _ => false
  end
with membl (ps : plist) {struct ps} : bool :=
  match ps with PNil => true | PCons q t => memb q && membl t end.

Fixpoint okp (p : parser) {struct p} : bool :=
  match p with
  | PFlag n _ _ => keyedb n
  | PArg n _ _ _ => keyedb n
  | PPos _ _ _ _ | PAny _ _ _ _ => true
  | PCmd _ _ _ _ _ sub => oko sub
  | PCon fs => okl fs
  | PAdj fs => membl fs && okl fs && match first_item (con_meta fs) with Some _ => true | None => false end
  | POr a b => okp a && okp b
  | POptional q _ | PMany q _ | PCollect q _ | PCount q | PLast q | PHide q | PBoxed q => okp q
  | PSome q _ _ | PFallback q _ _ | PFallbackWith q _ _ | PGuard q _ _ | PUsage q _ | PGroupHelp q _ => okp q
  | PParse q _ | PMap q _ => okp q
  | PPure _ | PPureWith _ | PFail _ => true
  end
with okl (ps : plist) {struct ps} : bool :=
  match ps with PNil => true | PCons q t => okp q && okl t end
with oko (o : oparser) {struct o} : bool :=
  match o with Options q inf => okp q && invariant_ok (meta_of q) end.

