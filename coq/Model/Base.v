(* Base.v -- bytes, characters, UTF-8, small list helpers.  Executable definitions only. *)
From Coq Require Export List NArith ZArith Bool PeanoNat.
Export ListNotations.

Definition byte := N.
Definition bytes := list N.
Definition char := N.            (* a Unicode scalar value *)

Fixpoint beqb (a b : bytes) : bool :=
  match a, b with
  | [], [] => true
  | x :: a', y :: b' => N.eqb x y && beqb a' b'
  | _, _ => false
  end.

Definition mem_bytes (x : bytes) (l : list bytes) : bool := existsb (beqb x) l.
Definition mem_N (x : N) (l : list N) : bool := existsb (N.eqb x) l.

Definition opt_beqb (a b : option bytes) : bool :=
  match a, b with
  | None, None => true
  | Some x, Some y => beqb x y
  | _, _ => false
  end.

(* frequently used ASCII codes *)
Definition c_dash : N := 45%N.
Definition c_eq : N := 61%N.
Definition c_nl : N := 10%N.
Definition c_space : N := 32%N.

(* ------------------------------------------------------------------ UTF-8 *)
(* mirrors core::str::from_utf8: rejects overlong forms, surrogates, > U+10FFFF *)

Definition is_cont (b : N) : bool := (128 <=? b)%N && (b <=? 191)%N.

Fixpoint utf8_decode (l : bytes) : option (list char) :=
  match l with
  | [] => Some []
  | b0 :: t0 =>
    if (b0 <? 128)%N then option_map (cons b0) (utf8_decode t0)
    else if (194 <=? b0)%N && (b0 <=? 223)%N then
      match t0 with
      | b1 :: t1 =>
        if is_cont b1
        then option_map (cons ((b0 - 192) * 64 + (b1 - 128))%N) (utf8_decode t1)
        else None
      | [] => None
      end
    else if (224 <=? b0)%N && (b0 <=? 239)%N then
      match t0 with
      | b1 :: b2 :: t2 =>
        let lo := if (b0 =? 224)%N then 160%N else 128%N in
        let hi := if (b0 =? 237)%N then 159%N else 191%N in
        if (lo <=? b1)%N && (b1 <=? hi)%N && is_cont b2
        then option_map (cons ((b0 - 224) * 4096 + (b1 - 128) * 64 + (b2 - 128))%N)
                        (utf8_decode t2)
        else None
      | _ => None
      end
    else if (240 <=? b0)%N && (b0 <=? 244)%N then
      match t0 with
      | b1 :: b2 :: b3 :: t3 =>
        let lo := if (b0 =? 240)%N then 144%N else 128%N in
        let hi := if (b0 =? 244)%N then 143%N else 191%N in
        if (lo <=? b1)%N && (b1 <=? hi)%N && is_cont b2 && is_cont b3
        then option_map
               (cons ((b0 - 240) * 262144 + (b1 - 128) * 4096 + (b2 - 128) * 64 + (b3 - 128))%N)
               (utf8_decode t3)
        else None
      | _ => None
      end
    else None
  end.

Definition utf8_valid (l : bytes) : bool :=
  match utf8_decode l with Some _ => true | None => false end.

(* char::encode_utf8 *)
Definition utf8_encode_char (c : char) : bytes :=
  if (c <? 128)%N then [c]
  else if (c <? 2048)%N then [(192 + c / 64)%N; (128 + c mod 64)%N]
  else if (c <? 65536)%N then
    [(224 + c / 4096)%N; (128 + (c / 64) mod 64)%N; (128 + c mod 64)%N]
  else [(240 + c / 262144)%N; (128 + (c / 4096) mod 64)%N;
        (128 + (c / 64) mod 64)%N; (128 + c mod 64)%N].

Definition utf8_encode (cs : list char) : bytes := flat_map utf8_encode_char cs.

(* a scalar value: what a Rust `char` can hold *)
Definition is_scalar (c : char) : bool :=
  ((c <? 55296)%N || ((57343 <? c)%N && (c <? 1114112)%N)).

(* ------------------------------------------------------------------ list helpers *)

Fixpoint update_nth {A} (n : nat) (x : A) (l : list A) : list A :=
  match l, n with
  | [], _ => []
  | _ :: t, O => x :: t
  | h :: t, S n' => h :: update_nth n' x t
  end.

Fixpoint take_while {A} (f : A -> bool) (l : list A) : list A :=
  match l with
  | [] => []
  | x :: t => if f x then x :: take_while f t else []
  end.

Fixpoint drop_while {A} (f : A -> bool) (l : list A) : list A :=
  match l with
  | [] => []
  | x :: t => if f x then drop_while f t else l
  end.

(* split at the first element satisfying f: (before, Some after) or (all, None) *)
Fixpoint split_first {A} (f : A -> bool) (l : list A) : list A * option (list A) :=
  match l with
  | [] => ([], None)
  | x :: t =>
    if f x then ([], Some t)
    else let '(a, b) := split_first f t in (x :: a, b)
  end.

Definition is_nil {A} (l : list A) : bool := match l with [] => true | _ => false end.
