(* Conv.v -- the conventional fragment of C01 and its DECLARATIVE grammar.
   `level` is a command level as a user thinks of it: uniquely named items with an arity, then a
   positional suffix or a set of subcommands.  `compile` is the combinator term one writes for it;
   `denote` says what an argument vector means: ONE left-to-right scan of the tokens attributes
   every item to the name that owns it (an argument key owns the value attached to it or the plain
   word after it), plain words to the positional suffix in order or -- the first free word of a
   level -- to the subcommand; then arity and value checks.  No consumption state, no evaluation
   order, no backtracking: that is the point.  `Unspecified` marks the vectors the property leaves
   open: help requests (C10), a single-dash multi-character item with an undeclared letter (read by
   bpaf as a plain word), an enclosing level's option to the right of a subcommand name. *)
From BpafModel Require Export Eval.

Inductive arity := ARequired | AOptional | AMany | ASome | AFallback (v : val) | ALast.

Inductive citem :=
| CSwitch (n : named)                                   (* short/long(..).switch() *)
| CFlag (n : named) (present absent : val)              (* .flag(p, a) *)
| CReqFlag (n : named) (present : val)                  (* .req_flag(p) *)
| CCount (n : named)                                    (* .req_flag(()).count() *)
| CReqMany (n : named) (present : val)                  (* .req_flag(p).many() *)
| CArg (n : named) (mv : bytes) (ty : vty) (ar : arity). (* .argument::<ty>(mv) + arity wrapper *)

Inductive parity := QReq | QOpt | QMany | QSome.
Record cpos := mkCPos { cp_mv : bytes; cp_ty : vty; cp_par : parity }.

Inductive level :=
| Level (items : list citem) (tail : ctail)
with ctail :=
| TNone
| TPos (ps : list cpos)
| TCmds (cs : clist)
with clist :=
| CNil
| CCons (name : bytes) (aliases : list bytes) (sub : level) (rest : clist).

Definition item_named (it : citem) : named :=
  match it with
  | CSwitch n | CFlag n _ _ | CReqFlag n _ | CCount n | CReqMany n _ | CArg n _ _ _ => n
  end.
Definition is_argument (it : citem) : bool := match it with CArg _ _ _ _ => true | _ => false end.

(* ------------------------------------------------------------------ compile *)
Definition some_msg : bytes := [].     (* the message of `.some(..)`: irrelevant to class + value *)

Definition compile_item (it : citem) : parser :=
  match it with
  | CSwitch n => PFlag n (VBool true) (Some (VBool false))
  | CFlag n p a => PFlag n p (Some a)
  | CReqFlag n p => PFlag n p None
  | CCount n => PCount (PFlag n VUnit None)
  | CReqMany n p => PMany (PFlag n p None) false
  | CArg n mv ty ar =>
    let a := PArg n mv ty false in
    match ar with
    | ARequired => a
    | AOptional => POptional a false
    | AMany => PMany a false
    | ASome => PSome a some_msg false
    | AFallback v => PFallback a v []
    | ALast => PLast a
    end
  end.

Definition compile_pos (p : cpos) : parser :=
  let a := PPos (cp_mv p) (cp_ty p) Unrestricted None in
  match cp_par p with
  | QReq => a
  | QOpt => POptional a false
  | QMany => PMany a false
  | QSome => PSome a some_msg false
  end.

Fixpoint plist_of (l : list parser) : plist :=
  match l with [] => PNil | p :: t => PCons p (plist_of t) end.

Fixpoint compile (l : level) : parser :=
  match l with
  | Level items tail =>
    PCon (plist_of (map compile_item items ++
      match tail with
      | TNone => []
      | TPos ps => map compile_pos ps
      | TCmds cs =>
        match compile_cmds cs with
        | [] => []
        | c :: more => [fold_left POr more c]       (* construct!([a, b, c]) nests to the left *)
        end
      end))
  end
with compile_cmds (cs : clist) : list parser :=
  match cs with
  | CNil => []
  | CCons name aliases sub rest =>
    PCmd name aliases [] None false (Options (compile sub) default_info) :: compile_cmds rest
  end.

Definition compile_options (l : level) : oparser := Options (compile l) default_info.

(* ------------------------------------------------------------------ denote *)
Inductive verdict := Accept (v : val) | Reject | Unspecified.

(* what the scan records for a level: the role of every token, and from it the occurrences of the
   items and the positional words, both in command-line order *)
Inductive role :=
| RKey (k : nat)        (* an occurrence of item number k *)
| RVal (k : nat)        (* the value of the occurrence before it *)
| RWord                 (* a positional word *)
| RMark.                (* the `--` item *)
Record attribution := mkAttr {
  at_roles : list role;
  at_occ : list (nat * option bytes);      (* (item number, value) *)
  at_words : list bytes }.

Fixpoint find_owner (items : list citem) (a : arg) (k : nat) : option (nat * citem) :=
  match items with
  | [] => None
  | it :: t => if matches_arg (item_named it) false a then Some (k, it) else find_owner t a (S k)
  end.

Definition is_help (a : arg) : bool := matches_arg default_help_arg false a.

Definition dashy (w : bytes) : bool :=
  match w with c :: _ :: _ => (c =? c_dash)%N | _ => false end.

Fixpoint find_cmd (cs : clist) (w : bytes) : option level :=
  match cs with
  | CNil => None
  | CCons name aliases sub rest => if beqb w name || mem_bytes w aliases then Some sub else find_cmd rest w
  end.

(* Does the rest of the vector put it outside the property's quantifier?  A help request, a
   single-dash multi-character word, an option of an enclosing level -- or of this level, once a
   subcommand name has been passed. *)
Definition is_key (a : arg) : bool := match a with Short _ _ _ | Long _ _ _ => true | _ => false end.
Definition owned_by (items : list citem) (a : arg) : bool :=
  is_key a && match find_owner items a O with Some _ => true | None => false end.
Fixpoint unspec_later (items anc : list citem) (tail : ctail) (passed_cmd : bool) (ts : list (arg * bool)) : bool :=
  match ts with
  | [] => false
  | (_, true) :: rest => unspec_later items anc tail passed_cmd rest
  | (a, false) :: rest =>
    (is_key a && is_help a) ||
    match a with Word w => dashy w | _ => false end ||
    owned_by anc a || (passed_cmd && owned_by items a) ||
    unspec_later items anc tail
      (passed_cmd || match a, tail with
                     | Word w, TCmds cs => match find_cmd cs w with Some _ => true | None => false end
                     | _, _ => false
                     end) rest
  end.

Inductive scan_result :=
| ScDone (a : attribution)                                  (* the level ends with the vector *)
| ScCmd (a : attribution) (sub : level) (rest : list (arg * bool))   (* a subcommand starts here *)
| ScReject
| ScUnspec.

Definition att_cons (r : list role) (o : list (nat * option bytes)) (w : list bytes) (res : scan_result)
  : scan_result :=
  match res with
  | ScDone a => ScDone (mkAttr (r ++ at_roles a) (o ++ at_occ a) (w ++ at_words a))
  | ScCmd a sub rest => ScCmd (mkAttr (r ++ at_roles a) (o ++ at_occ a) (w ++ at_words a)) sub rest
  | x => x
  end.

(* tokens come with "this is the `--` item" *)
Fixpoint scan (items anc : list citem) (tail : ctail) (ts : list (arg * bool)) {struct ts} : scan_result :=
  let rej (r : list (arg * bool)) := if unspec_later items anc tail false r then ScUnspec else ScReject in
  match ts with
  | [] => ScDone (mkAttr [] [] [])
  | (_, true) :: rest => att_cons [RMark] [] [] (scan items anc tail rest)          (* `--` itself *)
  | (a, false) :: rest =>
    match a with
    | Short _ _ _ | Long _ _ _ =>
      if is_help a then ScUnspec
      else
        match find_owner items a O with
        | Some (k, it) =>
          if is_argument it then
            match rest with
            | (ArgWord w, false) :: rest'                                          (* `--name=v`, `-n=v` *)
            | (Word w, false) :: rest' =>                                          (* `-n v` and `-nv` *)
              att_cons [RKey k; RVal k] [(k, Some w)] [] (scan items anc tail rest')
            | _ => rej ts
            end
          (* a flag takes its key and nothing else: the value of `--flag=v` is then a stray token *)
          else att_cons [RKey k] [(k, None)] [] (scan items anc tail rest)
        | None =>
          match find_owner anc a O with
          | Some _ => ScUnspec            (* an enclosing level's option right of the subcommand name *)
          | None => rej ts
          end
        end
    | Word w =>
      if dashy w then ScUnspec
      else
        match tail with
        | TNone => rej ts
        | TPos _ => att_cons [RWord] [] [w] (scan items anc tail rest)
        | TCmds cs =>
          match find_cmd cs w with
          | Some sub => ScCmd (mkAttr [] [] []) sub rest
          | None => rej ts
          end
        end
    | PosWord w =>
      match tail with
      | TPos _ => att_cons [RWord] [] [w] (scan items anc tail rest)
      | _ => rej ts
      end
    | ArgWord _ => rej ts
    end
  end.

(* all values of one item, in order *)
Definition occ_of (k : nat) (occ : list (nat * option bytes)) : list (option bytes) :=
  map snd (filter (fun p => Nat.eqb (fst p) k) occ).

Fixpoint convert_all (ty : vty) (ws : list (option bytes)) : option (list val) :=
  match ws with
  | [] => Some []
  | Some w :: t =>
    match convert ty w, convert_all ty t with
    | inl v, Some vs => Some (v :: vs)
    | _, _ => None
    end
  | None :: _ => None
  end.

Definition item_value (it : citem) (os : list (option bytes)) : option val :=
  match it with
  | CSwitch _ => match os with [] => Some (VBool false) | [_] => Some (VBool true) | _ => None end
  | CFlag _ p a => match os with [] => Some a | [_] => Some p | _ => None end
  | CReqFlag _ p => match os with [_] => Some p | _ => None end
  | CCount _ => Some (VNum (Z.of_nat (length os)))
  | CReqMany _ p => Some (VList (map (fun _ => p) os))
  | CArg _ _ ty ar =>
    match convert_all ty os with
    | None => None
    | Some vs =>
      match ar, vs with
      | ARequired, [v] => Some v
      | AOptional, [] => Some VNone
      | AOptional, [v] => Some (VSome v)
      | AMany, _ => Some (VList vs)
      | ASome, _ :: _ => Some (VList vs)
      | AFallback d, [] => Some d
      | AFallback _, [v] => Some v
      | ALast, _ :: _ => Some (last vs VUnit)
      | _, _ => None
      end
    end
  end.

Fixpoint items_values (items : list citem) (k : nat) (occ : list (nat * option bytes)) : option (list val) :=
  match items with
  | [] => Some []
  | it :: t =>
    match item_value it (occ_of k occ), items_values t (S k) occ with
    | Some v, Some vs => Some (v :: vs)
    | _, _ => None
    end
  end.

(* the positional suffix Req* Opt* (Many|Some)? takes the words left to right *)
Definition conv_word (ty : vty) (w : bytes) : option val :=
  match convert ty w with inl v => Some v | inr _ => None end.
Fixpoint conv_words (ty : vty) (ws : list bytes) : option (list val) :=
  match ws with
  | [] => Some []
  | w :: r => match conv_word ty w, conv_words ty r with Some v, Some vs => Some (v :: vs) | _, _ => None end
  end.

Fixpoint pos_values (ps : list cpos) (ws : list bytes) : option (list val) :=
  match ps with
  | [] => match ws with [] => Some [] | _ => None end
  | p :: t =>
    match cp_par p with
    | QReq =>
      match ws with
      | w :: r => match conv_word (cp_ty p) w, pos_values t r with Some v, Some vs => Some (v :: vs) | _, _ => None end
      | [] => None
      end
    | QOpt =>
      match ws with
      | w :: r => match conv_word (cp_ty p) w, pos_values t r with Some v, Some vs => Some (VSome v :: vs) | _, _ => None end
      | [] => match pos_values t [] with Some vs => Some (VNone :: vs) | None => None end
      end
    | QMany =>
      match conv_words (cp_ty p) ws, pos_values t [] with Some vs, Some r => Some (VList vs :: r) | _, _ => None end
    | QSome =>
      match ws with
      | [] => None
      | _ => match conv_words (cp_ty p) ws, pos_values t [] with Some vs, Some r => Some (VList vs :: r) | _, _ => None end
      end
    end
  end.

(* one level and, through the first free word, its subcommand; fuel = number of tokens + 1 (each
   descent consumes the command word) *)
Fixpoint denote_level (fuel : nat) (l : level) (anc : list citem) (ts : list (arg * bool)) : verdict :=
  match fuel with
  | O => Unspecified
  | S f =>
    match l with
    | Level items tail =>
      match scan items anc tail ts with
      | ScUnspec => Unspecified
      | ScReject => Reject
      | ScDone a =>
        match items_values items O (at_occ a) with
        | None => Reject
        | Some vs =>
          match tail with
          | TNone => match at_words a with [] => Accept (VTuple vs) | _ => Reject end
          | TPos ps =>
            match pos_values ps (at_words a) with
            | Some pv => Accept (VTuple (vs ++ pv))
            | None => Reject
            end
          | TCmds _ => Reject                      (* a command is required and none was given *)
          end
        end
      | ScCmd a sub rest =>
        (* the sub-level is judged first: an Unspecified vector stays Unspecified *)
        match denote_level f sub (anc ++ items) rest with
        | Unspecified => Unspecified
        | Reject => Reject
        | Accept sv =>
          match items_values items O (at_occ a) with
          | Some vs => Accept (VTuple (vs ++ [sv]))
          | None => Reject
          end
        end
      end
    end
  end.

Fixpoint mark_go (mk : option nat) (l : list arg) (ix : nat) : list (arg * bool) :=
  match l with
  | [] => []
  | a :: r => (a, match mk with Some m => Nat.eqb m ix | None => false end) :: mark_go mk r (S ix)
  end.
Definition mark_tokens (t : tokenized) : list (arg * bool) := mark_go (t_marker t) (t_items t) O.

Definition denote (l : level) (argv : list bytes) : verdict :=
  let '(sf, sa) := short_tables (compile_options l) in
  let t := tokenize sf sa argv in
  match t_ambiguity t with
  | Some _ => Unspecified
  | None => denote_level (S (length (t_items t))) l [] (mark_tokens t)
  end.

(* ------------------------------------------------------------------ the conventional FLAT level, decidably *)
(* every item has a name and no environment variable; names are unique; at least two fields
   (construct! of one field is the field itself); no subcommands *)
Definition named_ok (n : named) : bool :=
  is_nil (n_env n) && negb (is_nil (n_short n) && is_nil (n_long n)).

Definition share (a b : named) : bool :=
  existsb (fun c => mem_N c (n_short b)) (n_short a) || existsb (fun l => mem_bytes l (n_long b)) (n_long a).

Fixpoint disjointb (l : list citem) : bool :=
  match l with
  | [] => true
  | x :: t => forallb (fun y => negb (share (item_named x) (item_named y))) t && disjointb t
  end.

Definition flat_okb (items : list citem) (tail : ctail) : bool :=
  disjointb items && forallb (fun it => named_ok (item_named it)) items &&
  match tail with
  | TNone => Nat.leb 2 (length items)
  | TPos ps => Nat.leb 2 (length items + length ps)
  | TCmds _ => false
  end.

(* all items of a level tree *)
Fixpoint all_items (l : level) : list citem :=
  match l with
  | Level items tail =>
    items ++ match tail with
             | TCmds cs => all_items_cs cs
             | _ => []
             end
  end
with all_items_cs (cs : clist) : list citem :=
  match cs with
  | CNil => []
  | CCons _ _ sub rest => all_items sub ++ all_items_cs rest
  end.

(* a chain of subcommands: every level has at least one item and at most one subcommand; names are
   unique within a level and between a level and everything below it *)
Fixpoint chain_okb (l : level) : bool :=
  match l with
  | Level items tail =>
    match tail with
    | TCmds (CCons _ _ sub CNil) =>
      disjointb items && forallb (fun it => named_ok (item_named it)) items && Nat.leb 1 (length items) &&
      chain_okb sub &&
      forallb (fun it => forallb (fun it' => negb (share (item_named it) (item_named it'))) (all_items sub)) items
    | TCmds _ => false
    | _ => flat_okb items tail
    end
  end.

(* whole trees: every level has at least one item; a level with subcommands offers one or more,
   with pairwise different names; names are unique within a level and between a level and
   everything below it *)
Fixpoint cs_names (cs : clist) : list (list bytes) :=
  match cs with CNil => [] | CCons name aliases _ rest => (name :: aliases) :: cs_names rest end.

Fixpoint names_uniqueb (ts : list (list bytes)) : bool :=
  match ts with
  | [] => true
  | x :: r => forallb (fun y => forallb (fun a => negb (mem_bytes a y)) x) r && names_uniqueb r
  end.

Fixpoint tree_okb (l : level) : bool :=
  match l with
  | Level items tail =>
    match tail with
    | TCmds cs =>
      match cs with CNil => false | _ => true end &&
      disjointb items && forallb (fun it => named_ok (item_named it)) items && Nat.leb 1 (length items) &&
      tree_okb_cs cs && names_uniqueb (cs_names cs) &&
      forallb (fun it => forallb (fun it' => negb (share (item_named it) (item_named it'))) (all_items_cs cs)) items
    | _ => flat_okb items tail
    end
  end
with tree_okb_cs (cs : clist) : bool :=
  match cs with
  | CNil => true
  | CCons _ _ sub rest => tree_okb sub && tree_okb_cs rest
  end.

(* command names that cannot be taken for options: non-empty, not starting with a dash (the converse of
   C01 for trees needs it: a command name is compared with the original text of a token, and the
   text of an option token starts with a dash or is empty) *)
Definition plainb (w : bytes) : bool := match w with [] => false | c :: _ => negb (c =? c_dash)%N end.

Fixpoint plain_cmds (l : level) {struct l} : bool :=
  match l with Level _ (TCmds cs) => plain_cs cs | _ => true end
with plain_cs (cs : clist) {struct cs} : bool :=
  match cs with
  | CNil => true
  | CCons name aliases sub rest => forallb plainb (name :: aliases) && plain_cmds sub && plain_cs rest
  end.

