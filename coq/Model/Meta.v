(* Meta.v -- Parser::meta() of every combinator, and the Meta functions the parsing core uses:
   Meta::or, collect_shorts, first_item, positional_invariant_check (src/meta.rs, src/item.rs). *)
From BpafModel Require Export Syntax.

Definition shortlong_of (n : named) : option shortlong :=
  match n_short n, n_long n with
  | [], [] => None
  | [], l :: _ => Some (SLLong l)
  | c :: _, [] => Some (SLShort c)
  | c :: _, l :: _ => Some (SLBoth c l)
  end.

Definition flag_item (n : named) : option item :=
  option_map (fun sl => IFlag sl (n_short n) (hd_error (n_env n)) (n_help n)) (shortlong_of n).

Definition arg_item (n : named) (metavar : bytes) : option item :=
  option_map (fun sl => IArgument sl (n_short n) metavar (hd_error (n_env n)) (n_help n))
             (shortlong_of n).

Definition alts (m : meta) : list meta :=
  match m with MOr xs => xs | MSkip => [] | _ => [m] end.

Definition meta_or (a b : meta) : meta :=
  match alts a ++ alts b with
  | [] => MSkip
  | [x] => x
  | xs => MOr xs
  end.

Definition with_suffix (m : meta) (shown : bytes) : meta :=
  if is_nil shown then m else MSuffix m [TText SText shown].

Definition oinfo_of (o : oparser) : info :=
  match o with Options _ i => i end.
Definition oinner_of (o : oparser) : parser :=
  match o with Options q _ => q end.

Fixpoint meta_of (p : parser) : meta :=
  match p with
  | PFlag n _ absent =>
    match flag_item n with
    | Some it => match absent with None => MItem it | Some _ => MOptional (MItem it) end
    | None => MSkip
    end
  | PArg n mv _ _ =>
    match arg_item n mv with Some it => MItem it | None => MSkip end
  | PPos mv _ pos help =>
    let m := MItem (IPositional mv help) in
    match pos with Strict => MStrict m | _ => m end
  | PAny mv help _ anywhere => MItem (IAny mv anywhere help)
  | PCmd name _ shorts help _ sub =>
    MItem (ICommand name (hd_error shorts) help (ometa_of sub) (oinfo_of sub))
  | PCon fields => con_meta fields
  | PAdj fields => MAdjacent (con_meta fields)
  | POr a b => meta_or (meta_of a) (meta_of b)
  | POptional q _ => MOptional (meta_of q)
  | PMany q _ => MMany (MOptional (meta_of q))
  | PSome q _ _ => MMany (MRequired (meta_of q))
  | PCollect q _ => MMany (MRequired (meta_of q))
  | PCount q => MMany (MOptional (meta_of q))
  | PLast q => MMany (MRequired (meta_of q))
  | PFallback q _ shown => with_suffix (MOptional (meta_of q)) shown
  | PFallbackWith q _ shown => with_suffix (MOptional (meta_of q)) shown
  | PGuard q _ _ => meta_of q
  | PParse q _ => meta_of q
  | PMap q _ => meta_of q
  | PHide _ => MSkip
  | PUsage q d => MCustomUsage (meta_of q) d
  | PGroupHelp q d => MSubsection (meta_of q) d
  | PPure _ => MSkip
  | PPureWith _ => MSkip
  | PFail _ => MSkip
  | PBoxed q => meta_of q
  end
with metas_of (ps : plist) : list meta :=
  match ps with
  | PNil => []
  | PCons q t => meta_of q :: metas_of t
  end
with con_meta (ps : plist) : meta :=
  (* construct!: 0 fields = pure(..), 1 field = field.boxed(), otherwise Meta::And *)
  match ps with
  | PNil => MSkip
  | PCons q PNil => meta_of q
  | PCons q t => MAnd (meta_of q :: metas_of t)
  end
with ometa_of (o : oparser) : meta :=
  match o with Options q _ => meta_of q end.

(* Meta::collect_shorts: (flags, args) in traversal order *)
Fixpoint collect_shorts (m : meta) : list char * list char :=
  let both := fix both (xs : list meta) : list char * list char :=
    match xs with
    | [] => ([], [])
    | x :: t => let '(f1, a1) := collect_shorts x in
                let '(f2, a2) := both t in (f1 ++ f2, a1 ++ a2)
    end in
  match m with
  | MAnd xs | MOr xs => both xs
  | MItem i =>
    match i with
    | IAny _ _ _ | IPositional _ _ => ([], [])
    | ICommand _ _ _ m' _ => collect_shorts m'
    | IFlag _ shorts _ _ => (shorts, [])
    | IArgument _ shorts _ _ _ => ([], shorts)
    end
  | MCustomUsage m' _ | MRequired m' | MOptional m' | MAdjacent m'
  | MSubsection m' _ | MSuffix m' _ | MMany m' => collect_shorts m'
  | MSkip | MStrict _ => ([], [])
  end.

(* Meta::first_item *)
Fixpoint first_item (m : meta) : option item :=
  match m with
  | MAnd xs => match xs with x :: _ => first_item x | [] => None end
  | MItem i => Some i
  | MSkip | MOr _ => None
  | MOptional x | MStrict x | MRequired x | MAdjacent x | MMany x
  | MSubsection x _ | MSuffix x _ | MCustomUsage x _ => first_item x
  end.

Definition item_is_pos (i : item) : bool :=
  match i with
  | IAny _ anywhere _ => negb anywhere
  | IPositional _ _ | ICommand _ _ _ _ _ => true
  | IFlag _ _ _ _ | IArgument _ _ _ _ _ => false
  end.

(* Meta::positional_invariant_check: None = panic, Some is_pos' otherwise *)
Fixpoint inv_go (m : meta) (is_pos : bool) : option bool :=
  let all := fix all (xs : list meta) (is_pos : bool) : option bool :=
    match xs with
    | [] => Some is_pos
    | x :: t => match inv_go x is_pos with Some p => all t p | None => None end
    end in
  let any := fix any (xs : list meta) (is_pos out : bool) : option bool :=
    match xs with
    | [] => Some out
    | x :: t => match inv_go x is_pos with Some p => any t is_pos (out || p) | None => None end
    end in
  match m with
  | MAnd xs => all xs is_pos
  | MOr xs => any xs is_pos is_pos
  | MItem i =>
    match is_pos, item_is_pos i with
    | true, false => None
    | _, ip =>
      let is_pos' := is_pos || ip in
      match i with
      | ICommand _ _ _ m' _ =>
        match inv_go m' false with Some _ => Some is_pos' | None => None end
      | _ => Some is_pos'
      end
    end
  | MAdjacent m' =>
    match first_item m' with
    | Some i =>
      if item_is_pos i then inv_go m' is_pos
      else match inv_go m' false with Some _ => Some is_pos | None => None end
    | None => Some is_pos
    end
  | MOptional m' | MRequired m' | MMany m' | MCustomUsage m' _ | MSubsection m' _
  | MStrict m' | MSuffix m' _ => inv_go m' is_pos
  | MSkip => Some is_pos
  end.

Definition invariant_ok (m : meta) : bool :=
  match inv_go m false with Some _ => true | None => false end.

(* Meta::adjacent_invariant_check (fix: commit; called by check_invariants only, not when help is rendered): an adjacent
   group must start with an item -- ParseAdjacent::eval looks for it and panics without one *)
Fixpoint adj_first_ok (m : meta) : bool :=
  let all := fix all (xs : list meta) : bool :=
    match xs with [] => true | x :: t => adj_first_ok x && all t end in
  match m with
  | MAnd xs | MOr xs => all xs
  | MItem (ICommand _ _ _ m' _) => adj_first_ok m'
  | MItem _ => true
  | MAdjacent m' => (match first_item m' with Some _ => true | None => false end) && adj_first_ok m'
  | MOptional m' | MRequired m' | MMany m' | MCustomUsage m' _ | MSubsection m' _
  | MStrict m' | MSuffix m' _ => adj_first_ok m'
  | MSkip => true
  end.

(* OptionParser::check_invariants returns (does not panic) *)
Definition check_invariants_ok (m : meta) : bool := invariant_ok m && adj_first_ok m.

(* Info::meta *)
Definition info_meta (i : info) : meta :=
  let help := meta_of (PFlag (i_help_arg i) VUnit None) in
  match i_version i with
  | Some _ => MAnd [help; meta_of (PFlag (i_version_arg i) VUnit None)]
  | None => help
  end.
