(* Process.v -- OptionParser::run / ParseFailure::print_message / exit_code / Args::current_args
   (src/info.rs:86-97, src/error.rs:211-251, src/args.rs:145-159) as a function from the outcome
   of run_inner to what the process does.  The rendering of documents to text is a parameter: stream
   and status selection do not depend on it. *)
From BpafModel Require Export Eval.
From BpafGen Require Export ExitCode.

Record pout := mkP {
  p_stdout : bytes;
  p_stderr : bytes;
  p_status : Z;
  p_body : option val }.       (* Some v: `run` returned v to the program *)

Definition error_prefix : bytes := [69; 114; 114; 111; 114; 58; 32]%N.   (* "Error: " *)

Section Proc.
Variable text_of_stdout : helpreq -> bytes.   (* render_console(full, color, max_width) *)
Variable text_of_stderr : message -> bytes.

(* None: run_inner panicked / did not terminate -- no claim *)
Definition process_of (o : outcome) : option pout :=
  match o with
  | OutOk v => Some (mkP [] [] 0%Z (Some v))
  | OutStdout h => Some (mkP (text_of_stdout h ++ [c_nl]) [] (exit_code (FStdout h)) None)     (* println! *)
  | OutCompletion s => Some (mkP s [] (exit_code (FCompletion s)) None)                         (* print! *)
  | OutStderr m =>
    Some (mkP [] (error_prefix ++ text_of_stderr m ++ [c_nl]) (exit_code (FStderr m None)) None)     (* eprintln! *)
  | OutPanic _ | OutFuel => None
  end.
End Proc.

(* ------------------------------------------------------------------ Args::current_args *)
Definition c_slash : N := 47%N.

Fixpoint split_slash (s cur : bytes) : list bytes :=
  match s with
  | [] => [rev cur]
  | c :: t => if (c =? c_slash)%N then rev cur :: split_slash t [] else split_slash t (c :: cur)
  end.

(* Path::file_name: the last Normal component; `.` components are skipped, `..` gives None *)
Definition file_name (p : bytes) : option bytes :=
  let comps := filter (fun c => negb (is_nil c) && negb (beqb c [46%N])) (split_slash p []) in
  match rev comps with
  | [] => None
  | c :: _ => if beqb c [46; 46]%N then None else Some c
  end.

(* the program name: file name of argv[0] when it is valid UTF-8 *)
Definition program_name (argv0 : option bytes) : option bytes :=
  match argv0 with
  | None => None
  | Some p => match file_name p with
              | Some f => if utf8_valid f then Some f else None
              | None => None
              end
  end.

(* OptionParser::run in a process whose argument vector is argv0 :: argv *)
Definition process_run (text_of_stdout : helpreq -> bytes) (text_of_stderr : message -> bytes)
           (feat : features) (env : bytes -> option bytes) (o : oparser)
           (argv0 : option bytes) (argv : list bytes) : option pout :=
  process_of text_of_stdout text_of_stderr (run_inner feat env o (program_name argv0) argv).
