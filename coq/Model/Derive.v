(* Derive.v -- the documented rules of #[derive(Bpaf)] for one field / one unit variant, as a
   function from what is written in the type definition to the combinator "plan" one would write by
   hand (bpaf_derive/src/named_field.rs StructField::make + derive_consumer, field.rs split_type,
   attrs.rs StrictName::from_name, utils.rs to_kebab_case, top.rs Branch for unit variants).
   The plan is what the generated hand-written parser of the C17 check is printed from, so that the
   differential run ties these rules to the real proc-macro.  The token-level workings of the macro
   (syn parsing, spans, error reporting) are not modelled. *)
From BpafModel Require Export Base.

(* utils.rs to_custom_case(input, '-') on ASCII identifiers (the `r#` prefix is stripped before) *)
Definition is_upper (c : N) : bool := ((65 <=? c) && (c <=? 90))%N.
Definition to_lower (c : N) : N := if is_upper c then (c + 32)%N else c.
Definition c_us : N := 95%N.
Definition c_hy : N := 45%N.

Fixpoint kebab_go (s : bytes) (res_empty : bool) : bytes :=
  match s with
  | [] => []
  | c :: t =>
    if is_upper c then (if res_empty then [] else [c_hy]) ++ to_lower c :: kebab_go t false
    else if (c =? c_hy)%N || (c =? c_us)%N then c_hy :: kebab_go t false
    else c :: kebab_go t false
  end.
Definition to_kebab_case (s : bytes) : bytes := kebab_go s true.

(* field.rs Shape *)
Inductive shape := ShBool | ShUnit | ShOptional | ShMultiple | ShDirect.

(* what is written in #[bpaf(..)] on a field *)
Inductive nameann :=
| NShort (c : option N)          (* short / short('c') *)
| NLong (l : option bytes)       (* long / long("name") *)
| NEnv (v : bytes).              (* env("VAR") *)
Inductive consann :=
| CASwitch | CAReqFlag | CAFlag
| CAArgument (mv : option bytes)
| CAPositional (mv : option bytes).

Record fielddef := mkField {
  fd_ident : option bytes;        (* None for tuple fields *)
  fd_shape : shape;
  fd_names : list nameann;
  fd_cons : option consann;
  fd_fallback : bool;             (* #[bpaf(fallback(..))] *)
  fd_help : option bytes }.       (* the doc comment *)

(* the hand-written combinator chain *)
Inductive consumer :=
| KSwitch | KReqFlagK | KFlagK
| KArgumentK (mv : bytes)
| KPositionalK (mv : bytes).
Inductive post := PoOptional | PoMany | PoFallback.

Record plan := mkPlan {
  pl_short : list N;
  pl_long : list bytes;
  pl_env : list bytes;
  pl_cons : consumer;
  pl_post : list post;
  pl_help : option bytes }.

Definition default_metavar : bytes := [65; 82; 71]%N.       (* "ARG" *)

Definition needs_name (k : consumer) : bool :=
  match k with KPositionalK _ => false | _ => true end.

Definition mv_or_default (mv : option bytes) : bytes :=
  match mv with Some m => m | None => default_metavar end.

(* derive_consumer: None = "Refusing to derive a positional item for bool/()" *)
Definition derive_consumer (name_present : bool) (sh : shape) : option consumer :=
  match sh with
  | ShBool => if name_present then Some KSwitch else None
  | ShUnit => if name_present then Some KReqFlagK else None
  | _ => Some (if name_present then KArgumentK default_metavar else KPositionalK default_metavar)
  end.

Definition cons_of_ann (a : consann) : consumer :=
  match a with
  | CASwitch => KSwitch | CAReqFlag => KReqFlagK | CAFlag => KFlagK
  | CAArgument mv => KArgumentK (mv_or_default mv)
  | CAPositional mv => KPositionalK (mv_or_default mv)
  end.

Definition is_naming (a : nameann) : bool := match a with NEnv _ => false | _ => true end.

(* StrictName::from_name for the short/long annotations; None = "Can't derive an explicit name for
   unnamed struct" (or an empty identifier) *)
Fixpoint resolve_names (ident : option bytes) (anns : list nameann) : option (list N * list bytes) :=
  match anns with
  | [] => Some ([], [])
  | a :: t =>
    match resolve_names ident t with
    | None => None
    | Some (sh, lo) =>
      match a with
      | NEnv _ => Some (sh, lo)
      | NShort (Some c) => Some (c :: sh, lo)
      | NLong (Some l) => Some (sh, l :: lo)
      | NShort None =>
        match ident with
        | Some i => match to_kebab_case i with c :: _ => Some (c :: sh, lo) | [] => None end
        | None => None
        end
      | NLong None =>
        match ident with
        | Some i => Some (sh, to_kebab_case i :: lo)
        | None => None
        end
      end
    end
  end.

Definition envs_of (anns : list nameann) : list bytes :=
  flat_map (fun a => match a with NEnv v => [v] | _ => [] end) anns.

(* StructField::make; None = a compile error of the derive macro *)
Definition derive_field (fd : fielddef) : option plan :=
  let has_naming := existsb is_naming (fd_names fd) in
  let name_present := match fd_ident fd with Some _ => true | None => false end || has_naming in
  match (match fd_cons fd with
         | Some a => Some (cons_of_ann a)
         | None => derive_consumer name_present (fd_shape fd)
         end) with
  | None => None
  | Some k =>
    match resolve_names (fd_ident fd) (fd_names fd) with
    | None => None
    | Some (sh, lo) =>
      let names :=
        match needs_name k, has_naming with
        | true, true | false, false => Some (sh, lo)
        | true, false =>
          match fd_ident fd with
          | Some i => if Nat.eqb (length i) 1 then match to_kebab_case i with c :: _ => Some ([c], []) | [] => None end
                      else Some ([], [to_kebab_case i])
          | None => None
          end
        | false, true => None            (* "field doesn't take a name annotation" *)
        end in
      match names with
      | None => None
      | Some (sh', lo') =>
        let shape_post := match fd_shape fd with ShOptional => [PoOptional] | ShMultiple => [PoMany] | _ => [] end in
        Some (mkPlan sh' lo' (envs_of (fd_names fd)) k
                     (shape_post ++ (if fd_fallback fd then [PoFallback] else []))
                     (fd_help fd))
      end
    end
  end.

(* top.rs: a unit variant `Name` of an enum: req_flag named after the variant unless named explicitly *)
Definition unit_variant_names (ident : bytes) (anns : list nameann) : option (list N * list bytes) :=
  match resolve_names (Some ident) anns with
  | None => None
  | Some (sh, lo) => if existsb is_naming anns then Some (sh, lo) else Some ([], [to_kebab_case ident])
  end.

(* a command variant / a type with #[bpaf(command)]: the command name *)
Definition command_name (ident : bytes) (explicit : option bytes) : bytes :=
  match explicit with Some n => n | None => to_kebab_case ident end.

(* top.rs, Mode::Parser: a type derived without `options`/`command` is a plain parser; its doc
   comment becomes the group help unless group_help(..) is given explicitly *)
Definition group_help_of (doc explicit : option bytes) : option bytes :=
  match explicit with Some e => Some e | None => doc end.

(* ------------------------------------------------------------------ doc comment of an `options` / `command` type *)
(* bpaf_derive/src/utils.rs LineIter: the doc comment is cut into blocks at DOUBLE empty lines (a single empty line
   stays inside a block), every block trimmed at its end; top.rs split_options_help: the first block is the
   description, the second (when not empty) the header, the rest -- joined by line breaks -- the footer; an explicit
   descr(..) / header(..) / footer(..) annotation is kept.  Characters are code points; `trim_end` is modelled for
   ASCII white space. *)
Definition d_nl : N := 10%N.
Definition d_is_ws (c : N) : bool := (c =? 32)%N || ((9 <=? c) && (c <=? 13))%N.

(* str::lines *)
Fixpoint lines_go (s : bytes) (cur : bytes) : list bytes :=
  match s with
  | [] => if is_nil cur then [] else [rev cur]
  | c :: t => if (c =? d_nl)%N then rev cur :: lines_go t [] else lines_go t (c :: cur)
  end.
Definition rtrim (s : bytes) : bytes := rev (drop_while d_is_ws (rev s)).

Fixpoint blocks_go (ls : list bytes) (prev_empty : bool) (cur : bytes) : list bytes :=
  match ls with
  | [] => if is_nil cur then [] else [rtrim cur]
  | l :: t =>
    if is_nil l then
      if prev_empty then rtrim cur :: blocks_go t false [] else blocks_go t true cur
    else blocks_go t false ((if prev_empty then cur ++ [d_nl] else cur) ++ l ++ [d_nl])
  end.
Definition doc_blocks (doc : bytes) : list bytes := blocks_go (lines_go doc []) false [].

(* LineIter::rest *)
Fixpoint join_rest (bs : list bytes) (res : bytes) : bytes :=
  match bs with
  | [] => res
  | b :: t => join_rest t ((if is_nil res then res else res ++ [d_nl]) ++ b)
  end.

Definition keep_or (explicit from_doc : option bytes) : option bytes :=
  match explicit with Some _ => explicit | None => from_doc end.

(* (descr, header, footer) of the OptionParser *)
Definition options_help (doc d h f : option bytes) : option bytes * option bytes * option bytes :=
  match doc with
  | None => (d, h, f)
  | Some c =>
    let bs := doc_blocks c in
    let rest := join_rest (tl (tl bs)) [] in
    (keep_or d (hd_error bs),
     keep_or h (match tl bs with b :: _ => if is_nil b then None else Some b | [] => None end),
     keep_or f (if is_nil rest then None else Some rest))
  end.
