(* CompEval.v -- the evaluator of a build WITH the `autocomplete` feature: every `#[cfg(feature = "autocomplete")]`
   statement inside the eval paths of src/params.rs, src/structs.rs, src/complete_shell.rs (ParseCompShell),
   src/args.rs (State::construct, touching_last_remove, no_pos_ahead) and src/info.rs (check_complete in
   run_subparser) -- the FIRST stage of dynamic completion: which hints (`Comp`) the parsers push while they run.
   The second stage (`Complete::complete`) is Model/Complete.v, the renderers are Model/Shell.v.

   The state of such a build is `State` plus `comp: Option<Complete>`; `xst` pairs the ledger of Model/State.v with
   that option.  `comp = None` is a run without a completion request; Lemmas/CompInert.v proves that the evaluator
   below then computes exactly what Model/Eval.v computes (the bookkeeping is inert: property C20) and that the
   completer wrappers `complete(f)` / `complete_shell(op)` change nothing.

   Parsers of this build are `cparser`: the AST of Syntax.v plus the two wrappers; `erase` forgets them.
   Modelling notes:
   * `touching_last_remove` computes `items.len() - 1`: on an EMPTY item list that underflows (panic in debug builds).
     `touching_last` below answers false there; completion cases never have an empty vector (the property says so).
   * after `check_complete` returned None (no item of the line is valid UTF-8) the hints pushed by Info::eval are
     not tracked: nothing can observe them (the level ends with a final failure).
   * `output_rev` values other than 0/1/7/8/9 end the process in the library; `check_complete` gives None here. *)
From BpafModel Require Export Eval Complete.
From BpafModel Require Import Message.
Import ListNotations.

Record cst := mkCst { cs_comps : list comp; cs_rev : nat; cs_nopos : bool }.
Definition xst := (state * option cst)%type.

Definition is_some {A} (o : option A) : bool := match o with Some _ => true | None => false end.

(* ------------------------------------------------------------------ Vec<Comp> plumbing *)
Definition kpush (c : comp) (k : option cst) : option cst :=
  match k with Some x => Some (mkCst (cs_comps x ++ [c]) (cs_rev x) (cs_nopos x)) | None => None end.
Definition kextend (k : option cst) (l : list comp) : option cst :=
  match k with Some x => Some (mkCst (cs_comps x ++ l) (cs_rev x) (cs_nopos x)) | None => None end.
(* State::swap_comps_with *)
Definition kswap (k : option cst) (l : list comp) : option cst * list comp :=
  match k with Some x => (Some (mkCst l (cs_rev x) (cs_nopos x)), cs_comps x) | None => (None, l) end.
Definition kclear (k : option cst) : option cst := fst (kswap k []).
Definition kset_nopos (k : option cst) : option cst :=
  match k with Some x => Some (mkCst (cs_comps x) (cs_rev x) true) | None => None end.
Definition knopos (k : option cst) : bool := match k with Some x => cs_nopos x | None => false end.
Definition kcomps (k : option cst) : list comp := match k with Some x => cs_comps x | None => [] end.

(* State::touching_last_remove *)
Definition touching_last (s : state) (k : option cst) : bool :=
  is_some k && match current s with Some c => Nat.eqb (length (items s)) (S c) | None => false end.

(* ------------------------------------------------------------------ Doc::first_line / Doc::to_completion *)
Fixpoint split_once_nl (p : bytes) : option bytes :=
  match p with
  | [] => None
  | b :: t => if (b =? c_nl)%N then Some [] else option_map (cons b) (split_once_nl t)
  end.

(* the loop of Doc::first_line (after fix: commit -- it stops at the first line break; before it the loop went on with
   a stale payload offset, repeated text and could cut a multi-byte character: panic) *)
Fixpoint first_line_go (toks : doc) (acc : doc) : doc :=
  match toks with
  | TText st sl :: t =>
    match split_once_nl sl with
    | Some first => rev (TText st first :: acc)
    | None => first_line_go t (TText st sl :: acc)
    end
  | _ => rev acc
  end.
Definition doc_first_line (d : doc) : option doc :=
  match d with [] => None | _ => Some (first_line_go d []) end.

Fixpoint trim_end_rev (r : str) : str :=
  match r with c :: t => if is_ws c then trim_end_rev t else r | [] => [] end.
Definition trim_end (s : str) : str := rev (trim_end_rev (rev s)).

Section WithEnv.
Variable env : bytes -> option bytes.
Variable docgen : bool.

Definition to_completion (d : doc) : option str :=
  match doc_first_line d with
  | None => None
  | Some fl =>
    match cdoc_of fl with
    | Some cd => match render_console docgen false 100%N cd with Some t => Some (trim_end t) | None => None end
    | None => None
    end
  end.
Definition help_completion (h : option doc) : option str :=
  match h with Some d => to_completion d | None => None end.

(* ------------------------------------------------------------------ State::push_* *)
Definition sl_parts (sl : shortlong) : option N * option str :=
  match sl with
  | SLShort c => (Some c, None)
  | SLLong l => (None, Some (chars_of l))
  | SLBoth c l => (Some c, Some (chars_of l))
  end.

Definition push_flag (n : named) (s : state) (k : option cst) : option cst :=
  match shortlong_of n with
  | Some sl => let '(sh, lo) := sl_parts sl in
               kpush (CoFlag (mkExtra (depth s) None (help_completion (n_help n))) sh lo) k
  | None => k
  end.
Definition push_argument (n : named) (metavar : bytes) (s : state) (k : option cst) : option cst :=
  match shortlong_of n with
  | Some sl => let '(sh, lo) := sl_parts sl in
               kpush (CoArgument (mkExtra (depth s) None (help_completion (n_help n))) sh lo (chars_of metavar)) k
  | None => k
  end.
Definition push_metavar (metavar : bytes) (help : option doc) (is_argument : bool) (s : state)
           (k : option cst) : option cst :=
  kpush (CoMeta (mkExtra (depth s) None (help_completion help)) (chars_of metavar) is_argument) k.
Definition push_command (name : bytes) (short : option char) (help : option doc) (s : state)
           (k : option cst) : option cst :=
  kpush (CoCommand (mkExtra (depth s) None (help_completion help)) (chars_of name) short) k.
Definition pos_sep_help : str :=
  [80;111;115;105;116;105;111;110;97;108;32;111;110;108;121;32;105;116;101;109;115;32;97;102;116;101;114;32;
   116;104;105;115;32;116;111;107;101;110]%N.   (* "Positional only items after this token" *)
Definition push_pos_sep (s : state) (k : option cst) : option cst :=
  kpush (CoValue (mkExtra (depth s) None (Some pos_sep_help)) [dash; dash] false) k.

Definition set_group (g : str) (c : comp) : comp :=
  let upd (e : cextra) :=
    match ce_group e with Some _ => e | None => mkExtra (ce_depth e) (Some g) (ce_help e) end in
  match c with
  | CoFlag e a b => CoFlag (upd e) a b
  | CoArgument e a b m => CoArgument (upd e) a b m
  | CoCommand e n s => CoCommand (upd e) n s
  | CoValue e b a => CoValue (upd e) b a
  | CoMeta e m a => CoMeta (upd e) m a
  | CoShell e o a => CoShell (upd e) o a
  end.
Definition push_with_group (g : option str) (l : list comp) (k : option cst) : option cst :=
  kextend k (match g with Some gg => map (set_group gg) l | None => l end).

(* ------------------------------------------------------------------ leaves: the plain result and, separately, the hints *)
Definition xevaluator := xst -> eres * xst.

Definition c_eval_flag (n : named) (present : val) (absent : option val) (x : xst) : eres * xst :=
  let '(s, k) := x in
  let '(r, s') := eval_flag env n present absent s in
  let k' :=
    match take_flag n s with
    | Some s1 => if touching_last s1 k then push_flag n s1 k else k
    | None =>
      match env_first env (n_env n) with
      | Some _ => if touching_last s k then push_flag n s k else k
      | None => push_flag n s k
      end
    end in
  (r, (s', k')).

Definition c_eval_arg (n : named) (metavar : bytes) (ty : vty) (adjacent : bool) (x : xst) : eres * xst :=
  let '(s, k) := x in
  let '(r, s') := eval_arg env n metavar ty adjacent s in
  let k' :=
    match take_arg n adjacent s with
    | TASome _ s1 => if touching_last s1 k then push_metavar metavar (n_help n) true s1 k else k
    | TAErr _ => push_argument n metavar s k
    | TANone => push_argument n metavar s k
    end in
  (r, (s', k')).

Definition c_eval_pos (metavar : bytes) (ty : vty) (pos : position) (help : option doc) (x : xst)
  : eres * xst :=
  let '(s, k) := x in
  let '(r, s') := eval_pos metavar ty pos help s in
  let k' :=
    match take_positional_word s with
    | Some (_, is_strict, _, s1) =>
      match pos, is_strict with
      | Strict, false => push_pos_sep s1 k
      | NonStrict, true => k
      | _, _ =>
        if touching_last s1 k && negb (knopos k)
        then kset_nopos (push_metavar metavar help false s1 k) else k
      end
    | None => if negb (knopos k) then kset_nopos (push_metavar metavar help false s k) else k
    end in
  (r, (s', k')).

Definition c_lift (ev : state -> eres * state) (x : xst) : eres * xst :=
  let '(r, s') := ev (fst x) in (r, (s', snd x)).

(* ------------------------------------------------------------------ check_complete (src/complete_gen.rs) *)
Definition dbg_str (s : str) : str := [34%N] ++ s ++ [34%N].      (* {:?} of a &str without characters to escape *)
Definition dbg_mask (m : option str) : str :=
  match m with
  | None => [78;111;110;101]%N                                      (* None *)
  | Some t => [83;111;109;101;40]%N ++ dbg_str t ++ [41]%N          (* Some("..") *)
  end.
(* {:?} of ShellComp *)
Definition dbg_op (o : shellop) : str :=
  match o with
  | OpFile m => [70;105;108;101;32;123;32;109;97;115;107;58;32]%N ++ dbg_mask m ++ [32;125]%N      (* File { mask: .. } *)
  | OpDir m => [68;105;114;32;123;32;109;97;115;107;58;32]%N ++ dbg_mask m ++ [32;125]%N           (* Dir { mask: .. } *)
  | OpRaw b z f e =>
    [82;97;119;32;123;32;98;97;115;104;58;32]%N ++ dbg_str b ++ [44;32;122;115;104;58;32]%N ++ dbg_str z ++
    [44;32;102;105;115;104;58;32]%N ++ dbg_str f ++ [44;32;101;108;118;105;115;104;58;32]%N ++ dbg_str e ++ [32;125]%N
  | OpNothing => [78;111;116;104;105;110;103]%N
  end.

Definition ostr (o : option str) : str := match o with Some s => s | None => [] end.

(* render_test: output revision 0 *)
Definition render_test (items : list showcomp) (ops : list shellop) (lit : str) : str :=
  if is_nil items && is_nil ops then line lit
  else
    match items, ops with
    | [i], [] => if negb (is_nil (sc_subst i)) then sc_subst i
                 else line (sc_subst i ++ [tab] ++ sc_pretty i ++ [tab] ++ ostr (sc_group i) ++ [tab] ++ ostr (sc_help i)) ++ [nl]
    | _, _ =>
      flat_map (fun i => line (sc_subst i ++ [tab] ++ sc_pretty i ++ [tab] ++ ostr (sc_group i) ++ [tab] ++ ostr (sc_help i))) items
      ++ [nl] ++ flat_map (fun o => line (dbg_op o)) ops
    end.

(* the items of the line that carry a non-empty valid UTF-8 text, right to left *)
Definition lit_items (s : state) : list (arg * str) :=
  flat_map (fun a =>
              let os := arg_os a in
              let skip := match a with Short _ _ _ => is_nil os | _ => false end in
              if skip then [] else match utf8_decode os with Some cs => [(a, cs)] | None => [] end)
           (rev (items s)).

Definition check_complete (s : state) (c : cst) : option str :=
  match lit_items s with
  | [] => None
  | (cur, lit) :: rest =>
    let preceding := hd_error rest in
    let '(pos_only, full_lit) :=
      match preceding with
      | Some (Short _ true _, fl) | Some (Long _ true _, fl) => (false, fl)
      | Some (PosWord _, _) => (true, lit)
      | _ => (false, lit)
      end in
    let is_named := match cur with Short _ _ _ | Long _ _ _ => true | _ => false end in
    let prefix :=
      match preceding with
      | Some (Short c true _, _) => PxShort c
      | Some (Long l true _, _) => PxLong (chars_of l)
      | _ => PxNA
      end in
    let '(its, shell) := complete (cs_comps c) lit pos_only is_named prefix in
    match cs_rev c with
    | 0 => Some (render_test its shell full_lit)
    | 1 => Some (render_simple its)
    | 7 => Some (render_zsh its shell full_lit)
    | 8 => Some (render_bash its shell full_lit)
    | 9 => Some (render_fish its shell full_lit)
    | _ => None
    end
  end.

(* ------------------------------------------------------------------ combinator bodies over xst *)
(* structs.rs parse_option: the caught failure hands the ORIGINAL ledger back but keeps the hints collected *)
Definition c_parse_option (ev : xevaluator) (len : option nat) (x : xst) (catch : bool)
  : opt_res * option nat * xst :=
  let '(r, (s', k')) := ev x in
  match r with
  | ROk v =>
    if lt_len (remaining s') len then (OSome v, Some (remaining s'), (s', k')) else (ONone, len, (s', k'))
  | RErr e =>
    let missing := is_missing e in
    if catch || (missing && Nat.eqb (remaining (fst x)) (remaining s')) || (negb missing && can_catch e)
    then (ONone, len, (fst x, match k' with Some _ => k' | None => snd x end))
    else (OErr e, len, (s', k'))
  | RPanic w => (OPanic w, len, (s', k'))
  | RFuel => (OFuel, len, (s', k'))
  end.

Fixpoint c_many_loop (ev : xevaluator) (catch : bool) (fuel : nat) (len : option nat)
         (x : xst) (acc : list val) : eres * list val * xst :=
  match fuel with
  | O => (RFuel, acc, x)
  | S f =>
    match c_parse_option ev len x catch with
    | (OSome v, len', x') => c_many_loop ev catch f len' x' (v :: acc)
    | (ONone, _, x') => (ROk VUnit, acc, x')
    | (OErr e, _, x') => (RErr e, acc, x')
    | (OPanic w, _, x') => (RPanic w, acc, x')
    | (OFuel, _, x') => (RFuel, acc, x')
    end
  end.

Fixpoint c_count_loop (ev : xevaluator) (fuel : nat) (len : option nat) (x : xst)
         (cur : nat) (n : nat) (last : option val) : eres * nat * option val * xst :=
  match fuel with
  | O => (RFuel, n, last, x)
  | S f =>
    match c_parse_option ev len x false with
    | (OSome v, len', x') =>
      if Nat.eqb cur (remaining (fst x')) then (ROk VUnit, S n, Some v, x')
      else c_count_loop ev f len' x' (remaining (fst x')) (S n) (Some v)
    | (ONone, _, x') => (ROk VUnit, n, last, x')
    | (OErr e, _, x') => (RErr e, n, last, x')
    | (OPanic w, _, x') => (RPanic w, n, last, x')
    | (OFuel, _, x') => (RFuel, n, last, x')
    end
  end.

Definition c_optional_body (ev : xevaluator) (catch : bool) (x : xst) : eres * xst :=
  match c_parse_option ev None x catch with
  | (OSome v, _, x') => (ROk (VSome v), x')
  | (ONone, _, x') => (ROk VNone, x')
  | (OErr e, _, x') => (RErr e, x')
  | (OPanic w, _, x') => (RPanic w, x')
  | (OFuel, _, x') => (RFuel, x')
  end.

Definition c_many_body (ev : xevaluator) (catch : bool) (x : xst) : eres * xst :=
  match c_many_loop ev catch (loop_fuel (fst x)) None x [] with
  | (ROk _, acc, x') => (ROk (VList (rev acc)), x')
  | (r, _, x') => (r, x')
  end.

Definition c_some_body (ev : xevaluator) (msg : bytes) (catch : bool) (x : xst) : eres * xst :=
  match c_many_loop ev catch (loop_fuel (fst x)) None x [] with
  | (ROk _, [], x') => (RErr (MsgParseSome msg), x')
  | (ROk _, acc, x') => (ROk (VList (rev acc)), x')
  | (r, _, x') => (r, x')
  end.

Definition c_count_body (ev : xevaluator) (x : xst) : eres * xst :=
  match c_count_loop ev (loop_fuel (fst x)) None x (remaining (fst x)) O None with
  | (ROk _, n, _, x') => (ROk (VNum (Z.of_nat n)), x')
  | (r, _, _, x') => (r, x')
  end.

Definition c_last_body (ev : xevaluator) (x : xst) : eres * xst :=
  match c_count_loop ev (loop_fuel (fst x)) None x (remaining (fst x)) O None with
  | (ROk _, _, Some v, x') => (ROk v, x')
  | (ROk _, _, None, x') => ev x'
  | (r, _, _, x') => (r, x')
  end.

(* ParseFallback / ParseFallbackWith: the inner parser runs on a clone; on failure `swap_comps` keeps its hints *)
Definition c_fallback_with_body (ev : xevaluator) (fb : val + bytes) (x : xst) : eres * xst :=
  match ev x with
  | (ROk r, x') => (ROk r, x')
  | (RErr e, (_, k')) =>
    if can_catch e
    then match fb with inl v => (ROk v, (fst x, k')) | inr t => (RErr (MsgPureFailed t), (fst x, k')) end
    else (RErr e, (fst x, k'))
  | (r, x') => (r, x')
  end.

Definition c_guard_body (ev : xevaluator) (check : val -> bool) (msg : bytes) (x : xst) : eres * xst :=
  match ev x with
  | (ROk t, x') => if check t then (ROk t, x') else (RErr (MsgGuardFailed (current (fst x')) msg), x')
  | r => r
  end.

Definition c_parse_body (ev : xevaluator) (f : val -> val + bytes) (x : xst) : eres * xst :=
  match ev x with
  | (ROk t, x') =>
    match f t with
    | inl r => (ROk r, x')
    | inr e => (RErr (MsgParseFailed (current (fst x')) e), x')
    end
  | r => r
  end.

Definition c_map_body (ev : xevaluator) (f : val -> val) (x : xst) : eres * xst :=
  match ev x with
  | (ROk t, x') => (ROk (f t), x')
  | r => r
  end.

(* ParseHide: whatever the hidden parser pushed is dropped *)
Definition c_hide_body (ev : xevaluator) (x : xst) : eres * xst :=
  let '(s, k) := x in
  let '(k0, stash) := kswap k [] in
  let '(r, (s', k')) := ev (s, k0) in
  let k1 := fst (kswap k' stash) in
  match r with
  | RErr (MsgMissing _) => (RErr (MsgMissing []), (s', k1))
  | _ => (r, (s', k1))
  end.

(* ParseGroupHelp: hints of the inner parser get the group's title *)
Definition c_group_help_body (ev : xevaluator) (d : doc) (x : xst) : eres * xst :=
  let '(s, k) := x in
  let '(k0, stash) := kswap k [] in
  let '(r, (s', k')) := ev (s, k0) in
  let '(k1, inner) := kswap k' stash in
  (r, (s', push_with_group (to_completion d) inner k1)).

(* ParseComp: metavariable hints of the inner parser are replaced by the completer's values *)
Definition comp_values (f : val -> list (str * option str)) (group : option str) (v : val) (d : nat)
           (c : list comp) (ci : comp) : list comp :=
  match ci with
  | CoMeta _ _ is_arg =>
    let sug := f v in
    (if Nat.eqb (length sug) 1 then c else c ++ [ci]) ++
    map (fun '(body, help) => CoValue (mkExtra d group help) body is_arg) sug
  | _ => c ++ [ci]
  end.

Definition c_complete_body (ev : xevaluator) (f : val -> list (str * option str)) (group : option str)
           (x : xst) : eres * xst :=
  let '(s, k) := x in
  let '(k0, stash) := kswap k [] in
  let '(r, (s', k')) := ev (s, k0) in
  let '(k1, inner) := kswap k' stash in
  match k1 with
  | None => (r, (s', None))
  | Some c1 =>
    match r with
    | ROk v =>
      (r, (s', Some (mkCst (fold_left (comp_values f group v (depth s')) inner (cs_comps c1)) (cs_rev c1) (cs_nopos c1))))
    | RErr _ => (r, (s', kextend k1 inner))
    | _ => (r, (s', k1))
    end
  end.

(* ParseCompShell *)
Definition c_comp_shell_body (ev : xevaluator) (op : shellop) (x : xst) : eres * xst :=
  let '(s, k) := x in
  let '(k0, stash) := kswap k [] in
  let '(r, (s', k')) := ev (s, k0) in
  let '(k1, inner) := kswap k' stash in
  (r, (s', kextend k1 (map (fun ci => match ci with
                                      | CoMeta _ _ is_arg => CoShell (mkExtra (depth s') None None) op is_arg
                                      | _ => ci
                                      end) inner))).

(* ------------------------------------------------------------------ ParseOrElse *)
Definition word_dash : bytes := [c_dash].
(* the 'check loop of this_or_that_picks_first: (keep_a, keep_b) *)
Fixpoint keep_scan (its : list arg) (ia ib : list istate) : bool * bool :=
  match its with
  | [] => (true, true)
  | a :: its' =>
    let last_special :=
      is_nil its' && (is_nil (arg_os a) || beqb (arg_os a) word_dash || beqb (arg_os a) dashdash) in
    if last_special then (true, true)
    else
      match ia, ib with
      | pa :: ia', pb :: ib' =>
        match present pa, present pb with
        | false, true => (true, false)
        | true, false => (false, true)
        | _, _ => keep_scan its' ia' ib'
        end
      | _, _ => keep_scan its' (tl ia) (tl ib)
      end
  end.

Definition kdrain (c : cst) : option cst := Some (mkCst [] (cs_rev c) (cs_nopos c)).

Definition or_comps (k0 : option cst) (stash : list comp) (sa : state) (ka : option cst) (sb : state)
           (kb : option cst) (pick : bool + message) : option cst :=
  match Nat.compare (depth sa) (depth sb) with
  | Lt => kextend kb stash
  | Gt => kextend ka stash
  | Eq =>
    match ka, kb with
    | Some ca, Some cb =>
      let '(keep_a, keep_b) :=
        if Nat.eqb (remaining sa) (remaining sb) then (true, true)
        else keep_scan (items sa) (ist sa) (ist sb) in
      let stash' := stash ++ (if keep_a then cs_comps ca else []) ++ (if keep_b then cs_comps cb else []) in
      (* only the hints that go to the stash are drained: a winner whose hints were NOT kept still carries them *)
      kextend (match pick with
               | inl true => if keep_a then kdrain ca else Some ca
               | inl false => if keep_b then kdrain cb else Some cb
               | inr _ => k0
               end) stash'
    | _, _ => kextend (match pick with inl true => ka | inl false => kb | inr _ => k0 end) stash
    end
  end.

Definition c_or_body (eva evb : xevaluator) (x : xst) : eres * xst :=
  let '(s, k) := x in
  let '(k0, stash) := kswap k [] in
  let '(ra, (sa, ka)) := eva (s, k0) in
  match ra with
  | RPanic w => (RPanic w, (sa, ka))
  | RFuel => (RFuel, (sa, ka))
  | _ =>
    let '(rb, (sb, kb)) := evb (s, k0) in
    match rb with
    | RPanic w => (RPanic w, (sb, kb))
    | RFuel => (RFuel, (sb, kb))
    | _ =>
      let '(pick, s') := this_or_that ra rb s sa sb in
      (match pick with inl true => ra | inl false => rb | inr e => RErr e end,
       (s', or_comps k0 stash sa ka sb kb pick))
    end
  end.

(* ------------------------------------------------------------------ construct! *)
Definition xset_current (x : xst) (v : option nat) : xst := (set_current (fst x) v, snd x).

Fixpoint c_con_go (failfast : bool) (evs : list xevaluator) (x : xst) (first : bool)
         (acc : list val) (err : option message) {struct evs} : eres * xst :=
  match evs with
  | [] =>
    match err with
    | Some e => (RErr e, x)
    | None => (ROk (VTuple (rev acc)), xset_current x None)
    end
  | ev :: t =>
    let '(r, x') := ev x in
    match r with
    | ROk v => c_con_go failfast t x' false (v :: acc) err
    | RErr e =>
      if failfast && first then (RErr e, x')
      else c_con_go failfast t x' false acc (match err with Some _ => err | None => Some e end)
    | RPanic w => (RPanic w, x')
    | RFuel => (RFuel, x')
    end
  end.

Definition c_con_body (failfast : bool) (evs : list xevaluator) (x : xst) : eres * xst :=
  let '(r, x') := c_con_go failfast evs x true [] None in (r, xset_current x' None).

(* ------------------------------------------------------------------ ParseAdjacent: the hints travel with the clones *)
Record c_adj_best := mkCBest { cb_consumed : nat; cb_args : xst; cb_err : message }.

Inductive c_adj_step :=
| CAReturn (v : val) (x : xst)
| CANext (best : c_adj_best)
| CAStop (r : eres) (x : xst).

Fixpoint c_adj_inner (ev : xevaluator) (orig : xst) (before : nat) (fuel : nat)
         (this_arg : xst) (best : c_adj_best) : c_adj_step :=
  match fuel with
  | O => CAStop RFuel this_arg
  | S f =>
    let '(r, (ta, kt)) := ev this_arg in
    match r with
    | ROk res =>
      match adjacent_scope ta (fst orig) with
      | ASPanic => CAStop (RPanic P_adj_scope) (ta, kt)
      | ASSome a b =>
        match set_scope (fst orig) a b with
        | Some ta' => c_adj_inner ev orig before f (ta', snd orig) best
        | None => CAStop (RPanic P_set_scope) (ta, kt)
        end
      | ASNone =>
        match set_scope ta (sc_start (fst orig)) (sc_end (fst orig)) with
        | Some fin => CAReturn res (fin, kt)
        | None => CAStop (RPanic P_set_scope) (ta, kt)
        end
      end
    | RErr err =>
      if Nat.ltb before (remaining ta) then CAStop (RPanic P_sub_overflow) (ta, kt)
      else
        let consumed := before - remaining ta in
        if Nat.ltb (cb_consumed best) consumed then CANext (mkCBest consumed (ta, kt) err) else CANext best
    | RPanic w => CAStop (RPanic w) (ta, kt)
    | RFuel => CAStop RFuel (ta, kt)
    end
  end.

Definition c_adj_try (ev : xevaluator) (orig : xst) (width start : nat) (best : c_adj_best) : c_adj_step :=
  let so := fst orig in
  let n := length (items so) in
  match set_scope so start n with
  | None => CAStop (RPanic P_set_scope) orig
  | Some this_arg0 =>
    match set_scope this_arg0 start (start + width) with
    | None => CAStop (RPanic P_set_scope) orig
    | Some scratch =>
      let before := remaining scratch in
      if Nat.eqb before 0 then CANext best
      else
        let '(r0, (scratch', ks)) := ev (scratch, snd orig) in
        match r0 with
        | RPanic w => CAStop (RPanic w) (scratch', ks)
        | RFuel => CAStop RFuel (scratch', ks)
        | _ =>
          if Nat.eqb before (remaining scratch') then CANext best
          else
            match set_scope this_arg0 start (sc_end so) with
            | None => CAStop (RPanic P_set_scope) orig
            | Some this_arg1 =>
              let before2 := remaining this_arg1 in
              let trimmed :=
                if Nat.ltb before2 (sc_end so - start)
                then let '(a, b) := adjacently_available_from this_arg1 start in
                     set_scope this_arg1 a b
                else Some this_arg1 in
              match trimmed with
              | None => CAStop (RPanic P_set_scope) orig
              | Some this_arg2 =>
                c_adj_inner ev orig before2 (loop_fuel so) (this_arg2, snd orig) best
              end
            end
        end
    end
  end.

Fixpoint c_adj_outer (ev : xevaluator) (orig : xst) (width : nat) (starts : list nat)
         (best : c_adj_best) : eres * xst :=
  match starts with
  | [] =>
    match set_scope (fst (cb_args best)) (sc_start (fst orig)) (sc_end (fst orig)) with
    | Some fin => (RErr (cb_err best), (fin, snd (cb_args best)))
    | None => (RPanic P_set_scope, orig)
    end
  | start :: more =>
    match c_adj_try ev orig width start best with
    | CAReturn v x => (ROk v, x)
    | CANext best' => c_adj_outer ev orig width more best'
    | CAStop r _ => (r, orig)
    end
  end.

Definition c_eval_adjacent (ev : xevaluator) (fi : option item) (x : xst) : eres * xst :=
  match fi with
  | None => (RPanic P_adj_first, x)
  | Some it =>
    let best := mkCBest 0 x (missing_msg it (fst x)) in
    c_adj_outer ev x (item_width it) (adj_starts (fst x) (item_width it)) best
  end.

(* ------------------------------------------------------------------ ParseCommand *)
Definition c_cmd_body (name : bytes) (aliases : list bytes) (shorts : list char) (help : option doc)
           (adjacent : bool) (m_sub : meta) (i_sub : info) (run : xst -> sres * xst)
           (x : xst) : eres * xst :=
  let '(s, k) := x in
  let names := (name :: aliases) ++ map utf8_encode_char shorts in
  let '(hit, s1) := take_cmd_any names s in
  if hit then
    if touching_last s1 k then
      (* prefer completing the command name over going inside *)
      (RErr (MsgMissing []), (s1, push_command name (hd_error shorts) help s1 (kclear k)))
    else
    match current s1 with
    | None => (RPanic P_set_scope, (s1, k))
    | Some cur =>
      match set_scope s1 cur (sc_end s1) with
      | None => (RPanic P_set_scope, (s1, k))
      | Some s2 =>
        let s3 := set_path s2 (path s2 ++ [name]) in
        if adjacent then
          let '(a, b) := adjacently_available_from s3 (S (sc_start s3)) in
          match set_scope s3 a b with
          | None => (RPanic P_set_scope, (s3, k))
          | Some s4 =>
            match run (s4, k) with
            | (SOk v, (s5, k5)) =>
              match set_scope s5 (sc_start s3) (sc_end s3) with
              | Some s6 => (ROk v, (s6, k5))
              | None => (RPanic P_set_scope, (s5, k5))
              end
            | (SFail f, (s5, k5)) =>
              match adjacent_scope s5 s3 with
              | ASPanic => (RPanic P_adj_scope, (s5, k5))
              | ASNone => (RErr (MsgParseFailure f), (s5, k5))
              | ASSome na nb =>
                match set_scope s3 na nb with
                | None => (RPanic P_set_scope, (s5, k5))
                | Some o1 =>
                  match run (o1, k) with
                  | (SOk res, (o2, k6)) =>
                    match set_scope o2 (sc_start s3) (sc_end s3) with
                    | Some o3 => (ROk res, (o3, k6))
                    | None => (RPanic P_set_scope, (o2, k6))
                    end
                  | (SFail _, _) => (RErr (MsgParseFailure f), (s5, k5))
                  | (SPanic w, x2) => (RPanic w, x2)
                  | (SFuel, x2) => (RFuel, x2)
                  end
                end
              end
            | (SPanic w, x5) => (RPanic w, x5)
            | (SFuel, x5) => (RFuel, x5)
            end
          end
        else
          match run (s3, k) with
          | (SOk v, x4) => (ROk v, x4)
          | (SFail f, x4) => (RErr (MsgParseFailure f), x4)
          | (SPanic w, x4) => (RPanic w, x4)
          | (SFuel, x4) => (RFuel, x4)
          end
      end
    end
  else
    (RErr (missing_msg (ICommand name (hd_error shorts) help m_sub i_sub) s1),
     (s1, push_command name (hd_error shorts) help s1 k)).

(* ------------------------------------------------------------------ run_subparser *)
(* the cases in which run_subparser returns before it looks at the hints *)
Definition early (inf : info) (s : state) (r : eres) : bool :=
  match r with
  | RPanic _ | RFuel => true
  | RErr (MsgParseFailure _) => true
  | RErr _ => i_help_if_no_args inf && Nat.eqb (remaining s) 0
  | ROk _ => false
  end.

Definition c_run_sub_body (inf : info) (m : meta) (x : xst) (res : eres * xst) : sres * xst :=
  let '(r, (s1, k1)) := res in
  let '(pr, ps) := run_sub_body env inf m (fst x) (r, s1) in
  match k1 with
  | None => (pr, (ps, None))
  | Some c =>
    if early inf (fst x) r then (pr, (ps, k1))
    else
      match check_complete s1 c with
      | Some txt => (SFail (FCompletion (utf8_encode txt)), (s1, k1))
      | None => (pr, (ps, k1))
      end
  end.

End WithEnv.

(* ------------------------------------------------------------------ parsers of the autocomplete build *)
Inductive cparser :=
| XFlag (n : named) (present : val) (absent : option val)
| XArg (n : named) (metavar : bytes) (ty : vty) (adjacent : bool)
| XPos (metavar : bytes) (ty : vty) (pos : position) (help : option doc)
| XAny (metavar : doc) (help : option doc) (check : bytes -> option val) (anywhere : bool)
| XCmd (name : bytes) (aliases : list bytes) (shorts : list char) (help : option doc)
       (adjacent : bool) (sub : coparser)
| XCon (fields : cplist)
| XAdj (fields : cplist)
| XOr (a b : cparser)
| XOptional (p : cparser) (catch : bool)
| XMany (p : cparser) (catch : bool)
| XSome (p : cparser) (msg : bytes) (catch : bool)
| XCollect (p : cparser) (catch : bool)
| XCount (p : cparser)
| XLast (p : cparser)
| XFallback (p : cparser) (v : val) (shown : bytes)
| XFallbackWith (p : cparser) (r : val + bytes) (shown : bytes)
| XGuard (p : cparser) (check : val -> bool) (msg : bytes)
| XParse (p : cparser) (f : val -> val + bytes)
| XMap (p : cparser) (f : val -> val)
| XHide (p : cparser)
| XUsage (p : cparser) (d : doc)
| XGroupHelp (p : cparser) (d : doc)
| XPure (v : val)
| XPureWith (r : val + bytes)
| XFail (msg : bytes)
| XBoxed (p : cparser)
| XComplete (p : cparser) (f : val -> list (str * option str)) (group : option str)   (* .complete(f) *)
| XCompShell (p : cparser) (op : shellop)                                             (* .complete_shell(op) *)
with cplist :=
| XNil
| XCons (p : cparser) (ps : cplist)
with coparser :=
| XOptions (p : cparser) (i : info).

(* forget the completer wrappers: the parser a build without `autocomplete` has *)
Fixpoint erase (p : cparser) : parser :=
  match p with
  | XFlag n a b => PFlag n a b
  | XArg n mv ty adj => PArg n mv ty adj
  | XPos mv ty pos help => PPos mv ty pos help
  | XAny mv help check anywhere => PAny mv help check anywhere
  | XCmd name aliases shorts help adjacent sub => PCmd name aliases shorts help adjacent (erase_o sub)
  | XCon fields => PCon (erase_l fields)
  | XAdj fields => PAdj (erase_l fields)
  | XOr a b => POr (erase a) (erase b)
  | XOptional q c => POptional (erase q) c
  | XMany q c => PMany (erase q) c
  | XSome q m c => PSome (erase q) m c
  | XCollect q c => PCollect (erase q) c
  | XCount q => PCount (erase q)
  | XLast q => PLast (erase q)
  | XFallback q v sh => PFallback (erase q) v sh
  | XFallbackWith q r sh => PFallbackWith (erase q) r sh
  | XGuard q c m => PGuard (erase q) c m
  | XParse q f => PParse (erase q) f
  | XMap q f => PMap (erase q) f
  | XHide q => PHide (erase q)
  | XUsage q d => PUsage (erase q) d
  | XGroupHelp q d => PGroupHelp (erase q) d
  | XPure v => PPure v
  | XPureWith r => PPureWith r
  | XFail m => PFail m
  | XBoxed q => PBoxed (erase q)
  | XComplete q _ _ => erase q
  | XCompShell q _ => erase q
  end
with erase_l (ps : cplist) : plist :=
  match ps with XNil => PNil | XCons q t => PCons (erase q) (erase_l t) end
with erase_o (o : coparser) : oparser :=
  match o with XOptions q i => Options (erase q) i end.

(* a field list with one field is the field itself only when erasure keeps it one field: it always does *)
Section Interp.
Variable env : bytes -> option bytes.
Variable docgen : bool.

Fixpoint ceval (p : cparser) (x : xst) {struct p} : eres * xst :=
  match p with
  | XFlag n present absent => c_eval_flag env docgen n present absent x
  | XArg n mv ty adj => c_eval_arg env docgen n mv ty adj x
  | XPos mv ty pos help => c_eval_pos docgen mv ty pos help x
  | XAny mv help check anywhere => c_lift (eval_any mv help check anywhere) x
  | XCmd name aliases shorts help adjacent sub =>
    c_cmd_body docgen name aliases shorts help adjacent (ometa_of (erase_o sub)) (oinfo_of (erase_o sub))
               (crun_sub sub) x
  | XCon fields =>
    match fields with
    | XNil => (ROk (VTuple []), xset_current x None)
    | XCons q XNil => ceval q x
    | _ => c_con_body false (cevals fields) x
    end
  | XAdj fields =>
    c_eval_adjacent (c_con_body true (cevals fields)) (first_item (con_meta (erase_l fields))) x
  | XOr a b => c_or_body (ceval a) (ceval b) x
  | XOptional q catch => c_optional_body (ceval q) catch x
  | XMany q catch => c_many_body (ceval q) catch x
  | XCollect q catch => c_many_body (ceval q) catch x
  | XSome q msg catch => c_some_body (ceval q) msg catch x
  | XCount q => c_count_body (ceval q) x
  | XLast q => c_last_body (ceval q) x
  | XFallback q v _ => c_fallback_with_body (ceval q) (inl v) x
  | XFallbackWith q fb _ => c_fallback_with_body (ceval q) fb x
  | XGuard q check msg => c_guard_body (ceval q) check msg x
  | XParse q f => c_parse_body (ceval q) f x
  | XMap q f => c_map_body (ceval q) f x
  | XHide q => c_hide_body (ceval q) x
  | XUsage q _ => ceval q x
  | XGroupHelp q d => c_group_help_body docgen (ceval q) d x
  | XPure v => (ROk v, xset_current x None)
  | XPureWith r =>
    match r with inl v => (ROk v, x) | inr e => (RErr (MsgPureFailed e), x) end
  | XFail msg => (RErr (MsgParseFail msg), xset_current x None)
  | XBoxed q => ceval q x
  | XComplete q f group => c_complete_body (ceval q) f group x
  | XCompShell q op => c_comp_shell_body (ceval q) op x
  end

with cevals (ps : cplist) {struct ps} : list (xst -> eres * xst) :=
  match ps with
  | XNil => []
  | XCons q t => ceval q :: cevals t
  end

with crun_sub (o : coparser) (x : xst) {struct o} : sres * xst :=
  match o with
  | XOptions q inf => c_run_sub_body env inf (meta_of (erase q)) x (ceval q x)
  end.

End Interp.

(* ------------------------------------------------------------------ run_inner of the autocomplete build *)
(* ArgScanner::check_next (src/complete_run.rs): an item `--bpaf-complete-rev=N` left of `--` is removed from the line
   and switches completion on (the last valid N wins; a value that is not a number is removed all the same).  The
   `--bpaf-complete-style-*` items, which print a script and end the process, are not modelled. *)
Definition marker_prefix : bytes :=
  [45;45;98;112;97;102;45;99;111;109;112;108;101;116;101;45;114;101;118;61]%N.   (* --bpaf-complete-rev= *)
Fixpoint strip_prefix (p s : bytes) : option bytes :=
  match p, s with
  | [], _ => Some s
  | a :: p', b :: s' => if (a =? b)%N then strip_prefix p' s' else None
  | _ :: _, [] => None
  end.
Definition usize_max : Z := 18446744073709551615%Z.
(* Some (Some n): a marker naming revision n (every n above 9 is an unsupported revision: 10 stands for them);
   Some None: a marker without a number; None: not a marker *)
Definition marker_rev (w : bytes) : option (option nat) :=
  if utf8_valid w then
    match strip_prefix marker_prefix w with
    | Some ver =>
      Some (match parse_int false 0%Z usize_max ver with
            | inl z => Some (if (9 <? z)%Z then 10 else Z.to_nat z)
            | inr _ => None
            end)
    | None => None
    end
  else None.
Definition word_ambiguous (sf sa : list char) (w : bytes) : bool :=
  is_some (t_ambiguity (tokenize sf sa [w])).
(* the words the tokenizer sees, and the revision: scanning ends at `--` and at an ambiguous cluster (the loop of
   State::construct breaks there) *)
Fixpoint scan_markers (sf sa : list char) (argv : list bytes) (rev : option nat) : list bytes * option nat :=
  match argv with
  | [] => ([], rev)
  | w :: t =>
    if beqb w dashdash then (argv, rev)
    else
      match marker_rev w with
      | Some (Some n) => scan_markers sf sa t (Some n)
      | Some None => scan_markers sf sa t rev
      | None =>
        if word_ambiguous sf sa w then (argv, rev)
        else let '(r, k) := scan_markers sf sa t rev in (w :: r, k)
      end
  end.

(* State::construct with `Args::set_comp(rev)` and / or markers on the line: a trailing `--` stays available so
   that it can be completed *)
Definition c_initial_state (o : coparser) (name : option bytes) (argv0 : list bytes) (rev0 : option nat)
  : xst * option (nat * bytes) :=
  let '(sf, sa) := short_tables (erase_o o) in
  let '(argv, rev) := scan_markers sf sa argv0 rev0 in
  let '(st, amb) := construct sf sa name argv in
  match rev with
  | None => ((st, None), amb)
  | Some r =>
    let st' :=
      match t_marker (tokenize sf sa argv) with
      | Some ix =>
        if Nat.eqb (S ix) (length (items st))
        then mkState (items st) (update_nth ix Unparsed (ist st)) (S (remaining st)) (current st) (path st)
                     (sc_start st) (sc_end st) []
        else st
      | None => st
      end in
    ((st', Some (mkCst [] r false)), amb)
  end.

Definition c_run_inner_state (feat : features) (env : bytes -> option bytes) (o : coparser)
           (name : option bytes) (argv : list bytes) (rev : option nat) : sres * xst :=
  let '(x, amb) := c_initial_state o name argv rev in
  match amb, snd x with
  | Some (ix, short), None =>
    (SFail (FStderr (MsgAmbiguity ix short)
                    (render_message (MsgAmbiguity ix short) (fst x) (ometa_of (erase_o o)))), x)
  | _, _ => crun_sub env (f_docgen feat) o x
  end.

Definition c_run_inner (feat : features) (env : bytes -> option bytes) (o : coparser)
           (name : option bytes) (argv : list bytes) (rev : option nat) : outcome :=
  outcome_of (fst (c_run_inner_state feat env o name argv rev)).

(* the completer the harness attaches (harness/driver/src/build.rs complete_of): a fixed table, filtered by what
   was typed unless the menu number is 1 *)
Definition completer_values : list (str * option str) :=
  [ ([97;108;112;104;97]%N, Some [102;105;114;115;116;32;108;101;116;116;101;114]%N);   (* alpha, first letter *)
    ([97;108;112;105;110;101]%N, None);                                                  (* alpine *)
    ([98;101;116;97]%N, Some [115;101;99;111;110;100]%N);                                (* beta, second *)
    ([98;101;32;116;97]%N, None);                                                        (* be ta *)
    ([105;116;39;115]%N, Some [113;117;111;116;101]%N);                                  (* it's, quote *)
    ([45;45;100;97;115;104;121]%N, None) ].                                              (* --dashy *)

Definition completer_menu (k : N) (v : val) : list (str * option str) :=
  let typed := match v with VBytes b => b | _ => [] end in
  filter (fun '(c, _) => (k =? 1)%N || starts_with typed c) completer_values.
