(* State.v -- the consumption ledger: src/args.rs `State` and its methods. *)
From BpafModel Require Export Tokenize.

Inductive istate := Unparsed | Conflict (winner : nat) | Parsed.

Definition present (i : istate) : bool :=
  match i with Parsed => false | _ => true end.
Definition parsed (i : istate) : bool := negb (present i).

(* ghost: who consumed an item *)
Inductive ckind :=
| KFlag (n : named)
| KArgKey (n : named)
| KArgVal (n : named)
| KPos
| KCmd (name : bytes)
| KAny
| KTok.                         (* the `--` separator, consumed by the tokenizer *)

Record state := mkState {
  items : list arg;
  ist : list istate;
  remaining : nat;
  current : option nat;
  path : list bytes;
  sc_start : nat;
  sc_end : nat;
  log : list (nat * ckind) }.    (* ghost consumption log, newest first; never read *)

Definition set_ist s v := mkState (items s) v (remaining s) (current s) (path s) (sc_start s) (sc_end s) (log s).
Definition set_current s v := mkState (items s) (ist s) (remaining s) v (path s) (sc_start s) (sc_end s) (log s).
Definition set_path s v := mkState (items s) (ist s) (remaining s) (current s) v (sc_start s) (sc_end s) (log s).

Definition ist_at (s : state) (ix : nat) : option istate := nth_error (ist s) ix.

(* State::present *)
Definition present_at (s : state) (ix : nat) : option bool := option_map present (ist_at s ix).

Definition in_scope (s : state) (ix : nat) : bool :=
  Nat.leb (sc_start s) ix && Nat.ltb ix (sc_end s).

Definition depth (s : state) : nat := length (path s).

(* count of present entries in ist[a..b) *)
Definition count_present (l : list istate) (a b : nat) : nat :=
  length (filter present (firstn (b - a) (skipn a l))).

(* State::set_scope -- `self.item_state[self.scope()]` panics unless a <= b <= len *)
Definition set_scope (s : state) (a b : nat) : option state :=
  if Nat.leb a b && Nat.leb b (length (ist s))
  then Some (mkState (items s) (ist s) (count_present (ist s) a b) (current s) (path s) a b (log s))
  else None.

(* State::sremove; k is the ghost tag *)
Definition sremove (k : ckind) (ix : nat) (s : state) : state :=
  if in_scope s ix && match ist_at s ix with Some i => present i | None => false end
  then mkState (items s) (update_nth ix Parsed (ist s)) (pred (remaining s)) (Some ix)
               (path s) (sc_start s) (sc_end s) ((ix, k) :: log s)
  else s.

(* ArgsIter: first index >= from inside the scope that is present and satisfies f.
   Searching is by structural recursion on the suffix of the item list. *)
Fixpoint find_from (f : nat -> arg -> bool) (ix : nat) (its : list arg) (sts : list istate)
         (sc_e : nat) : option nat :=
  match its, sts with
  | a :: its', st :: sts' =>
    if Nat.ltb ix sc_e then
      if present st && f ix a then Some ix else find_from f (S ix) its' sts' sc_e
    else None
  | _, _ => None
  end.

(* items_iter().find(f) *)
Definition find_item (s : state) (f : nat -> arg -> bool) : option nat :=
  find_from f (sc_start s) (skipn (sc_start s) (items s)) (skipn (sc_start s) (ist s)) (sc_end s).

(* items_iter().next() *)
Definition first_item_ix (s : state) : option nat := find_item s (fun _ _ => true).

(* State::get *)
Definition get (s : state) (ix : nat) : option arg :=
  if in_scope s ix && match ist_at s ix with Some i => present i | None => false end
  then nth_error (items s) ix else None.

(* NamedArg::matches_arg *)
Definition matches_arg (n : named) (adjacent : bool) (a : arg) : bool :=
  match a with
  | Short c is_adj _ => mem_N c (n_short n) && (negb adjacent || is_adj)
  | Long l is_adj _ => mem_bytes l (n_long n) && (negb adjacent || is_adj)
  | _ => false
  end.

(* State::take_flag *)
Definition take_flag (n : named) (s : state) : option state :=
  match find_item s (fun _ a => matches_arg n false a) with
  | Some ix => Some (sremove (KFlag n) ix s)
  | None => None
  end.

Inductive take_arg_result :=
| TANone                                  (* Ok(None): key not present *)
| TAErr (key_ix : nat)                    (* NoArgument(key_ix, metavar) *)
| TASome (w : bytes) (s : state).

(* State::take_arg *)
Definition take_arg (n : named) (adjacent : bool) (s : state) : take_arg_result :=
  match find_item s (fun _ a => matches_arg n adjacent a) with
  | None => TANone
  | Some key_ix =>
    let val_ix := S key_ix in
    match get s val_ix with
    | Some (Word w) | Some (ArgWord w) =>
      let s1 := sremove (KArgKey n) key_ix s in
      let s2 := sremove (KArgVal n) val_ix s1 in
      TASome w s2
    | _ => TAErr key_ix
    end
  end.

(* State::take_positional_word: (ix, is_strict, word, state') *)
Definition take_positional_word (s : state) : option (nat * bool * bytes * state) :=
  match find_item s (fun _ a => match a with Word _ | PosWord _ => true | _ => false end) with
  | Some ix =>
    match nth_error (items s) ix with
    | Some (Word w) => Some (ix, false, w, sremove KPos ix s)
    | Some (PosWord w) => Some (ix, true, w, sremove KPos ix s)
    | _ => None
    end
  | None => None
  end.

(* State::take_cmd; returns (matched, state') *)
Definition take_cmd (word : bytes) (s : state) : bool * state :=
  match first_item_ix s with
  | Some ix =>
    match nth_error (items s) ix with
    | Some (Word w) | Some (Short _ _ w) | Some (Long _ false w) =>
      if beqb w word
      then (true, set_current (sremove (KCmd word) ix s) (Some ix))
      else (false, set_current s None)
    | _ => (false, set_current s None)
    end
  | None => (false, set_current s None)
  end.

(* State::pick_winner *)
Fixpoint pick_winner_go (ix : nat) (me other : list istate) : bool * option nat :=
  match me, other with
  | a :: me', b :: other' =>
    if xorb (parsed a) (parsed b) then (parsed a, Some ix) else pick_winner_go (S ix) me' other'
  | _, _ => (true, None)
  end.
Definition pick_winner (me other : state) : bool * option nat :=
  pick_winner_go O (ist me) (ist other).

(* State::save_conflicts *)
Fixpoint save_conflicts_go (win : nat) (winner loser : list istate) : list istate :=
  match winner, loser with
  | w :: winner', l :: loser' =>
    (if present w && parsed l then Conflict win else w) :: save_conflicts_go win winner' loser'
  | _, _ => winner
  end.
Definition save_conflicts (s loser : state) (win : nat) : state :=
  set_ist s (save_conflicts_go win (ist s) (ist loser)).

(* State::conflict *)
Definition conflict (s : state) : option (nat * nat) :=
  match first_item_ix s with
  | Some ix => match ist_at s ix with Some (Conflict other) => Some (ix, other) | _ => None end
  | None => None
  end.

(* State::adjacently_available_from *)
Definition adjacently_available_from (s : state) (start : nat) : nat * nat :=
  (start, start + length (take_while present (skipn start (ist s)))).

(* first offset >= start where both ledgers show the item present *)
Fixpoint both_present_from (ix : nat) (this orig : list istate) : option nat :=
  match this, orig with
  | a :: this', b :: orig' =>
    if present a && present b then Some ix else both_present_from (S ix) this' orig'
  | _, _ => None
  end.

Inductive adj_scope_result :=
| ASPanic                              (* item_state[start..] with start > len *)
| ASNone
| ASSome (a b : nat).

(* State::adjacent_scope *)
Definition adjacent_scope (s original : state) : adj_scope_result :=
  if is_nil (items s) then ASNone
  else
    let start := sc_start s in
    if Nat.ltb (length (ist s)) start || Nat.ltb (length (ist original)) start then ASPanic
    else
      match both_present_from start (skipn start (ist s)) (skipn start (ist original)) with
      | Some offset =>
        if Nat.eqb (sc_start s) start && Nat.eqb (sc_end s) offset then ASNone
        else ASSome start offset
      | None => ASNone
      end.

(* ------------------------------------------------------------------ State::construct *)
Definition construct (short_flags short_args : list char) (name : option bytes)
           (argv : list bytes) : state * option (nat * bytes) :=
  let t := tokenize short_flags short_args argv in
  let n := length (t_items t) in
  let ist0 := repeat Unparsed n in
  let '(ist1, rem, lg) :=
    match t_marker t with
    | Some ix => (update_nth ix Parsed ist0, pred n, [(ix, KTok)])
    | None => (ist0, n, [])
    end in
  (mkState (t_items t) ist1 rem None
           (match name with Some nm => [nm] | None => [] end) O n lg,
   t_ambiguity t).
