(* Eval.v -- the definitional interpreter: Parser::eval of every combinator
   (src/params.rs, src/structs.rs, the construct! macro of src/lib.rs) and
   OptionParser::run_subparser / run_inner / Info::eval (src/info.rs).
   Panics and fuel exhaustion are explicit outcomes. *)
From BpafModel Require Export State Meta Values.
From BpafModel Require Import Message.
From BpafGen Require Export CanCatch.

Inductive eres :=
| ROk (v : val)
| RErr (m : message)
| RPanic (why : N)
| RFuel.

(* panic sites *)
Definition P_set_scope : N := 1%N.       (* item_state[scope] out of range *)
Definition P_no_key : N := 2%N.          (* todo!("no key!") / unreachable!() of a nameless item *)
Definition P_adj_first : N := 3%N.       (* unreachable!: adjacent must start with an item *)
Definition P_sub_overflow : N := 4%N.    (* usize subtraction overflow (debug builds) *)
Definition P_invariant : N := 5%N.       (* positional_invariant_check in render_help *)
Definition P_adj_scope : N := 6%N.       (* item_state[start..] out of range in adjacent_scope *)

(* run_subparser result *)
Inductive sres :=
| SOk (v : val)
| SFail (f : failure)
| SPanic (why : N)
| SFuel.

Definition combine_with (a b : message) : message :=
  match a, b with
  | MsgParseFailure _, _ => a
  | _, MsgParseFailure _ => b
  | MsgMissing x, MsgMissing y => MsgMissing (x ++ y)
  | _, _ => if can_catch a then b else a
  end.

Definition is_missing (m : message) : bool :=
  match m with MsgMissing _ => true | _ => false end.

Definition missing_msg (it : item) (s : state) : message :=
  MsgMissing [mkMissing it (sc_start s) (sc_start s, sc_end s)].

Definition lt_len (n : nat) (len : option nat) : bool :=
  match len with None => true | Some m => Nat.ltb n m end.

Inductive opt_res :=
| ONone
| OSome (v : val)
| OErr (m : message)
| OPanic (w : N)
| OFuel.

(* structs.rs parse_option; `len = None` is usize::MAX *)
Definition parse_option (ev : state -> eres * state) (len : option nat) (s : state)
           (catch : bool) : opt_res * option nat * state :=
  let '(r, s') := ev s in
  match r with
  | ROk v =>
    if lt_len (remaining s') len then (OSome v, Some (remaining s'), s') else (ONone, len, s')
  | RErr e =>
    let missing := is_missing e in
    if catch || (missing && Nat.eqb (remaining s) (remaining s')) || (negb missing && can_catch e)
    then (ONone, len, s)
    else (OErr e, len, s')
  | RPanic w => (OPanic w, len, s')
  | RFuel => (OFuel, len, s')
  end.

(* ParseMany / ParseCollect / ParseSome loop *)
Fixpoint many_loop (ev : state -> eres * state) (catch : bool) (fuel : nat) (len : option nat)
         (s : state) (acc : list val) : eres * list val * state :=
  match fuel with
  | O => (RFuel, acc, s)
  | S f =>
    match parse_option ev len s catch with
    | (OSome v, len', s') => many_loop ev catch f len' s' (v :: acc)
    | (ONone, _, s') => (ROk VUnit, acc, s')
    | (OErr e, _, s') => (RErr e, acc, s')
    | (OPanic w, _, s') => (RPanic w, acc, s')
    | (OFuel, _, s') => (RFuel, acc, s')
    end
  end.

(* ParseCount / ParseLast loop: counts iterations and keeps the last value *)
Fixpoint count_loop (ev : state -> eres * state) (fuel : nat) (len : option nat) (s : state)
         (cur : nat) (n : nat) (last : option val) : eres * nat * option val * state :=
  match fuel with
  | O => (RFuel, n, last, s)
  | S f =>
    match parse_option ev len s false with
    | (OSome v, len', s') =>
      if Nat.eqb cur (remaining s') then (ROk VUnit, S n, Some v, s')
      else count_loop ev f len' s' (remaining s') (S n) (Some v)
    | (ONone, _, s') => (ROk VUnit, n, last, s')
    | (OErr e, _, s') => (RErr e, n, last, s')
    | (OPanic w, _, s') => (RPanic w, n, last, s')
    | (OFuel, _, s') => (RFuel, n, last, s')
    end
  end.

Definition loop_fuel (s : state) : nat := S (S (length (items s))).

(* ------------------------------------------------------------------ this_or_that_picks_first *)
(* returns (result, new args) where result: inl true = pick a, inl false = pick b, inr = error *)
Definition this_or_that (ra rb : eres) (s sa sb : state) : (bool + message) * state :=
  let err r := match r with RErr e => Some e | _ => None end in
  match Nat.compare (depth sa) (depth sb) with
  | Lt => (match err rb with Some e => inr e | None => inl false end, sb)
  | Gt => (match err ra with Some e => inr e | None => inl true end, sa)
  | Eq =>
    match err ra, err rb with
    | None, None =>
      let '(pick_a, ix) :=
        if Nat.eqb (remaining s) (remaining sa) && Nat.eqb (remaining s) (remaining sb)
        then (true, None) else pick_winner sa sb in
      if pick_a
      then (inl true, match ix with Some win => save_conflicts sa sb win | None => sa end)
      else (inl false, match ix with Some win => save_conflicts sb sa win | None => sb end)
    | Some e1, Some e2 => (inr (combine_with e1 e2), s)
    | None, Some _ => (inl true, sa)
    | Some _, None => (inl false, sb)
    end
  end.

(* ------------------------------------------------------------------ ParseAdjacent *)
Definition item_width (i : item) : nat :=
  match i with IArgument _ _ _ _ _ => 2 | _ => 1 end.

(* ArgRangesIter: the start offsets it yields *)
Definition adj_starts (s : state) (width : nat) : list nat :=
  filter (fun cur =>
            match present_at s cur with
            | Some true => Nat.leb (cur + width) (length (items s))
            | _ => false
            end)
         (seq (sc_start s) (S (sc_end s) - sc_start s)).

Record adj_best := mkBest { b_consumed : nat; b_args : state; b_err : message }.

Inductive adj_step :=
| AReturn (v : val) (s : state)
| ANext (best : adj_best)
| AStop (r : eres) (s : state).       (* panic / fuel *)

(* the inner `loop` of ParseAdjacent::eval *)
Fixpoint adj_inner (ev : state -> eres * state) (orig : state) (before : nat) (fuel : nat)
         (this_arg : state) (best : adj_best) : adj_step :=
  match fuel with
  | O => AStop RFuel this_arg
  | S f =>
    let '(r, ta) := ev this_arg in
    match r with
    | ROk res =>
      match adjacent_scope ta orig with
      | ASPanic => AStop (RPanic P_adj_scope) ta
      | ASSome a b =>
        match set_scope orig a b with
        | Some ta' => adj_inner ev orig before f ta' best
        | None => AStop (RPanic P_set_scope) ta
        end
      | ASNone =>
        match set_scope ta (sc_start orig) (sc_end orig) with
        | Some fin => AReturn res fin
        | None => AStop (RPanic P_set_scope) ta
        end
      end
    | RErr err =>
      if Nat.ltb before (remaining ta) then AStop (RPanic P_sub_overflow) ta
      else
        let consumed := before - remaining ta in
        if Nat.ltb (b_consumed best) consumed then ANext (mkBest consumed ta err) else ANext best
    | RPanic w => AStop (RPanic w) ta
    | RFuel => AStop RFuel ta
    end
  end.

(* body of the `for (start, width, this_arg) in args.ranges(first_item)` loop *)
Definition adj_try (ev : state -> eres * state) (orig : state) (width start : nat)
           (best : adj_best) : adj_step :=
  let n := length (items orig) in
  match set_scope orig start n with
  | None => AStop (RPanic P_set_scope) orig
  | Some this_arg0 =>
    match set_scope this_arg0 start (start + width) with
    | None => AStop (RPanic P_set_scope) orig
    | Some scratch =>
      let before := remaining scratch in
      if Nat.eqb before 0 then ANext best
      else
        let '(r0, scratch') := ev scratch in
        match r0 with
        | RPanic w => AStop (RPanic w) scratch'
        | RFuel => AStop RFuel scratch'
        | _ =>
          if Nat.eqb before (remaining scratch') then ANext best
          else
            match set_scope this_arg0 start (sc_end orig) with
            | None => AStop (RPanic P_set_scope) orig
            | Some this_arg1 =>
              let before2 := remaining this_arg1 in
              let trimmed :=
                if Nat.ltb before2 (sc_end orig - start)
                then let '(a, b) := adjacently_available_from this_arg1 start in
                     set_scope this_arg1 a b
                else Some this_arg1 in
              match trimmed with
              | None => AStop (RPanic P_set_scope) orig
              | Some this_arg2 =>
                adj_inner ev orig before2 (loop_fuel orig) this_arg2 best
              end
            end
        end
    end
  end.

Fixpoint adj_outer (ev : state -> eres * state) (orig : state) (width : nat)
         (starts : list nat) (best : adj_best) : eres * state :=
  match starts with
  | [] =>
    (* the state of the best attempt, with the scope of the caller restored (fix: commit -- before it the window of
       the failed attempt stayed in place and a help flag to its left was not found any more) *)
    match set_scope (b_args best) (sc_start orig) (sc_end orig) with
    | Some fin => (RErr (b_err best), fin)
    | None => (RPanic P_set_scope, orig)
    end
  | start :: more =>
    match adj_try ev orig width start best with
    | AReturn v s => (ROk v, s)
    | ANext best' => adj_outer ev orig width more best'
    | AStop r _ => (r, orig)      (* a panic unwinds: no state is handed back; the model keeps the caller's *)
    end
  end.

Definition eval_adjacent (ev : state -> eres * state) (fi : option item) (s : state)
  : eres * state :=
  match fi with
  | None => (RPanic P_adj_first, s)
  | Some it =>
    let best := mkBest 0 s (missing_msg it s) in
    adj_outer ev s (item_width it) (adj_starts s (item_width it)) best
  end.

(* ------------------------------------------------------------------ primitives *)
Section WithEnv.
Variable env : bytes -> option bytes.

Fixpoint env_first (names : list bytes) : option bytes :=
  match names with
  | [] => None
  | n :: t => match env n with Some v => Some v | None => env_first t end
  end.

(* ParseFlag::eval *)
Definition eval_flag (n : named) (present : val) (absent : option val) (s : state)
  : eres * state :=
  match take_flag n s with
  | Some s' => (ROk present, s')
  | None =>
    match env_first (n_env n) with
    | Some _ => (ROk present, s)
    | None =>
      match absent with
      | Some a => (ROk a, s)
      | None =>
        match flag_item n with
        | Some it => (RErr (missing_msg it s), s)
        | None =>
          match n_env n with
          | e :: _ => (RErr (MsgNoEnv e), s)
          | [] => (RPanic P_no_key, s)
          end
        end
      end
    end
  end.

Definition convert_res (ty : vty) (os : bytes) (s : state) : eres * state :=
  match convert ty os with
  | inl v => (ROk v, s)
  | inr e => (RErr (MsgParseFailed (current s) e), s)
  end.

(* ParseArgument::eval *)
Definition eval_arg (n : named) (metavar : bytes) (ty : vty) (adjacent : bool) (s : state)
  : eres * state :=
  match take_arg n adjacent s with
  | TASome w s' => convert_res ty w s'
  | TAErr key_ix => (RErr (MsgNoArgument key_ix metavar), s)
  | TANone =>
    match env_first (n_env n) with
    | Some v => convert_res ty v (set_current s None)
    | None =>
      match arg_item n metavar with
      | Some it => (RErr (missing_msg it s), s)
      | None =>
        match n_env n with
        | e :: _ => (RErr (MsgNoEnv e), s)
        | [] => (RPanic P_no_key, s)
        end
      end
    end
  end.

(* ParsePositional::eval *)
Definition eval_pos (metavar : bytes) (ty : vty) (pos : position) (help : option doc)
           (s : state) : eres * state :=
  match take_positional_word s with
  | Some (ix, is_strict, w, s') =>
    match pos, is_strict with
    | Strict, false => (RErr (MsgStrictPos ix metavar), s')
    | NonStrict, true => (RErr (MsgNonStrictPos ix metavar), s')
    | _, _ => convert_res ty w s'
    end
  | None => (RErr (missing_msg (IPositional metavar None) s), s)
  end.

(* ParseAny::eval *)
Definition eval_any (metavar : doc) (help : option doc) (check : bytes -> option val)
           (anywhere : bool) (s : state) : eres * state :=
  let hit (a : arg) := match check (arg_os a) with Some _ => true | None => false end in
  let found :=
    if anywhere then find_item s (fun _ a => hit a)
    else match first_item_ix s with
         | Some ix => match nth_error (items s) ix with
                      | Some a => if hit a then Some ix else None
                      | None => None
                      end
         | None => None
         end in
  match found with
  | Some ix =>
    match nth_error (items s) ix with
    | Some a =>
      match check (arg_os a) with
      | Some v =>
        let next := match a with Short _ nx _ | Long _ nx _ => nx | _ => false end in
        let s1 := sremove KAny ix s in
        let s2 := if next then sremove KAny (S ix) s1 else s1 in
        (ROk v, s2)
      | None => (RErr (missing_msg (IAny metavar anywhere help) s), s)
      end
    | None => (RErr (missing_msg (IAny metavar anywhere help) s), s)
    end
  | None => (RErr (missing_msg (IAny metavar anywhere help) s), s)
  end.

Fixpoint take_cmd_any (names : list bytes) (s : state) : bool * state :=
  match names with
  | [] => (false, s)
  | n :: t => let '(b, s') := take_cmd n s in if b then (true, s') else take_cmd_any t s'
  end.

Inductive extra := ExHelp (detailed : bool) | ExVersion (v : doc).

(* Info::eval *)
Definition info_eval (i : info) (s : state) : option extra * state :=
  match eval_flag (i_help_arg i) VUnit None s with
  | (ROk _, s1) =>
    match eval_flag (i_help_arg i) VUnit None s1 with
    | (ROk _, s2) => (Some (ExHelp true), s2)
    | (_, s2) => (Some (ExHelp false), s2)
    end
  | (_, s1) =>
    match i_version i with
    | Some v =>
      match eval_flag (i_version_arg i) VUnit None s1 with
      | (ROk _, s2) => (Some (ExVersion v), s2)
      | (_, s2) => (None, s2)
      end
    | None => (None, s1)
    end
  end.

(* ------------------------------------------------------------------ combinator bodies *)
(* Each combinator is a non-recursive function of the evaluators of its sub-parsers, so that the
   interpreter below is only wiring and every body can be reasoned about on its own. *)
Definition evaluator := state -> eres * state.

(* ParseCommand::eval *)
Definition cmd_body (name : bytes) (aliases : list bytes) (shorts : list char) (help : option doc)
           (adjacent : bool) (m_sub : meta) (i_sub : info) (run : state -> sres * state)
           (s : state) : eres * state :=
  let names := (name :: aliases) ++ map utf8_encode_char shorts in
  let '(hit, s1) := take_cmd_any names s in
  if hit then
    match current s1 with
    | None => (RPanic P_set_scope, s1)      (* unreachable: take_cmd sets current *)
    | Some cur =>
      match set_scope s1 cur (sc_end s1) with
      | None => (RPanic P_set_scope, s1)
      | Some s2 =>
        let s3 := set_path s2 (path s2 ++ [name]) in
        if adjacent then
          let '(a, b) := adjacently_available_from s3 (S (sc_start s3)) in
          match set_scope s3 a b with
          | None => (RPanic P_set_scope, s3)
          | Some s4 =>
            match run s4 with
            | (SOk v, s5) =>
              match set_scope s5 (sc_start s3) (sc_end s3) with
              | Some s6 => (ROk v, s6)
              | None => (RPanic P_set_scope, s5)
              end
            | (SFail f, s5) =>
              match adjacent_scope s5 s3 with
              | ASPanic => (RPanic P_adj_scope, s5)
              | ASNone => (RErr (MsgParseFailure f), s5)
              | ASSome na nb =>
                match set_scope s3 na nb with
                | None => (RPanic P_set_scope, s5)
                | Some o1 =>
                  match run o1 with
                  | (SOk res, o2) =>
                    match set_scope o2 (sc_start s3) (sc_end s3) with
                    | Some o3 => (ROk res, o3)
                    | None => (RPanic P_set_scope, o2)
                    end
                  | (SFail _, _) => (RErr (MsgParseFailure f), s5)
                  | (SPanic w, o2) => (RPanic w, o2)
                  | (SFuel, o2) => (RFuel, o2)
                  end
                end
              end
            | (SPanic w, s5) => (RPanic w, s5)
            | (SFuel, s5) => (RFuel, s5)
            end
          end
        else
          match run s3 with
          | (SOk v, s4) => (ROk v, s4)
          | (SFail f, s4) => (RErr (MsgParseFailure f), s4)
          | (SPanic w, s4) => (RPanic w, s4)
          | (SFuel, s4) => (RFuel, s4)
          end
      end
    end
  else
    (RErr (missing_msg (ICommand name (hd_error shorts) help m_sub i_sub) s1), s1).

(* ParseOrElse::eval *)
Definition or_body (eva evb : evaluator) (s : state) : eres * state :=
  let '(ra, sa) := eva s in
  match ra with
  | RPanic w => (RPanic w, sa)
  | RFuel => (RFuel, sa)
  | _ =>
    let '(rb, sb) := evb s in
    match rb with
    | RPanic w => (RPanic w, sb)
    | RFuel => (RFuel, sb)
    | _ =>
      match this_or_that ra rb s sa sb with
      | (inl true, s') => (ra, s')
      | (inl false, s') => (rb, s')
      | (inr e, s') => (RErr e, s')
      end
    end
  end.

Definition optional_body (ev : evaluator) (catch : bool) (s : state) : eres * state :=
  match parse_option ev None s catch with
  | (OSome v, _, s') => (ROk (VSome v), s')
  | (ONone, _, s') => (ROk VNone, s')
  | (OErr e, _, s') => (RErr e, s')
  | (OPanic w, _, s') => (RPanic w, s')
  | (OFuel, _, s') => (RFuel, s')
  end.

Definition many_body (ev : evaluator) (catch : bool) (s : state) : eres * state :=
  match many_loop ev catch (loop_fuel s) None s [] with
  | (ROk _, acc, s') => (ROk (VList (rev acc)), s')
  | (r, _, s') => (r, s')
  end.

Definition some_body (ev : evaluator) (msg : bytes) (catch : bool) (s : state) : eres * state :=
  match many_loop ev catch (loop_fuel s) None s [] with
  | (ROk _, [], s') => (RErr (MsgParseSome msg), s')
  | (ROk _, acc, s') => (ROk (VList (rev acc)), s')
  | (r, _, s') => (r, s')
  end.

Definition count_body (ev : evaluator) (s : state) : eres * state :=
  match count_loop ev (loop_fuel s) None s (remaining s) O None with
  | (ROk _, n, _, s') => (ROk (VNum (Z.of_nat n)), s')
  | (r, _, _, s') => (r, s')
  end.

Definition last_body (ev : evaluator) (s : state) : eres * state :=
  match count_loop ev (loop_fuel s) None s (remaining s) O None with
  | (ROk _, _, Some v, s') => (ROk v, s')
  | (ROk _, _, None, s') => ev s'
  | (r, _, _, s') => (r, s')
  end.

Definition fallback_with_body (ev : evaluator) (fb : val + bytes) (s : state) : eres * state :=
  match ev s with
  | (ROk r, s') => (ROk r, s')
  | (RErr e, _) =>
    if can_catch e
    then match fb with inl v => (ROk v, s) | inr t => (RErr (MsgPureFailed t), s) end
    else (RErr e, s)
  | (r, s') => (r, s')
  end.

Definition fallback_body (ev : evaluator) (v : val) (s : state) : eres * state :=
  fallback_with_body ev (inl v) s.

Definition guard_body (ev : evaluator) (check : val -> bool) (msg : bytes) (s : state)
  : eres * state :=
  match ev s with
  | (ROk t, s') => if check t then (ROk t, s') else (RErr (MsgGuardFailed (current s') msg), s')
  | r => r
  end.

Definition parse_body (ev : evaluator) (f : val -> val + bytes) (s : state) : eres * state :=
  match ev s with
  | (ROk t, s') =>
    match f t with
    | inl r => (ROk r, s')
    | inr e => (RErr (MsgParseFailed (current s') e), s')
    end
  | r => r
  end.

Definition map_body (ev : evaluator) (f : val -> val) (s : state) : eres * state :=
  match ev s with
  | (ROk t, s') => (ROk (f t), s')
  | r => r
  end.

Definition hide_body (ev : evaluator) (s : state) : eres * state :=
  match ev s with
  | (RErr (MsgMissing _), s') => (RErr (MsgMissing []), s')
  | r => r
  end.

(* one step of the closure built by construct! *)
Definition con_reset (r : eres * state) : eres * state :=
  let '(x, s') := r in (x, set_current s' None).

(* the closure built by construct!: evaluate every field (unless failfast stops at the first),
   then report the first error in field order *)
Fixpoint con_go (failfast : bool) (evs : list evaluator) (s : state) (first : bool)
         (acc : list val) (err : option message) {struct evs} : eres * state :=
  match evs with
  | [] =>
    match err with
    | Some e => (RErr e, s)
    | None => (ROk (VTuple (rev acc)), set_current s None)
    end
  | ev :: t =>
    let '(r, s') := ev s in
    match r with
    | ROk v => con_go failfast t s' false (v :: acc) err
    | RErr e =>
      if failfast && first then (RErr e, s')
      else con_go failfast t s' false acc (match err with Some _ => err | None => Some e end)
    | RPanic w => (RPanic w, s')
    | RFuel => (RFuel, s')
    end
  end.

Definition con_body (failfast : bool) (evs : list evaluator) (s : state) : eres * state :=
  con_reset (con_go failfast evs s true [] None).

(* OptionParser::run_subparser, given the outcome of the inner parser *)
Definition run_sub_body (inf : info) (m : meta) (s : state) (res : eres * state) : sres * state :=
  let no_args := Nat.eqb (remaining s) 0 in
  let '(r, s1) := res in
  match r with
  | RPanic w => (SPanic w, s1)
  | RFuel => (SFuel, s1)
  | _ =>
    let parser_failed :=
      match r with
      | ROk _ => false
      | RErr (MsgParseFailure (FStdout _)) => false
      | _ => true
      end in
    if parser_failed && i_help_if_no_args inf && no_args then
      if invariant_ok m then (SFail (FStdout (HHelp (path s1) inf m false)), s1)
      else (SPanic P_invariant, s1)
    else
      match r with
      | RErr (MsgParseFailure f) => (SFail f, s1)
      | _ =>
        let finish (err : message) :=
          match info_eval inf s1 with
          | (Some (ExHelp detailed), s2) =>
            if invariant_ok m then (SFail (FStdout (HHelp (path s2) inf m detailed)), s2)
            else (SPanic P_invariant, s2)
          | (Some (ExVersion v), s2) => (SFail (FStdout (HVersion v)), s2)
          | (None, s2) => (SFail (FStderr err (render_message err s2 m)), s2)
          end in
        match r with
        | ROk v =>
          match first_item_ix s1 with
          | Some ix => finish (MsgUnconsumed ix)
          | None => (SOk v, s1)
          end
        | RErr e => finish e
        | _ => (SPanic 0%N, s1)      (* unreachable *)
        end
      end
  end.

(* ------------------------------------------------------------------ the interpreter *)
Fixpoint eval (p : parser) (s : state) {struct p} : eres * state :=
  match p with
  | PFlag n present absent => eval_flag n present absent s
  | PArg n mv ty adj => eval_arg n mv ty adj s
  | PPos mv ty pos help => eval_pos mv ty pos help s
  | PAny mv help check anywhere => eval_any mv help check anywhere s
  | PCmd name aliases shorts help adjacent sub =>
    cmd_body name aliases shorts help adjacent (ometa_of sub) (oinfo_of sub) (run_sub sub) s
  | PCon fields =>
    match fields with
    | PNil => (ROk (VTuple []), set_current s None)
    | PCons q PNil => eval q s
    | _ => con_body false (evals fields) s
    end
  | PAdj fields =>
    eval_adjacent (con_body true (evals fields)) (first_item (con_meta fields)) s
  | POr a b => or_body (eval a) (eval b) s
  | POptional q catch => optional_body (eval q) catch s
  | PMany q catch => many_body (eval q) catch s
  | PCollect q catch => many_body (eval q) catch s
  | PSome q msg catch => some_body (eval q) msg catch s
  | PCount q => count_body (eval q) s
  | PLast q => last_body (eval q) s
  | PFallback q v _ => fallback_body (eval q) v s
  | PFallbackWith q fb _ => fallback_with_body (eval q) fb s
  | PGuard q check msg => guard_body (eval q) check msg s
  | PParse q f => parse_body (eval q) f s
  | PMap q f => map_body (eval q) f s
  | PHide q => hide_body (eval q) s
  | PUsage q _ => eval q s
  | PGroupHelp q _ => eval q s
  | PPure v => (ROk v, set_current s None)
  | PPureWith r =>
    match r with inl v => (ROk v, s) | inr e => (RErr (MsgPureFailed e), s) end
  | PFail msg => (RErr (MsgParseFail msg), set_current s None)
  | PBoxed q => eval q s
  end

with evals (ps : plist) {struct ps} : list (state -> eres * state) :=
  match ps with
  | PNil => []
  | PCons q t => eval q :: evals t
  end

(* OptionParser::run_subparser (without the autocomplete hook) *)
with run_sub (o : oparser) (s : state) {struct o} : sres * state :=
  match o with
  | Options q inf => run_sub_body inf (meta_of q) s (eval q s)
  end.

End WithEnv.

(* ------------------------------------------------------------------ run_inner *)
Record features := mkFeat { f_autocomplete : bool; f_docgen : bool; f_color : bool }.

Inductive outcome :=
| OutOk (v : val)
| OutStdout (h : helpreq)
| OutCompletion (s : bytes)
| OutStderr (m : message)
| OutPanic (why : N)
| OutFuel.

Definition outcome_of (r : sres) : outcome :=
  match r with
  | SOk v => OutOk v
  | SFail (FStdout h) => OutStdout h
  | SFail (FCompletion c) => OutCompletion c
  | SFail (FStderr m _) => OutStderr m
  | SPanic w => OutPanic w
  | SFuel => OutFuel
  end.

Definition short_tables (o : oparser) : list char * list char :=
  let '(sf, sa) := collect_shorts (ometa_of o) in
  (sf ++ n_short (i_help_arg (oinfo_of o)) ++ n_short (i_version_arg (oinfo_of o)), sa).

Definition initial_state (o : oparser) (name : option bytes) (argv : list bytes)
  : state * option (nat * bytes) :=
  let '(sf, sa) := short_tables o in construct sf sa name argv.

(* OptionParser::run_inner for a vector without completion markers *)
Definition run_inner_state (feat : features) (env : bytes -> option bytes) (o : oparser)
           (name : option bytes) (argv : list bytes) : sres * state :=
  let '(st, amb) := initial_state o name argv in
  match amb with
  | Some (ix, short) =>
    (SFail (FStderr (MsgAmbiguity ix short) (render_message (MsgAmbiguity ix short) st (ometa_of o))), st)
  | None => run_sub env o st
  end.

Definition run_inner (feat : features) (env : bytes -> option bytes) (o : oparser)
           (name : option bytes) (argv : list bytes) : outcome :=
  outcome_of (fst (run_inner_state feat env o name argv)).
