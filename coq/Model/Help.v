(* Help.v -- from parser metadata to documents: src/buffer.rs (Doc builder, write_meta, write_item),
   src/meta.rs (normalized / normalize), src/meta_help.rs (HelpItems, append_meta, Dedup,
   write_help_item, write_help_item_groups, render_help).  Documents are lists of tokens carrying
   their text as bytes. *)
From BpafModel Require Export Syntax Meta.

(* ------------------------------------------------------------------ decidable equalities *)
Definition style_eqb (a b : style) : bool :=
  match a, b with
  | SText, SText | SEmphasis, SEmphasis | SLiteral, SLiteral | SMetavar, SMetavar | SInvalid, SInvalid => true
  | _, _ => false
  end.
Definition block_eqb (a b : block) : bool :=
  match a, b with
  | BHeader, BHeader | BSection2, BSection2 | BSection3, BSection3 | BItemTerm, BItemTerm
  | BItemBody, BItemBody | BDefinitionList, BDefinitionList | BBlock, BBlock
  | BInlineBlock, BInlineBlock | BTermRef, BTermRef | BMeta, BMeta | BMono, BMono => true
  | _, _ => false
  end.
Definition dtoken_eqb (a b : dtoken) : bool :=
  match a, b with
  | TText s1 x, TText s2 y => style_eqb s1 s2 && beqb x y
  | TStart x, TStart y | TEnd x, TEnd y => block_eqb x y
  | _, _ => false
  end.
Fixpoint doc_eqb (a b : doc) : bool :=
  match a, b with
  | [], [] => true
  | x :: a', y :: b' => dtoken_eqb x y && doc_eqb a' b'
  | _, _ => false
  end.
Definition odoc_eqb (a b : option doc) : bool :=
  match a, b with None, None => true | Some x, Some y => doc_eqb x y | _, _ => false end.
Definition shortlong_eqb (a b : shortlong) : bool :=
  match a, b with
  | SLShort x, SLShort y => (x =? y)%N
  | SLLong x, SLLong y => beqb x y
  | SLBoth c x, SLBoth d y => (c =? d)%N && beqb x y
  | _, _ => false
  end.

(* ------------------------------------------------------------------ Doc builder *)
(* write_str / set_style: a chunk is unified with a previous chunk of the same style *)
Definition dwrite (d : doc) (st : style) (s : bytes) : doc :=
  match rev d with
  | TText st' s' :: r => if style_eqb st st' then rev (TText st (s' ++ s) :: r) else d ++ [TText st s]
  | _ => d ++ [TText st s]
  end.
Definition dchar (d : doc) (st : style) (c : char) : doc := dwrite d st (utf8_encode_char c).
Definition dtok (d : doc) (t : dtoken) : doc := d ++ [t].
(* Doc::doc *)
Definition ddoc (d buf : doc) : doc := d ++ [TStart BInlineBlock] ++ buf ++ [TEnd BInlineBlock].

Fixpoint split_once_nl (s : bytes) : option (bytes * bytes) :=
  match s with
  | [] => None
  | c :: t => if (c =? c_nl)%N then Some ([], t)
              else match split_once_nl t with Some (a, b) => Some (c :: a, b) | None => None end
  end.

(* Doc::em_doc *)
Definition dem_doc (d buf : doc) : doc :=
  let d0 := dtok d (TStart BInlineBlock) in
  let body :=
    match buf with
    | TText SText prefix :: rest =>
      match split_once_nl prefix with
      | Some (a, b) =>
        let d1 := dwrite d0 SEmphasis a in
        let d2 := dtok d1 (TStart BSection3) in
        let d3 := dwrite d2 SText b in
        dtok (d3 ++ rest) (TEnd BSection3)
      | None => dwrite d0 SEmphasis prefix
      end
    | _ => d0 ++ buf
    end in
  dtok body (TEnd BInlineBlock).

Definition is_metavar_char (c : N) : bool :=
  ((65 <=? c) && (c <=? 90))%N || ((48 <=? c) && (c <=? 57))%N || (c =? 45)%N || (c =? 95)%N.

(* Doc::metavar; metavariables are ASCII in the modelled domain (char::is_uppercase on non-ASCII
   letters is not modelled) *)
Definition dmetavar (d : doc) (mv : bytes) : doc :=
  if forallb is_metavar_char mv then dwrite d SMetavar mv
  else dwrite (dwrite (dwrite d SMetavar [60%N]) SMetavar mv) SMetavar [62%N].

Definition b_dash : bytes := [c_dash].
Definition b_dashdash : bytes := [c_dash; c_dash].
Definition b_comma_sp : bytes := [44; 32]%N.

(* Doc::write_shortlong (usage lines) *)
Definition dshortlong_usage (d : doc) (n : shortlong) : doc :=
  match n with
  | SLShort s => dchar (dwrite d SLiteral b_dash) SLiteral s
  | SLLong l | SLBoth _ l => dwrite (dwrite d SLiteral b_dashdash) SLiteral l
  end.

Definition b_command_dots : bytes := [67;79;77;77;65;78;68;32;46;46;46]%N.      (* "COMMAND ..." *)

(* Doc::write_item *)
Definition dwrite_item (d : doc) (i : item) : doc :=
  match i with
  | IPositional mv _ => dmetavar d mv
  | ICommand _ _ _ _ _ => dwrite d SMetavar b_command_dots
  | IFlag n _ _ _ => dshortlong_usage d n
  | IArgument n _ mv _ _ => dmetavar (dchar (dshortlong_usage d n) SText c_eq) mv
  | IAny mv _ _ => ddoc d mv
  end.

(* ------------------------------------------------------------------ Meta::normalize *)
Inductive snorm := NPull | NPush | NStrip.

Definition norm_item (for_usage : bool) (i : item) : item :=
  let nn (n : shortlong) := match n with
                            | SLBoth s l => if for_usage then SLShort s else SLLong l
                            | x => x
                            end in
  match i with
  | IFlag n sh e h => IFlag (nn n) sh e h
  | IArgument n sh mv e h => IArgument (nn n) sh mv e h
  | x => x
  end.

Definition is_skip (m : meta) : bool := match m with MSkip => true | _ => false end.

Fixpoint is_command_meta (m : meta) : bool :=
  match m with
  | MItem (ICommand _ _ _ _ _) => true
  | MSubsection m' _ => is_command_meta m'
  | _ => false
  end.

(* drop all the commands apart from the first one *)
Fixpoint retain_first_cmd (xs : list meta) (saw : bool) : list meta :=
  match xs with
  | [] => []
  | m :: t =>
    let c := is_command_meta m in
    if c && saw then retain_first_cmd t saw else m :: retain_first_cmd t (saw || c)
  end.

Definition norm_target (target this_norm : snorm) (m : meta) : meta * snorm :=
  match target, this_norm with
  | _, NPull => (m, target)
  | NStrip, _ => (m, target)
  | NPull, NPush => (MStrict m, NStrip)
  | _, _ => (m, this_norm)
  end.

Fixpoint normalize (for_usage : bool) (m : meta) (norm : snorm) {struct m} : meta * snorm :=
  (* normalize_vec for And: `norm` itself is the target while looping and is restored afterwards *)
  let vec_and := fix vec_and (xs : list meta) (cur : snorm) : list meta :=
    match xs with
    | [] => []
    | x :: t =>
      let '(x1, this_norm) := normalize for_usage x cur in
      let '(x2, cur') := norm_target cur this_norm x1 in
      x2 :: vec_and t cur'
    end in
  (* normalize_vec for Or: every element starts from the incoming norm, the results accumulate *)
  let vec_or := fix vec_or (xs : list meta) (final : snorm) : list meta * snorm :=
    match xs with
    | [] => ([], final)
    | x :: t =>
      let '(x1, this_norm) := normalize for_usage x norm in
      let '(x2, final') := norm_target final this_norm x1 in
      let '(rest, fin) := vec_or t final' in
      (x2 :: rest, fin)
    end in
  match m with
  | MAnd xs =>
    let ys := filter (fun x => negb (is_skip x)) (vec_and xs norm) in
    (match ys with [] => MSkip | [y] => y | _ => MAnd ys end, norm)
  | MOr xs =>
    let '(ys0, fin) := vec_or xs norm in
    let ys := filter (fun x => negb (is_skip x)) ys0 in
    (match ys with
     | [] => MSkip
     | [y] => y
     | _ => match retain_first_cmd ys false with
            | [] => MSkip
            | [y] => y
            | zs => MRequired (MOr zs)
            end
     end, fin)
  | MOptional x =>
    let '(x', n') := normalize for_usage x norm in
    (match x' with
     | MSkip => MSkip
     | MRequired mm | MOptional mm => MOptional mm
     | MMany (MRequired y) => MMany (MOptional y)
     | _ => MOptional x'
     end, n')
  | MRequired x =>
    let '(x', n') := normalize for_usage x norm in
    (match x' with
     | MSkip => MSkip
     | MAnd _ | MOr _ => MRequired x'
     | _ => x'
     end, n')
  | MMany x =>
    let '(x', n') := normalize for_usage x norm in
    (match x' with MSkip => MSkip | _ => MMany x' end, n')
  | MAdjacent x | MSubsection x _ | MSuffix x _ => normalize for_usage x norm
  | MItem i => (MItem (norm_item for_usage i), norm)
  | MSkip => (MSkip, norm)
  | MCustomUsage x u =>
    let '(x', n') := normalize for_usage x norm in
    (if for_usage then (if is_nil u then MSkip else MCustomUsage x' u) else x', n')
  | MStrict x =>
    let '(x', n') := normalize for_usage x norm in
    (x', match n' with NPull => NPush | y => y end)
  end.

Definition normalized (for_usage : bool) (m : meta) : meta :=
  let '(m1, norm) := normalize for_usage m NPull in
  let m2 := match m1 with MRequired i => i | x => x end in
  let m3 := match m2 with MOr _ => MRequired m2 | x => x end in
  match norm with NPush => MStrict m3 | _ => m3 end.

(* ------------------------------------------------------------------ Doc::write_meta *)
Definition b_sp : bytes := [32%N].
Definition b_bar : bytes := [32; 124; 32]%N.
Definition b_dots : bytes := [46; 46; 46]%N.

Fixpoint wm_go (m : meta) (d : doc) {struct m} : doc :=
  let sep := fix sep (s : bytes) (first : bool) (xs : list meta) (d : doc) : doc :=
    match xs with
    | [] => d
    | x :: t => sep s false t (wm_go x (if first then d else dwrite d SText s))
    end in
  match m with
  | MAnd xs => sep b_sp true xs d
  | MOr xs => sep b_bar true xs d
  | MOptional x => dwrite (wm_go x (dwrite d SText [91%N])) SText [93%N]
  | MRequired x => dwrite (wm_go x (dwrite d SText [40%N])) SText [41%N]
  | MItem i => dwrite_item d i
  | MMany x => dwrite (wm_go x d) SText b_dots
  | MAdjacent x | MSubsection x _ | MSuffix x _ => wm_go x d
  | MSkip => d
  | MCustomUsage _ u => ddoc d u
  | MStrict x => wm_go x (dwrite (dwrite d SLiteral b_dashdash) SText b_sp)
  end.

Definition dwrite_meta (d : doc) (m : meta) (for_usage : bool) : doc :=
  dtok (wm_go (normalized for_usage m) (dtok d (TStart BMono))) (TEnd BMono).

Definition dwrite_path (d : doc) (path : list bytes) : doc :=
  fold_left (fun d p => dchar (dwrite d SLiteral p) SText c_space) path d.

(* ------------------------------------------------------------------ HelpItems *)
Inductive hity := HTFlag | HTCommand | HTPositional.
Definition hity_eqb (a b : hity) : bool :=
  match a, b with HTFlag, HTFlag | HTCommand, HTCommand | HTPositional, HTPositional => true | _, _ => false end.

Inductive helpitem :=
| HDecorSuffix (help : doc) (ty : hity)
| HGroupStart (help : doc) (ty : hity)
| HGroupEnd (ty : hity)
| HAny (metavar : doc) (anywhere : bool) (help : option doc)
| HPositional (metavar : bytes) (help : option doc)
| HCommand (name : bytes) (short : option char) (help : option doc) (m : meta) (i : info)
| HFlag (name : shortlong) (env : option bytes) (help : option doc)
| HArgument (name : shortlong) (metavar : bytes) (env : option bytes) (help : option doc)
| HAnywhereStart (inner : meta) (ty : hity)
| HAnywhereStop (ty : hity).

Definition item_hity (i : item) : hity :=
  match i with
  | IPositional _ _ => HTPositional
  | IAny _ anywhere _ => if anywhere then HTFlag else HTPositional
  | ICommand _ _ _ _ _ => HTCommand
  | IFlag _ _ _ _ | IArgument _ _ _ _ _ => HTFlag
  end.

Definition helpitem_of (i : item) : helpitem :=
  match i with
  | IPositional mv h => HPositional mv h
  | ICommand n s h m inf => HCommand n s h m inf
  | IFlag n _ e h => HFlag n e h
  | IArgument n _ mv e h => HArgument n mv e h
  | IAny mv a h => HAny mv a h
  end.

Fixpoint peek_front_ty (m : meta) : option hity :=
  let first := fix first (xs : list meta) : option hity :=
    match xs with
    | [] => None
    | x :: t => match peek_front_ty x with Some ty => Some ty | None => first t end
    end in
  match m with
  | MAnd xs | MOr xs => first xs
  | MOptional x | MRequired x | MAdjacent x | MMany x | MSubsection x _ | MSuffix x _ | MStrict x
  | MCustomUsage x _ => peek_front_ty x
  | MItem i => Some (item_hity i)
  | MSkip => None
  end.

(* HelpItems::append_meta; items are accumulated in order *)
Fixpoint append_go (m : meta) (no_ss : bool) (acc : list helpitem) {struct m} : list helpitem :=
  let all := fix all (xs : list meta) (acc : list helpitem) : list helpitem :=
    match xs with
    | [] => acc
    | x :: t => all t (append_go x no_ss acc)
    end in
  match m with
  | MAnd xs | MOr xs => all xs acc
  | MAdjacent x =>
    match peek_front_ty x with
    | Some ty => append_go x no_ss (acc ++ [HAnywhereStart x ty]) ++ [HAnywhereStop ty]
    | None => acc
    end
  | MCustomUsage x _ | MRequired x | MOptional x | MMany x | MStrict x => append_go x no_ss acc
  | MItem i =>
    match i with
    | IPositional _ None => acc
    | _ => acc ++ [helpitem_of i]
    end
  | MSubsection x help =>
    match peek_front_ty x with
    | Some ty =>
      if no_ss then append_go x true acc
      else append_go x true (acc ++ [HGroupStart help ty]) ++ [HGroupEnd ty]
    | None => acc
    end
  | MSuffix x help =>
    match peek_front_ty x with
    | Some ty => append_go x no_ss acc ++ [HDecorSuffix help ty]
    | None => acc
    end
  | MSkip => acc
  end.

Definition append_meta (acc : list helpitem) (m : meta) : list helpitem := append_go m false acc.

Definition hi_has_help (h : helpitem) : bool :=
  match h with
  | HPositional _ help | HCommand _ _ help _ _ | HFlag _ _ help | HAny _ _ help | HArgument _ _ _ help =>
    match help with Some _ => true | None => false end
  | HGroupStart _ _ | HDecorSuffix _ _ => true
  | HGroupEnd _ | HAnywhereStart _ _ | HAnywhereStop _ => false
  end.

Definition hi_ty (h : helpitem) : hity :=
  match h with
  | HGroupStart _ ty | HDecorSuffix _ ty | HGroupEnd ty | HAnywhereStart _ ty | HAnywhereStop ty => ty
  | HAny _ anywhere _ => if anywhere then HTFlag else HTPositional
  | HPositional _ _ => HTPositional
  | HCommand _ _ _ _ _ => HTCommand
  | HFlag _ _ _ | HArgument _ _ _ _ => HTFlag
  end.

Inductive itemblock := IBNo | IBDecor (t : hity) | IBAnywhere (t : hity).

(* HelpItemsIter: the items of one section *)
Fixpoint items_of_ty (target : hity) (blk : itemblock) (items : list helpitem) : list helpitem :=
  match items with
  | [] => []
  | it :: t =>
    let '(keep, blk') :=
      match it with
      | HAnywhereStart _ ty => (hity_eqb ty target, IBAnywhere ty)
      | HGroupStart _ ty => (hity_eqb ty target, IBDecor ty)
      | HGroupEnd ty | HAnywhereStop ty => (hity_eqb ty target, IBNo)
      | _ =>
        (match blk with
         | IBNo => hity_eqb (hi_ty it) target
         | IBDecor x => hity_eqb x target
         | IBAnywhere x => hity_eqb x target && hi_has_help it
         end, blk)
      end in
    if keep then it :: items_of_ty target blk' t else items_of_ty target blk' t
  end.

(* Dedup: entries identical in name and help are written once *)
Inductive dkey :=
| DKAny (mv : doc) (h : option doc)
| DKPos (mv : bytes) (h : option doc)
| DKCmd (n : bytes) (h : option doc)
| DKFlag (n : shortlong) (h : option doc)
| DKArg (n : shortlong) (mv : bytes) (h : option doc).

Definition dkey_eqb (a b : dkey) : bool :=
  match a, b with
  | DKAny m1 h1, DKAny m2 h2 => doc_eqb m1 m2 && odoc_eqb h1 h2
  | DKPos m1 h1, DKPos m2 h2 => beqb m1 m2 && odoc_eqb h1 h2
  | DKCmd n1 h1, DKCmd n2 h2 => beqb n1 n2 && odoc_eqb h1 h2
  | DKFlag n1 h1, DKFlag n2 h2 => shortlong_eqb n1 n2 && odoc_eqb h1 h2
  | DKArg n1 m1 h1, DKArg n2 m2 h2 => shortlong_eqb n1 n2 && beqb m1 m2 && odoc_eqb h1 h2
  | _, _ => false
  end.

(* Dedup::check: (keep this item?, seen', keep flag') *)
Definition dedup_check (seen : list dkey) (keepf : bool) (it : helpitem) : bool * list dkey * bool :=
  let ins (k : dkey) :=
    if existsb (dkey_eqb k) seen then (false, seen, false) else (true, k :: seen, true) in
  match it with
  | HDecorSuffix _ _ => (keepf, seen, false)
  | HGroupStart _ _ | HGroupEnd _ | HAnywhereStart _ _ | HAnywhereStop _ => (true, seen, true)
  | HAny mv _ h => ins (DKAny mv h)
  | HPositional mv h => ins (DKPos mv h)
  | HCommand n _ h _ _ => ins (DKCmd n h)
  | HFlag n _ h => ins (DKFlag n h)
  | HArgument n mv _ h => ins (DKArg n mv h)
  end.

(* ------------------------------------------------------------------ write_help_item *)
Definition b_long_indent : bytes := [32; 32; 32; 32; 45; 45]%N.       (* "    --" *)

(* meta_help.rs write_shortlong (item lists) *)
Definition dshortlong_item (d : doc) (n : shortlong) : doc :=
  match n with
  | SLShort s => dchar (dwrite d SLiteral b_dash) SLiteral s
  | SLLong l => dwrite (dwrite d SLiteral b_long_indent) SLiteral l
  | SLBoth s l =>
    dwrite (dwrite (dwrite (dchar (dwrite d SLiteral b_dash) SLiteral s) SText b_comma_sp) SLiteral b_dashdash)
           SLiteral l
  end.

Definition dbody (d : doc) (help : option doc) : doc :=
  match help with
  | Some h => dtok (ddoc (dtok d (TStart BItemBody)) h) (TEnd BItemBody)
  | None => d
  end.

Definition is_some {A} (o : option A) : bool := match o with Some _ => true | None => false end.

Definition b_env_open : bytes := [91; 101; 110; 118; 58]%N.          (* "[env:" *)
Definition b_set : bytes := [58; 32; 115; 101; 116]%N.               (* ": set" *)
Definition b_not_set : bytes := [58; 32; 110; 111; 116; 32; 115; 101; 116]%N.   (* ": not set" *)
Definition b_na : bytes := [58; 32; 78; 47; 65]%N.                   (* ": N/A" *)
Definition b_uses_env : bytes :=
  [85;115;101;115;32;101;110;118;105;114;111;110;109;101;110;116;32;118;97;114;105;97;98;108;101;32]%N.
                                                                     (* "Uses environment variable " *)

(* the env line of an item; `val` is the text after the variable name *)
Definition denv_line (d : doc) (has_help include_env : bool) (env val : bytes) : doc :=
  let d1 := if has_help then dtok (dtok d (TStart BItemTerm)) (TEnd BItemTerm) else d in
  let d2 := dtok d1 (TStart BItemBody) in
  let d3 := if include_env then dwrite d2 SText (b_env_open ++ env ++ val ++ [93%N])
            else dwrite (dwrite d2 SText b_uses_env) SLiteral env in
  dtok d3 (TEnd BItemBody).

Section WithEnv.
Variable env : bytes -> option bytes.
(* format!("{:?}", value.to_string_lossy()) for the values of the modelled domain (printable ASCII
   without quote and backslash): the text between double quotes *)
Definition debug_str (v : bytes) : bytes := [34%N] ++ v ++ [34%N].

Definition write_help_item (d : doc) (it : helpitem) (include_env : bool) : doc :=
  match it with
  | HGroupStart help _ =>
    dtok (dtok (dem_doc (dtok (dtok d (TStart BBlock)) (TStart BSection2)) help) (TEnd BSection2))
         (TStart BDefinitionList)
  | HGroupEnd _ => dtok (dtok d (TEnd BDefinitionList)) (TEnd BBlock)
  | HDecorSuffix help _ =>
    dtok (ddoc (dtok (dtok (dtok d (TStart BItemTerm)) (TEnd BItemTerm)) (TStart BItemBody)) help) (TEnd BItemBody)
  | HAny mv _ help => dbody (dtok (ddoc (dtok d (TStart BItemTerm)) mv) (TEnd BItemTerm)) help
  | HPositional mv help => dbody (dtok (dmetavar (dtok d (TStart BItemTerm)) mv) (TEnd BItemTerm)) help
  | HCommand name short help _ _ =>
    let d1 := dwrite (dtok d (TStart BItemTerm)) SLiteral name in
    let d2 := match short with
              | Some s => dchar (dwrite d1 SText b_comma_sp) SLiteral s
              | None => d1
              end in
    dbody (dtok d2 (TEnd BItemTerm)) help
  | HFlag name e help =>
    let d1 := dbody (dtok (dshortlong_item (dtok d (TStart BItemTerm)) name) (TEnd BItemTerm)) help in
    match e with
    | Some v => denv_line d1 (is_some help) include_env v
                          (match env v with Some _ => b_set | None => b_not_set end)
    | None => d1
    end
  | HArgument name mv e help =>
    let d1 := dtok (dmetavar (dchar (dshortlong_item (dtok d (TStart BItemTerm)) name) SText c_eq) mv)
                   (TEnd BItemTerm) in
    let d2 := dbody d1 help in
    match e with
    | Some v => denv_line d2 (is_some help) include_env v
                          (match env v with
                           | Some x => [32; 61; 32]%N ++ debug_str x
                           | None => b_na
                           end)
    | None => d2
    end
  | HAnywhereStart inner _ =>
    dtok (dwrite_meta (dtok d (TStart BSection3)) inner true) (TEnd BSection3)
  | HAnywhereStop _ => dtok (dtok d (TStart BBlock)) (TEnd BBlock)
  end.

Fixpoint write_deduped (d : doc) (items : list helpitem) (seen : list dkey) (keepf : bool)
         (include_env : bool) : doc :=
  match items with
  | [] => d
  | it :: t =>
    let '(keep, seen', keepf') := dedup_check seen keepf it in
    write_deduped (if keep then write_help_item d it include_env else d) t seen' keepf' include_env
  end.

Definition is_group_start (h : helpitem) : bool := match h with HGroupStart _ _ => true | _ => false end.
Definition is_group_end (h : helpitem) : bool := match h with HGroupEnd _ => true | _ => false end.

Fixpoint position {A} (f : A -> bool) (l : list A) : option nat :=
  match l with
  | [] => None
  | x :: t => if f x then Some O else option_map S (position f t)
  end.

(* find_group / drain(range): the first GroupStart .. the first GroupEnd (inclusive); an empty range
   (end before start) drains nothing -- and would loop forever: fuel *)
Fixpoint write_groups (fuel : nat) (d : doc) (items : list helpitem) (include_env : bool)
  : option (doc * list helpitem) :=
  match fuel with
  | O => None
  | S f =>
    match position is_group_start items, position is_group_end items with
    | Some a, Some b =>
      if Nat.leb a b then
        let grp := firstn (S b - a) (skipn a items) in
        let rest := firstn a items ++ skipn (S b) items in
        write_groups f (write_deduped d grp [] false include_env) rest include_env
      else None      (* RangeInclusive with end < start: drain of an empty range, then the same again *)
    | _, _ => Some (d, items)
    end
  end.

Definition b_avail_pos : bytes :=
  [65;118;97;105;108;97;98;108;101;32;112;111;115;105;116;105;111;110;97;108;32;105;116;101;109;115;58]%N.
Definition b_avail_opt : bytes := [65;118;97;105;108;97;98;108;101;32;111;112;116;105;111;110;115;58]%N.
Definition b_avail_cmd : bytes := [65;118;97;105;108;97;98;108;101;32;99;111;109;109;97;110;100;115;58]%N.

Definition write_help_items (d : doc) (items : list helpitem) (ty : hity) (name : bytes) (include_env : bool)
  : doc :=
  match items_of_ty ty IBNo items with
  | [] => d
  | xs =>
    let d1 := dtok (dtok d (TStart BBlock)) (TStart BSection2) in
    let d2 := dtok (dtok (dwrite d1 SEmphasis name) (TEnd BSection2)) (TStart BDefinitionList) in
    dtok (dtok (write_deduped d2 xs [] false include_env) (TEnd BDefinitionList)) (TEnd BBlock)
  end.

(* None: the group loop does not terminate *)
Definition write_help_item_groups (d : doc) (items : list helpitem) (include_env : bool) : option doc :=
  match write_groups (S (length items)) d items include_env with
  | None => None
  | Some (d1, rest) =>
    Some (write_help_items (write_help_items (write_help_items d1 rest HTPositional b_avail_pos include_env)
                                             rest HTFlag b_avail_opt include_env)
                           rest HTCommand b_avail_cmd include_env)
  end.

Definition dblock (d : doc) (t : option doc) : doc :=
  match t with
  | Some x => dtok (ddoc (dtok d (TStart BBlock)) x) (TEnd BBlock)
  | None => d
  end.

Definition b_usage : bytes := [85; 115; 97; 103; 101]%N.
Definition b_colon_sp : bytes := [58; 32]%N.

(* meta_help.rs render_help (the invariant check is done by the caller) *)
Definition render_help (path : list bytes) (inf : info) (parser_meta help_meta : meta) (include_env : bool)
  : option doc :=
  let d0 := dblock [] (i_descr inf) in
  let d1 := dtok d0 (TStart BBlock) in
  let d2 := match i_usage inf with
            | Some u => ddoc d1 u
            | None =>
              let a := dwrite (dwrite d1 SEmphasis b_usage) SText b_colon_sp in
              dtok (dwrite_meta (dwrite_path (dtok a (TStart BMono)) path) parser_meta true) (TEnd BMono)
            end in
  let d3 := dblock (dtok d2 (TEnd BBlock)) (i_header inf) in
  let items := append_meta (append_meta [] parser_meta) help_meta in
  match write_help_item_groups d3 items include_env with
  | Some d4 => Some (dblock d4 (i_footer inf))
  | None => None
  end.

End WithEnv.
