(* Values.v -- src/from_os_str.rs parse_os_str::<T> for the target types the harness uses,
   including Rust's integer FromStr (library/core/src/num/mod.rs from_ascii_radix, radix 10). *)
From BpafModel Require Export Syntax.

Definition ascii (s : list N) : bytes := s.

(* error texts (ParseIntError Display) *)
Definition err_empty : bytes :=
  [99;97;110;110;111;116;32;112;97;114;115;101;32;105;110;116;101;103;101;114;32;102;114;111;109;32;101;109;112;116;121;32;115;116;114;105;110;103]%N.
Definition err_invalid_digit : bytes :=
  [105;110;118;97;108;105;100;32;100;105;103;105;116;32;102;111;117;110;100;32;105;110;32;115;116;114;105;110;103]%N.
Definition err_pos_overflow : bytes :=
  [110;117;109;98;101;114;32;116;111;111;32;108;97;114;103;101;32;116;111;32;102;105;116;32;105;110;32;116;97;114;103;101;116;32;116;121;112;101]%N.
Definition err_neg_overflow : bytes :=
  [110;117;109;98;101;114;32;116;111;111;32;115;109;97;108;108;32;116;111;32;102;105;116;32;105;110;32;116;97;114;103;101;116;32;116;121;112;101]%N.
(* suffix of format!("{} is not a valid utf8", os.to_string_lossy()) *)
Definition err_not_utf8 : bytes :=
  [32;105;115;32;110;111;116;32;97;32;118;97;108;105;100;32;117;116;102;56]%N.

Definition is_digit (b : N) : bool := (48 <=? b)%N && (b <=? 57)%N.

(* digits left to right; invalid digit is detected before the overflow caused by that digit *)
Fixpoint int_digits (positive : bool) (lo hi : Z) (acc : Z) (ds : bytes) : Z + bytes :=
  match ds with
  | [] => inl acc
  | c :: rest =>
    if is_digit c then
      let d := Z.of_N (c - 48)%N in
      let acc' := if positive then (acc * 10 + d)%Z else (acc * 10 - d)%Z in
      if positive then
        if (hi <? acc')%Z then inr err_pos_overflow else int_digits positive lo hi acc' rest
      else
        if (acc' <? lo)%Z then inr err_neg_overflow else int_digits positive lo hi acc' rest
    else inr err_invalid_digit
  end.

Definition c_plus : N := 43%N.

Definition parse_int (signed : bool) (lo hi : Z) (src : bytes) : Z + bytes :=
  match src with
  | [] => inr err_empty
  | [c] =>
    if (c =? c_plus)%N || (c =? c_dash)%N then inr err_invalid_digit
    else int_digits true lo hi 0%Z src
  | c :: rest =>
    if (c =? c_plus)%N then int_digits true lo hi 0%Z rest
    else if (c =? c_dash)%N && signed then int_digits false lo hi 0%Z rest
    else int_digits true lo hi 0%Z src
  end.

Definition u32_max : Z := 4294967295%Z.
Definition i64_min : Z := (-9223372036854775808)%Z.
Definition i64_max : Z := 9223372036854775807%Z.

(* parse_os_str::<T>: inl value / inr error text (for String: the fixed suffix of the text) *)
Definition convert (ty : vty) (os : bytes) : val + bytes :=
  match ty with
  | TyOsString | TyPathBuf => inl (VBytes os)
  | TyString => if utf8_valid os then inl (VBytes os) else inr err_not_utf8
  | TyU32 =>
    if utf8_valid os then
      match parse_int false 0%Z u32_max os with inl z => inl (VNum z) | inr e => inr e end
    else inr err_not_utf8
  | TyI64 =>
    if utf8_valid os then
      match parse_int true i64_min i64_max os with inl z => inl (VNum z) | inr e => inr e end
    else inr err_not_utf8
  end.
