(* Complete.v -- src/complete_gen.rs, the second stage of dynamic completion: from the hints the
   parsers collected (`Comp`) to the candidates shown (`Complete::complete`): deepest command level
   only, positional-only mode after `--`, value-only mode when an argument's value is being typed,
   the name filters, the shapes of the replacement (`subst`) and display (`pretty`) strings. *)
From BpafModel Require Export Shell.
Import ListNotations.

Record cextra := mkExtra { ce_depth : nat; ce_group : option str; ce_help : option str }.

Inductive comp :=
| CoFlag (e : cextra) (short : option N) (long : option str)
| CoArgument (e : cextra) (short : option N) (long : option str) (metavar : str)
| CoCommand (e : cextra) (name : str) (short : option N)
| CoValue (e : cextra) (body : str) (is_argument : bool)
| CoMeta (e : cextra) (meta : str) (is_argument : bool)
| CoShell (e : cextra) (script : shellop) (is_argument : bool).

(* what precedes the word being completed: `-s=` / `--long=` glued to it, or nothing of the kind *)
Inductive cprefix := PxNA | PxShort (c : N) | PxLong (l : str).

Definition comp_extra (c : comp) : cextra :=
  match c with
  | CoFlag e _ _ | CoArgument e _ _ _ | CoCommand e _ _ | CoValue e _ _ | CoMeta e _ _ | CoShell e _ _ => e
  end.
Definition comp_depth (c : comp) : nat := ce_depth (comp_extra c).

(* Comp::only_value, Comp::is_pos *)
Definition only_value (c : comp) : bool :=
  match c with
  | CoFlag _ _ _ | CoArgument _ _ _ _ | CoCommand _ _ _ => false
  | CoValue _ _ a | CoMeta _ _ a | CoShell _ _ a => a
  end.
Definition is_pos (c : comp) : bool :=
  match c with
  | CoFlag _ _ _ | CoArgument _ _ _ _ | CoCommand _ _ _ => false
  | CoValue _ _ a => negb a
  | CoMeta _ _ _ | CoShell _ _ _ => true
  end.

Definition max_depth (cs : list comp) : nat := fold_left Nat.max (map comp_depth cs) O.

Definition eq_sign : N := 61%N.

Definition mk_item (c : comp) (subst pretty : str) : showcomp :=
  mkShow subst pretty (ce_group (comp_extra c)) (ce_help (comp_extra c)).

(* the candidate one hint contributes, if any *)
Definition comp_item (arg : str) (pos_only : bool) (prefix : cprefix) (c : comp) : option showcomp :=
  match c with
  | CoCommand _ name short => if cmd_matches arg name short then Some (mk_item c name name) else None
  | CoFlag _ short long =>
    match arg_matches arg short long with Some n => Some (mk_item c n n) | None => None end
  | CoArgument _ short long metavar =>
    match arg_matches arg short long with
    | Some n => Some (mk_item c n (n ++ eq_sign :: metavar))
    | None => None
    end
  | CoValue _ body _ =>
    Some (mk_item c (match prefix with
                     | PxNA => body
                     | PxShort s => dash :: s :: eq_sign :: body
                     | PxLong l => dash :: dash :: l ++ eq_sign :: body
                     end) body)
  | CoMeta _ meta is_argument =>
    if negb is_argument && negb pos_only && match arg with c0 :: _ => (c0 =? dash)%N | [] => false end
    then None else Some (mk_item c [] meta)
  | CoShell _ _ _ => None
  end.

(* the loop of Complete::complete over the hints that passed the depth / positional filter;
   items are accumulated reversed *)
Fixpoint complete_go (arg : str) (pos_only is_named : bool) (prefix : cprefix) (cs : list comp)
         (only_values : bool) (items : list showcomp) (shell : list shellop)
  : list showcomp * list shellop :=
  match cs with
  | [] => (rev items, rev shell)
  | c :: t =>
    if only_values && negb (only_value c) then complete_go arg pos_only is_named prefix t only_values items shell
    else
      let items0 := if negb only_values && only_value c then [] else items in
      let ov := only_values || only_value c in
      let items1 := match comp_item arg pos_only prefix c with Some i => i :: items0 | None => items0 end in
      let shell1 := match c with CoShell _ script _ => if is_named then shell else script :: shell | _ => shell end in
      complete_go arg pos_only is_named prefix t ov items1 shell1
  end.

Definition px_na (p : cprefix) : bool := match p with PxNA => true | _ => false end.

(* the hints that take part: deepest level; positional ones after `--`; and, while the value of
   `--name=val` / `-n=val` is being typed, only hints that complete an argument's value (fix: commit b840250;
   before it every remaining hint was matched against the value part and written back with the prefix) *)
Definition passes (md : nat) (pos_only : bool) (prefix : cprefix) (c : comp) : bool :=
  Nat.eqb (comp_depth c) md && (negb pos_only || is_pos c) && (px_na prefix || only_value c).

Definition complete (cs : list comp) (arg : str) (pos_only is_named : bool) (prefix : cprefix)
  : list showcomp * list shellop :=
  complete_go arg pos_only is_named prefix (filter (passes (max_depth cs) pos_only prefix) cs) false [] [].
