(* Console.v -- src/buffer/splitter.rs (split) and src/buffer/console.rs (render_console),
   monochrome.  Strings are lists of Unicode scalar values; `s.len()` of the Rust code is the
   UTF-8 byte length (blen), `chars().count()` the list length. *)
From BpafModel Require Export Syntax.

Definition str := list N.

(* documents whose text is decoded: the model works on characters *)
Inductive ctoken :=
| CText (st : style) (s : str)
| CStart (b : block)
| CEnd (b : block).
Definition cdoc := list ctoken.

Definition char_blen (c : N) : N :=
  if (c <? 128)%N then 1%N else if (c <? 2048)%N then 2%N else if (c <? 65536)%N then 3%N else 4%N.
Fixpoint blen (s : str) : N :=
  match s with [] => 0%N | c :: t => (char_blen c + blen t)%N end.
Definition clen (s : str) : N := N.of_nat (length s).

(* ------------------------------------------------------------------ splitter *)
Inductive chunk :=
| CRaw (s : str) (w : N)
| CPara
| CBreak.

Definition W_CODE : N := 1000000%N.
Definition W_TICKED : N := 1000001%N.

Inductive cstate := CodeNo | CodeFirst | CodeRest.

Definition nl : N := 10%N.
Definition sp : N := 32%N.
Definition tick : N := 96%N.

Fixpoint starts_with (p s : str) : bool :=
  match p, s with
  | [], _ => true
  | a :: p', b :: s' => (a =? b)%N && starts_with p' s'
  | _ :: _, [] => false
  end.

(* split_once('\n'): (before, Some after) *)
Fixpoint split_nl (s : str) : str * option str :=
  match s with
  | [] => ([], None)
  | c :: t => if (c =? nl)%N then ([], Some t)
              else let '(a, b) := split_nl t in (c :: a, b)
  end.

(* a word: characters up to the next '\n' or ' ' *)
Fixpoint take_word (s : str) : str * str :=
  match s with
  | [] => ([], [])
  | c :: t => if (c =? nl)%N || (c =? sp)%N then ([], s)
              else let '(a, b) := take_word t in (c :: a, b)
  end.

Definition four_spaces : str := [sp; sp; sp; sp].

(* one call of Splitter::next; None = end of input *)
Definition split_next (docgen : bool) (code : cstate) (input : str) : option (chunk * str * cstate) :=
  match input with
  | [] => None
  | c0 :: tail0 =>
    let in_code := docgen && match code with CodeNo => false | _ => true end in
    if in_code then
      let code1 := match code with
                   | CodeRest => if starts_with [tick; tick; tick] input then CodeNo else CodeRest
                   | x => x
                   end in
      let code2 := match code1 with CodeFirst => CodeRest | x => x end in
      match split_nl input with
      | (line, Some rest) =>
        let tail := nl :: rest in
        let input' := if starts_with [nl; nl] tail && match code2 with CodeNo => true | _ => false end
                      then tail else rest in
        Some (CRaw line W_TICKED, input', code2)
      | (line, None) => Some (CRaw line W_TICKED, [], code2)
      end
    else if (c0 =? nl)%N then
      if starts_with four_spaces tail0 then
        let tail4 := skipn 4 tail0 in
        match split_nl tail4 with
        | (line, Some rest) => Some (CRaw line W_CODE, nl :: rest, code)
        | (line, None) => Some (CRaw line W_CODE, [], code)
        end
      else if starts_with [nl; tick; tick; tick] tail0 then
        Some (CPara, skipn 1 tail0, if docgen then CodeFirst else code)
      else if starts_with (nl :: four_spaces) tail0 then Some (CPara, tail0, code)
      else match tail0 with
           | c1 :: t2 =>
             if (c1 =? nl)%N then Some (CPara, t2, code)
             else if (c1 =? sp)%N then Some (CBreak, t2, code)
             else Some (CRaw [sp] 1%N, tail0, code)
           | [] => Some (CRaw [sp] 1%N, tail0, code)
           end
    else if (c0 =? sp)%N then Some (CRaw [sp] 1%N, tail0, code)
    else let '(w, rest) := take_word input in Some (CRaw w (clen w), rest, code)
  end.

Fixpoint split_go (docgen : bool) (fuel : nat) (code : cstate) (input : str) : list chunk :=
  match fuel with
  | O => []
  | S f =>
    match split_next docgen code input with
    | None => []
    | Some (ch, input', code') => ch :: split_go docgen f code' input'
    end
  end.

Definition split (docgen : bool) (input : str) : list chunk :=
  split_go docgen (S (length input)) CodeNo input.

(* ------------------------------------------------------------------ render_console *)
(* char::is_whitespace (White_Space) *)
Definition is_ws (c : N) : bool :=
  ((9 <=? c) && (c <=? 13))%N || (c =? 32)%N || (c =? 133)%N || (c =? 160)%N || (c =? 5760)%N ||
  ((8192 <=? c) && (c <=? 8202))%N || (c =? 8232)%N || (c =? 8233)%N || (c =? 8239)%N ||
  (c =? 8287)%N || (c =? 12288)%N.

Definition MAX_TAB : N := 24%N.

Record cstate_r := mkCR {
  rres : str;                (* the output so far, REVERSED *)
  char_pos : N;
  skip : nat;
  margins : list N;
  pend_nl : bool;
  pend_blank : bool;
  pend_margin : bool;
  cpanic : bool }.           (* a panic of the renderer: none is left -- before the fix `PADDING[..missing]` with
                                missing > 50 was one (margins of deeply nested blocks) *)

Definition push_rev (s : str) (r : str) : str := rev_append s r.

Definition ends_nl (r : str) : bool := match r with c :: _ => (c =? nl)%N | [] => false end.
Definition ends_nlnl (r : str) : bool :=
  match r with a :: b :: _ => (a =? nl)%N && (b =? nl)%N | _ => false end.

Definition cur_margin (m : list N) : N := match m with x :: _ => x | [] => 0%N end.

Definition pad (n : N) : str := repeat sp (N.to_nat n).

(* one Chunk::Raw *)
Definition raw_step (max_width : N) (s : str) (w : N) (st : cstate_r) : cstate_r :=
  let margin := cur_margin (margins st) in
  (* the block guarded by !res.is_empty() : (res, char_pos, skip this chunk?) *)
  let '(r1, cp1, skipit) :=
    if is_nil (rres st) then (rres st, char_pos st, false)
    else
      let '(ra, cpa) :=
        if (pend_nl st || pend_blank st) && negb (ends_nl (rres st))
        then (nl :: rres st, 0%N) else (rres st, char_pos st) in
      let rb := if pend_blank st && negb (ends_nlnl ra) then nl :: ra else ra in
      if (max_width <? cpa + blen s)%N
      then (nl :: drop_while is_ws rb, 0%N, beqb s [sp])
      else (rb, cpa, false) in
  if skipit then mkCR r1 cp1 (skip st) (margins st) (pend_nl st) (pend_blank st) (pend_margin st) (cpanic st)
  else
    let '(r2, cp2, pushed, p2) :=
      if (cp1 <=? margin)%N
      then let missing := (margin - cp1)%N in
           (push_rev (pad missing) r1, margin, missing, false)
      else (r1, cp1, 0%N, false) in
    let '(r3, cp3, p3) :=
      if pend_margin st && (MAX_TAB + 4 <=? cp2)%N && (pushed <? 2)%N
      then let missing := (2 - pushed)%N in (push_rev (pad missing) r2, (cp2 + missing)%N, false)
      else (r2, cp2, false) in
    mkCR (push_rev s r3) (cp3 + w)%N (skip st) (margins st) false false false (cpanic st || p2 || p3).

(* the chunks of one text token; Paragraph in short mode enables skipping and stops the token *)
Fixpoint chunks_step (full : bool) (max_width : N) (cs : list chunk) (st : cstate_r) : cstate_r :=
  match cs with
  | [] => st
  | CRaw s w :: t => chunks_step full max_width t (raw_step max_width s w st)
  | CPara :: t =>
    let st' := mkCR (nl :: rres st) 0%N (skip st) (margins st) (pend_nl st) (pend_blank st)
                    (pend_margin st) (cpanic st) in
    if full then chunks_step full max_width t st'
    else mkCR (rres st') (char_pos st') 1 (margins st') (pend_nl st') (pend_blank st') (pend_margin st')
              (cpanic st')
  | CBreak :: t =>
    chunks_step full max_width t
      (mkCR (nl :: rres st) 0%N (skip st) (margins st) (pend_nl st) (pend_blank st) (pend_margin st)
            (cpanic st))
  end.

Definition set_flags st (r : str) (cp : N) (sk : nat) (m : list N) (pn pb pm : bool) : cstate_r :=
  mkCR r cp sk m pn pb pm (cpanic st).

Definition token_step (docgen full : bool) (max_width tabstop : N) (st : cstate_r) (t : ctoken) : cstate_r :=
  match t with
  | CText _ s =>
    if Nat.ltb 0 (skip st) then st
    else chunks_step full max_width (split docgen s) st
  | CStart b =>
    let margin := cur_margin (margins st) in
    match b with
    | BHeader | BSection2 =>
      set_flags st (rres st) (char_pos st) (skip st) (margin :: margins st) true (pend_blank st) (pend_margin st)
    | BSection3 =>
      set_flags st (rres st) (char_pos st) (skip st) ((margin + 2)%N :: margins st) true (pend_blank st) (pend_margin st)
    | BItemTerm =>
      set_flags st (rres st) (char_pos st) (skip st) ((margin + 4)%N :: margins st) true (pend_blank st) (pend_margin st)
    | BItemBody =>
      set_flags st (rres st) (char_pos st) (skip st) ((margin + tabstop + 2)%N :: margins st) (pend_nl st) (pend_blank st) true
    | BInlineBlock =>
      set_flags st (rres st) (char_pos st) (if Nat.ltb 0 (skip st) then S (skip st) else skip st)
                (margins st) (pend_nl st) (pend_blank st) (pend_margin st)
    | BBlock =>
      set_flags st (rres st) (char_pos st) (skip st) (margin :: margins st) (pend_nl st) (pend_blank st) (pend_margin st)
    | BDefinitionList | BMeta | BMono => st
    | BTermRef =>
      set_flags st (tick :: rres st) (char_pos st + 1)%N (skip st) (margins st) (pend_nl st) (pend_blank st) (pend_margin st)
    end
  | CEnd b =>
    let m' := tl (margins st) in
    match b with
    | BItemBody => set_flags st (rres st) (char_pos st) (skip st) m' (pend_nl st) (pend_blank st) false
    | BHeader | BSection2 | BSection3 | BItemTerm | BDefinitionList | BMeta | BMono =>
      set_flags st (rres st) (char_pos st) (skip st) m' (pend_nl st) (pend_blank st) (pend_margin st)
    | BInlineBlock =>
      set_flags st (rres st) (char_pos st) (pred (skip st)) m' (pend_nl st) (pend_blank st) (pend_margin st)
    | BBlock => set_flags st (rres st) (char_pos st) (skip st) m' (pend_nl st) true (pend_margin st)
    | BTermRef =>
      set_flags st (tick :: rres st) (char_pos st + 1)%N (skip st) m' (pend_nl st) (pend_blank st) (pend_margin st)
    end
  end.

(* widest item term not above MAX_TAB *)
Fixpoint tabstop_go (d : cdoc) (in_term : bool) (current best : N) : N :=
  match d with
  | [] => best
  | CText _ s :: t => tabstop_go t in_term (if in_term then (current + clen s)%N else current) best
  | CStart BItemTerm :: t => tabstop_go t true 0%N best
  | CEnd BItemTerm :: t =>
    tabstop_go t false current (if (best <? current)%N && (current <=? MAX_TAB)%N then current else best)
  | _ :: t => tabstop_go t in_term current best
  end.

Definition init_cr : cstate_r := mkCR [] 0%N O [] false false false false.

Definition render_state (docgen full : bool) (max_width : N) (d : cdoc) : cstate_r :=
  fold_left (token_step docgen full max_width (tabstop_go d false 0%N 0%N + 4)%N) d init_cr.

(* None = the renderer panics (PADDING slice out of range) *)
Definition render_console (docgen full : bool) (max_width : N) (d : cdoc) : option str :=
  let st := render_state docgen full max_width d in
  if cpanic st then None
  else Some (rev (if pend_nl st || pend_blank st then nl :: rres st else rres st)).
