(* Syntax.v -- documents, names, Info, Item/Meta, values, messages, parser AST.
   Hand transcription of the data types in src/{buffer,item,meta,info,error,params,structs}.rs. *)
From BpafModel Require Export Base.

(* ------------------------------------------------------------------ Doc (src/buffer.rs) *)
Inductive style := SText | SEmphasis | SLiteral | SMetavar | SInvalid.
Inductive block :=
| BHeader | BSection2 | BSection3 | BItemTerm | BItemBody | BDefinitionList
| BBlock | BInlineBlock | BTermRef | BMeta | BMono.
(* A Doc is payload + tokens with byte lengths; we keep each text token's slice with it. *)
Inductive dtoken :=
| TText (st : style) (s : bytes)
| TStart (b : block)
| TEnd (b : block).
Definition doc := list dtoken.

(* ------------------------------------------------------------------ NamedArg (src/params.rs) *)
Record named := mkNamed {
  n_short : list char;
  n_long : list bytes;
  n_env : list bytes;
  n_help : option doc }.

(* ------------------------------------------------------------------ Info (src/info.rs) *)
Record info := mkInfo {
  i_version : option doc;
  i_descr : option doc;
  i_header : option doc;
  i_footer : option doc;
  i_usage : option doc;
  i_help_arg : named;
  i_version_arg : named;
  i_help_if_no_args : bool;
  i_max_width : N }.

(* ------------------------------------------------------------------ Item / Meta *)
Inductive shortlong :=
| SLShort (c : char) | SLLong (l : bytes) | SLBoth (c : char) (l : bytes).

Inductive item :=
| IAny (metavar : doc) (anywhere : bool) (help : option doc)
| IPositional (metavar : bytes) (help : option doc)
| ICommand (name : bytes) (short : option char) (help : option doc) (m : meta) (i : info)
| IFlag (name : shortlong) (shorts : list char) (env : option bytes) (help : option doc)
| IArgument (name : shortlong) (shorts : list char) (metavar : bytes) (env : option bytes)
            (help : option doc)
with meta :=
| MAnd (xs : list meta)
| MOr (xs : list meta)
| MOptional (m : meta)
| MRequired (m : meta)
| MAdjacent (m : meta)
| MItem (i : item)
| MMany (m : meta)
| MSubsection (m : meta) (d : doc)
| MSuffix (m : meta) (d : doc)
| MSkip
| MCustomUsage (m : meta) (d : doc)
| MStrict (m : meta).

(* ------------------------------------------------------------------ values *)
(* What a parser built by the harness returns.  The Rust driver uses the same shape. *)
Inductive val :=
| VUnit
| VBool (b : bool)
| VNum (z : Z)
| VBytes (b : bytes)
| VList (l : list val)
| VTuple (l : list val)
| VSome (v : val)
| VNone.

(* target types of argument::<T> / positional::<T> *)
Inductive vty := TyOsString | TyPathBuf | TyString | TyU32 | TyI64.

Inductive position := Unrestricted | Strict | NonStrict.

(* ------------------------------------------------------------------ messages (src/error.rs) *)
Record missing_item := mkMissing {
  mi_item : item;
  mi_position : nat;
  mi_scope : nat * nat }.

Inductive helpreq :=
| HHelp (path : list bytes) (i : info) (m : meta) (detailed : bool)
| HVersion (v : doc).

Inductive message :=
| MsgNoEnv (name : bytes)
| MsgParseSome (m : bytes)
| MsgParseFail (m : bytes)
| MsgPureFailed (m : bytes)
| MsgMissing (xs : list missing_item)
| MsgParseFailure (f : failure)
| MsgStrictPos (ix : nat) (mv : bytes)
| MsgNonStrictPos (ix : nat) (mv : bytes)
| MsgParseFailed (ix : option nat) (m : bytes)
| MsgGuardFailed (ix : option nat) (m : bytes)
| MsgNoArgument (ix : nat) (mv : bytes)
| MsgUnconsumed (ix : nat)
| MsgAmbiguity (ix : nat) (s : bytes)
with failure :=
| FStdout (h : helpreq)
| FCompletion (s : bytes)
| FStderr (m : message) (d : option doc).
  (* ParseFailure::Stderr(doc): `d` is the document Message::render built from `m` in the state and with the meta
     of the command level that reports the failure (Model/Message.v; None = render panicked); `m` is kept as
     a ghost for the theorems and the kind comparison *)

(* ------------------------------------------------------------------ parser AST *)
(* User closures are arbitrary total functions. *)
Inductive parser :=
| PFlag (n : named) (present : val) (absent : option val)
| PArg (n : named) (metavar : bytes) (ty : vty) (adjacent : bool)
| PPos (metavar : bytes) (ty : vty) (pos : position) (help : option doc)
| PAny (metavar : doc) (help : option doc) (check : bytes -> option val) (anywhere : bool)
| PCmd (name : bytes) (aliases : list bytes) (shorts : list char) (help : option doc)
       (adjacent : bool) (sub : oparser)
| PCon (fields : plist)                     (* construct!(a, b, ..) *)
| PAdj (fields : plist)                     (* construct!(a, b, ..).adjacent() *)
| POr (a b : parser)                        (* a.or_else(b); construct!([a,b,c]) nests to the left *)
| POptional (p : parser) (catch : bool)
| PMany (p : parser) (catch : bool)
| PSome (p : parser) (msg : bytes) (catch : bool)
| PCollect (p : parser) (catch : bool)
| PCount (p : parser)
| PLast (p : parser)
| PFallback (p : parser) (v : val) (shown : bytes)
| PFallbackWith (p : parser) (r : val + bytes) (shown : bytes)
| PGuard (p : parser) (check : val -> bool) (msg : bytes)
| PParse (p : parser) (f : val -> val + bytes)
| PMap (p : parser) (f : val -> val)
| PHide (p : parser)
| PUsage (p : parser) (d : doc)             (* hide_usage = custom_usage with an empty Doc *)
| PGroupHelp (p : parser) (d : doc)
| PPure (v : val)
| PPureWith (r : val + bytes)
| PFail (msg : bytes)
| PBoxed (p : parser)                       (* .boxed(), and construct!(a) with one field *)
with plist :=
| PNil
| PCons (p : parser) (ps : plist)
with oparser :=
| Options (p : parser) (i : info).

Fixpoint plist_length (ps : plist) : nat :=
  match ps with PNil => O | PCons _ t => S (plist_length t) end.

Definition default_help_arg : named :=
  mkNamed [104%N] [[104; 101; 108; 112]%N] [] (Some [TText SText
    [80;114;105;110;116;115;32;104;101;108;112;32;105;110;102;111;114;109;97;116;105;111;110]%N]).
Definition default_version_arg : named :=
  mkNamed [86%N] [[118; 101; 114; 115; 105; 111; 110]%N] [] (Some [TText SText
    [80;114;105;110;116;115;32;118;101;114;115;105;111;110;32;105;110;102;111;114;109;97;116;105;111;110]%N]).
Definition default_info : info :=
  mkInfo None None None None None default_help_arg default_version_arg false 100%N.
