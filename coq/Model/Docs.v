(* Docs.v -- documentation generation: src/buffer.rs (extract_sections), src/buffer/html.rs
   (collect_html, Doc::render_html), src/buffer/manpage.rs (render_manpage, Doc::render_roff),
   src/buffer/manpage/roff.rs (Roff builder), src/buffer/manpage/escape.rs (escape).
   Doc::render_markdown is NOT modelled (the property makes no well-formedness claim about it; what it
   mentions is decided from the Doc it is given, which is the collect_html document below).

   Modelled domain: `to_uppercase`/`to_lowercase` are the ASCII ones (section titles, command names
   and the application name contain no cased non-ASCII letters in the generated cases). *)
From Coq Require Import Ascii String.
From BpafModel Require Export Help Console.

Definition bs (s : string) : bytes := map N_of_ascii (list_ascii_of_string s).
Arguments bs _%string.

(* fixed vocabulary (evaluated here so that the extracted model contains no Coq strings) *)
Definition k_Command_summary : bytes := Eval vm_compute in bs "Command summary".
Definition k_bullet_open : bytes := Eval vm_compute in bs "* [`".
Definition k_link_mid : bytes := Eval vm_compute in bs "](#".
Definition k_rparen : bytes := Eval vm_compute in bs ")".
Definition k_SYNOPSIS : bytes := Eval vm_compute in bs "SYNOPSIS".
Definition k_NAME : bytes := Eval vm_compute in bs "NAME".
Definition k_sp_dash_sp : bytes := Eval vm_compute in bs " - ".
Definition k_o_tt : bytes := Eval vm_compute in bs "<tt>".
Definition k_o_b : bytes := Eval vm_compute in bs "<b>".
Definition k_o_i : bytes := Eval vm_compute in bs "<i>".
Definition k_o_p : bytes := Eval vm_compute in bs "<p>".
Definition k_o_div : bytes := Eval vm_compute in bs "<div>".
Definition k_o_div3 : bytes := Eval vm_compute in bs "<div style='padding-left: 0.5em'>".
Definition k_o_dl : bytes := Eval vm_compute in bs "<dl>".
Definition k_o_dt : bytes := Eval vm_compute in bs "<dt>".
Definition k_o_dd : bytes := Eval vm_compute in bs "<dd>".
Definition k_o_li : bytes := Eval vm_compute in bs "<li>".
Definition k_c_tt : bytes := Eval vm_compute in bs "</tt>".
Definition k_c_b : bytes := Eval vm_compute in bs "</b>".
Definition k_c_i : bytes := Eval vm_compute in bs "</i>".
Definition k_c_p : bytes := Eval vm_compute in bs "</p>".
Definition k_c_div : bytes := Eval vm_compute in bs "</div>".
Definition k_c_dl : bytes := Eval vm_compute in bs "</dl>".
Definition k_c_dt : bytes := Eval vm_compute in bs "</dt>".
Definition k_c_dd : bytes := Eval vm_compute in bs "</dd>".
Definition k_c_li : bytes := Eval vm_compute in bs "</li>".
Definition k_amp_lt : bytes := Eval vm_compute in bs "&lt;".
Definition k_amp_gt : bytes := Eval vm_compute in bs "&gt;".
Definition k_br : bytes := Eval vm_compute in bs "<br>".
Definition k_hash_sp : bytes := Eval vm_compute in bs "# ".
Definition k_aq : bytes := Eval vm_compute in bs "\*(Aq".
Definition k_preamble1 : bytes := Eval vm_compute in bs ".ie \n(.g .ds Aq \(aq".
Definition k_preamble2 : bytes := Eval vm_compute in bs ".el .ds Aq '".
Definition k_empty_arg : bytes := Eval vm_compute in bs """""".
Definition k_font_b : bytes := Eval vm_compute in bs "\fB".
Definition k_font_i : bytes := Eval vm_compute in bs "\fI".
Definition k_font_r : bytes := Eval vm_compute in bs "\fR".
Definition k_font_p : bytes := Eval vm_compute in bs "\fP".
Definition k_SS : bytes := Eval vm_compute in bs "SS".
Definition k_TP : bytes := Eval vm_compute in bs "TP".
Definition k_PP : bytes := Eval vm_compute in bs "PP".
Definition k_nf : bytes := Eval vm_compute in bs "nf".
Definition k_SH : bytes := Eval vm_compute in bs "SH".
Definition k_fi : bytes := Eval vm_compute in bs "fi".
Definition k_TH : bytes := Eval vm_compute in bs "TH".
Definition k_one : bytes := Eval vm_compute in bs "1".
Definition k_dash : bytes := Eval vm_compute in bs "-".

Definition upper_ascii (c : N) : N := if ((97 <=? c) && (c <=? 122))%N then (c - 32)%N else c.
Definition lower_ascii (c : N) : N := if ((65 <=? c) && (c <=? 90))%N then (c + 32)%N else c.

Fixpoint join (sep : bytes) (l : list bytes) : bytes :=
  match l with
  | [] => []
  | [x] => x
  | x :: t => x ++ sep ++ join sep t
  end.

(* ------------------------------------------------------------------ extract_sections *)
Record section := mkSection { sec_path : list bytes; sec_info : info; sec_meta : meta }.

(* None: out of fuel (never with fuel > depth of the metadata tree) *)
Fixpoint sections_go (fuel : nat) (m : meta) (inf : info) (path : list bytes) : option (list section) :=
  match fuel with
  | O => None
  | S f =>
    let each := fix each (items : list helpitem) : option (list section) :=
      match items with
      | [] => Some []
      | HCommand name _ _ m' i' :: t =>
        match sections_go f m' i' (path ++ [name]), each t with
        | Some a, Some b => Some (a ++ b)
        | _, _ => None
        end
      | _ :: t => each t
      end in
    match each (append_meta [] m) with
    | Some rest => Some (mkSection path inf m :: rest)
    | None => None
    end
  end.

Fixpoint meta_depth (m : meta) : nat :=
  let all := fix all (xs : list meta) : nat :=
    match xs with [] => O | x :: t => Nat.max (meta_depth x) (all t) end in
  match m with
  | MAnd xs | MOr xs => S (all xs)
  | MOptional x | MRequired x | MAdjacent x | MMany x | MSubsection x _ | MSuffix x _ | MStrict x
  | MCustomUsage x _ => S (meta_depth x)
  | MItem (ICommand _ _ _ m' _) => S (meta_depth m')
  | MItem _ => 1
  | MSkip => 1
  end.

Definition extract_sections (m : meta) (inf : info) (app : bytes) : option (list section) :=
  sections_go (S (meta_depth m)) m inf [app].

(* ------------------------------------------------------------------ collect_html *)
Definition dtext (d : doc) (s : bytes) : doc := dwrite d SText s.

Definition anchor_of (path : list bytes) : bytes :=
  map (fun c => if (c =? 32)%N then 45%N else c) (map lower_ascii (join [45%N] path)).

Section WithEnv.
Variable env : bytes -> option bytes.

Definition collect_html (app : bytes) (m : meta) (inf : info) : option doc :=
  match extract_sections m inf app with
  | None => None
  | Some secs =>
    let d0 :=
      match secs with
      | _ :: _ :: _ =>
        let h := dtok (dtok (dtext (dtok (dtok [] (TStart BBlock)) (TStart BHeader)) (k_Command_summary))
                            (TEnd BHeader)) (TEnd BBlock) in
        fold_left (fun d s =>
          dtok (dtext (dtok d (TStart BItemBody))
                      (k_bullet_open ++ join [32%N] (sec_path s) ++ [96; 226; 134; 180]%N ++ k_link_mid
                          ++ anchor_of (sec_path s) ++ k_rparen))
               (TEnd BItemBody)) secs h
      | _ => []
      end in
    fold_left (fun (od : option doc) s =>
      match od with
      | None => None
      | Some d =>
        let d1 := dtok (dtext (dtok d (TStart BHeader)) (join [32%N] (sec_path s))) (TEnd BHeader) in
        match render_help env (sec_path s) (sec_info s) (sec_meta s) (info_meta (sec_info s)) false with
        | Some b => Some (ddoc d1 b)
        | None => None
        end
      end) secs (Some d0)
  end.

(* ------------------------------------------------------------------ render_manpage: the document *)
Definition manpage_doc (app : bytes) (m : meta) (inf : info) : option doc :=
  match extract_sections m inf app with
  | None => None
  | Some secs =>
    let many := match secs with _ :: _ :: _ => true | _ => false end in
    let d0 :=
      if many then
        let h := dtok (dtok (dtext (dtok (dtok [] (TStart BBlock)) (TStart BHeader)) (k_SYNOPSIS))
                            (TEnd BHeader)) (TEnd BBlock) in
        let body := fold_left (fun d s =>
          let d1 := fold_left (fun d p => dtext (dwrite d SLiteral p) [32%N]) (sec_path s) d in
          dtext (dwrite_meta d1 (sec_meta s) true) [10%N]) secs (dtok h (TStart BMeta)) in
        dtok body (TEnd BMeta)
      else [] in
    fold_left (fun (od : option doc) s =>
      match od with
      | None => None
      | Some d =>
        let d1 := if many then dtok (dwrite_path (dtok d (TStart BHeader)) (sec_path s)) (TEnd BHeader) else d in
        let d2 := match i_descr (sec_info s) with
                  | Some descr =>
                    ddoc (dtext (dtext (dtok (dtext (dtok d1 (TStart BHeader)) (k_NAME)) (TEnd BHeader)) app)
                                (k_sp_dash_sp)) descr
                  | None => d1
                  end in
        let d3 := dtok (dtext (dtok d2 (TStart BHeader)) (k_SYNOPSIS)) (TEnd BHeader) in
        let d4 := dwrite_meta (dwrite_path d3 (sec_path s)) (sec_meta s) true in
        let d5 := dblock d4 (i_header (sec_info s)) in
        let items := append_meta (append_meta [] (sec_meta s)) (info_meta (sec_info s)) in
        match write_help_item_groups env d5 items false with
        | Some d6 => Some (dblock d6 (i_footer (sec_info s)))
        | None => None
        end
      end) secs (Some d0)
  end.
End WithEnv.

(* ================================================================== Doc::render_html *)
Record styles := mkSt { st_mono : bool; st_bold : bool; st_italic : bool }.
Definition st_default : styles := mkSt false false false.
Definition styles_of (s : style) : styles :=
  match s with
  | SLiteral => mkSt true true false
  | SMetavar => mkSt true false true
  | SText => st_default
  | SEmphasis | SInvalid => mkSt false true false
  end.

Inductive htag := HTt | HB | HI | HP | HDiv | HDiv3 | HDl | HDt | HDd | HLi.
Definition htag_eqb (a b : htag) : bool :=
  match a, b with
  | HTt, HTt | HB, HB | HI, HI | HP, HP | HDiv, HDiv | HDiv3, HDiv3 | HDl, HDl | HDt, HDt | HDd, HDd
  | HLi, HLi => true
  | _, _ => false
  end.

(* what the renderer emits: tags, the void <br>, the markdown-ish "# " of headers, and user text *)
Inductive hev := EOpen (t : htag) | EClose (t : htag) | EBr | EHash | EText (s : bytes).

Definition open_str (t : htag) : bytes :=
  match t with
  | HTt => k_o_tt | HB => k_o_b | HI => k_o_i | HP => k_o_p
  | HDiv => k_o_div ++ [10%N]
  | HDiv3 => k_o_div3
  | HDl => k_o_dl | HDt => k_o_dt | HDd => k_o_dd | HLi => k_o_li
  end.
Definition close_str (t : htag) : bytes :=
  match t with
  | HTt => k_c_tt | HB => k_c_b | HI => k_c_i | HP => k_c_p
  | HDiv | HDiv3 => k_c_div
  | HDl => k_c_dl ++ [10%N] | HDt => k_c_dt ++ [10%N]
  | HDd => k_c_dd ++ [10%N] | HLi => k_c_li ++ [10%N]
  end.

(* `<` and `>` of user text are replaced *)
Definition html_escape (s : bytes) : bytes :=
  flat_map (fun c => if (c =? 60)%N then k_amp_lt else if (c =? 62)%N then k_amp_gt else [c]) s.

Definition hev_str (e : hev) : bytes :=
  match e with
  | EOpen t => open_str t
  | EClose t => close_str t
  | EBr => k_br ++ [10%N]
  | EHash => k_hash_sp
  | EText s => html_escape s
  end.
Definition html_bytes (evs : list hev) : bytes := flat_map hev_str evs.

Definition change_style (cur new : styles) : list hev :=
  (if st_italic cur then [EClose HI] else []) ++ (if st_bold cur then [EClose HB] else []) ++
  (if st_mono cur then [EClose HTt] else []) ++
  (if st_mono new then [EOpen HTt] else []) ++ (if st_bold new then [EOpen HB] else []) ++
  (if st_italic new then [EOpen HI] else []).

Record hstate := mkHS {
  hs_cur : styles;
  hs_skip : nat;
  hs_stack : list block;
  hs_empty : bool;        (* nothing written so far *)
  hs_br : bool }.         (* the output ends with "<br>\n" *)

Definition hs_init : hstate := mkHS st_default O [] true false.

(* bookkeeping of "is empty" / "ends with <br>\n" over a list of emitted events *)
Definition ev_visible (e : hev) : bool := match e with EText [] => false | _ => true end.
Definition track (st : hstate) (evs : list hev) : hstate :=
  fold_left (fun st e =>
    if ev_visible e then mkHS (hs_cur st) (hs_skip st) (hs_stack st) false (match e with EBr => true | _ => false end)
    else st) evs st.

Definition blank_line (st : hstate) : list hev := if hs_empty st || hs_br st then [] else [EBr].

(* the chunks of one text token; returns the events and whether Skip was enabled *)
Fixpoint html_chunks (full : bool) (cs : list chunk) : list hev * bool :=
  match cs with
  | [] => ([], false)
  | CRaw s _ :: t => let '(r, k) := html_chunks full t in (EText s :: r, k)
  | CPara :: t => if full then let '(r, k) := html_chunks full t in (EBr :: r, k) else ([], true)
  | CBreak :: t => let '(r, k) := html_chunks full t in (EBr :: r, k)
  end.

Definition is_deflist (stack : list block) : bool :=
  match stack with BDefinitionList :: _ => true | _ => false end.

Definition with_style st (c : styles) := mkHS c (hs_skip st) (hs_stack st) (hs_empty st) (hs_br st).
Definition with_skip st (k : nat) := mkHS (hs_cur st) k (hs_stack st) (hs_empty st) (hs_br st).
Definition with_stack st (s : list block) := mkHS (hs_cur st) (hs_skip st) s (hs_empty st) (hs_br st).

(* one token: None = todo!() panic (Block::Meta) *)
Definition html_step (full : bool) (st : hstate) (t : dtoken) : option (list hev * hstate) :=
  match t with
  | TText sty s =>
    if Nat.ltb O (hs_skip st) then Some ([], st)
    else
      let e1 := change_style (hs_cur st) (styles_of sty) in
      let '(e2, k) := html_chunks full (split true s) in
      let st1 := track (with_style st (styles_of sty)) (e1 ++ e2) in
      Some (e1 ++ e2, if k then with_skip st1 1 else st1)
  | TStart b =>
    let e1 := change_style (hs_cur st) st_default in
    let st1 := track (with_style st st_default) e1 in
    match b with
    | BMeta => None
    | _ =>
      let e2 :=
        match b with
        | BHeader => blank_line st1 ++ [EHash]
        | BSection2 => [EOpen HDiv]
        | BItemTerm => [EOpen HDt]
        | BItemBody => if is_deflist (hs_stack st) then [EOpen HDd] else [EOpen HLi]
        | BDefinitionList => [EOpen HDl]
        | BBlock => [EOpen HP]
        | BSection3 => [EOpen HDiv3]
        | _ => []
        end in
      let st2 := track st1 e2 in
      let st3 := match b with
                 | BInlineBlock => if Nat.ltb O (hs_skip st2) then with_skip st2 (S (hs_skip st2)) else st2
                 | _ => st2
                 end in
      Some (e1 ++ e2, with_stack st3 (b :: hs_stack st3))
    end
  | TEnd b =>
    let e1 := change_style (hs_cur st) st_default in
    let st1 := track (with_style st st_default) e1 in
    let stack' := tl (hs_stack st1) in
    match b with
    | BMeta => None
    | _ =>
      let e2 :=
        match b with
        | BHeader => blank_line st1
        | BSection2 => [EClose HDiv]
        | BItemTerm => [EClose HDt]
        | BItemBody => if is_deflist stack' then [EClose HDd] else [EClose HLi]
        | BDefinitionList => [EClose HDl]
        | BBlock => [EClose HP]
        | BSection3 => [EClose HDiv3]
        | _ => []
        end in
      let st2 := track (with_stack st1 stack') e2 in
      let st3 := match b with
                 | BInlineBlock => with_skip st2 (Nat.pred (hs_skip st2))
                 | _ => st2
                 end in
      Some (e1 ++ e2, st3)
    end
  end.

Fixpoint html_run (full : bool) (st : hstate) (d : doc) : option (list hev) :=
  match d with
  | [] => Some (change_style (hs_cur st) st_default)
  | t :: d' =>
    match html_step full st t with
    | None => None
    | Some (evs, st') =>
      match html_run full st' d' with
      | Some rest => Some (evs ++ rest)
      | None => None
      end
    end
  end.

Definition render_html_events (full : bool) (d : doc) : option (list hev) := html_run full hs_init d.
Definition render_html (full : bool) (d : doc) : option bytes := option_map html_bytes (render_html_events full d).

(* ================================================================== Doc::render_markdown *)
(* src/buffer/html.rs render_markdown.  The output is kept reversed so that `ends_with` is a look at its head. *)
Record mstate := mkMS {
  ms_out : bytes;          (* reversed *)
  ms_cur : styles;
  ms_skip : nat;
  ms_empty_term : bool;
  ms_mono : Z;             (* i32: BlockEnd(Mono) without a start makes it negative *)
  ms_deflist : bool;
  ms_code : bool;
  ms_app : bool }.
Definition ms_init : mstate := mkMS [] st_default O false 0%Z false false false.

Definition ms_push (st : mstate) (s : bytes) : mstate :=
  mkMS (rev s ++ ms_out st) (ms_cur st) (ms_skip st) (ms_empty_term st) (ms_mono st) (ms_deflist st) (ms_code st) (ms_app st).
Definition ms_set_out (st : mstate) (o : bytes) : mstate :=
  mkMS o (ms_cur st) (ms_skip st) (ms_empty_term st) (ms_mono st) (ms_deflist st) (ms_code st) (ms_app st).
Definition ms_set_cur (st : mstate) (c : styles) : mstate :=
  mkMS (ms_out st) c (ms_skip st) (ms_empty_term st) (ms_mono st) (ms_deflist st) (ms_code st) (ms_app st).
Definition ms_set_skip (st : mstate) (k : nat) : mstate :=
  mkMS (ms_out st) (ms_cur st) k (ms_empty_term st) (ms_mono st) (ms_deflist st) (ms_code st) (ms_app st).
Definition ms_set_eterm (st : mstate) (b : bool) : mstate :=
  mkMS (ms_out st) (ms_cur st) (ms_skip st) b (ms_mono st) (ms_deflist st) (ms_code st) (ms_app st).
Definition ms_set_mono (st : mstate) (z : Z) : mstate :=
  mkMS (ms_out st) (ms_cur st) (ms_skip st) (ms_empty_term st) z (ms_deflist st) (ms_code st) (ms_app st).
Definition ms_set_deflist (st : mstate) (b : bool) : mstate :=
  mkMS (ms_out st) (ms_cur st) (ms_skip st) (ms_empty_term st) (ms_mono st) b (ms_code st) (ms_app st).
Definition ms_set_code (st : mstate) (b : bool) : mstate :=
  mkMS (ms_out st) (ms_cur st) (ms_skip st) (ms_empty_term st) (ms_mono st) (ms_deflist st) b (ms_app st).
Definition ms_set_app (st : mstate) (b : bool) : mstate :=
  mkMS (ms_out st) (ms_cur st) (ms_skip st) (ms_empty_term st) (ms_mono st) (ms_deflist st) (ms_code st) b.

(* change_to_markdown_style *)
Definition md_style_str (cur new : styles) : bytes :=
  (if st_mono cur then [96%N] else []) ++ (if st_bold cur then [42; 42]%N else []) ++ (if st_italic cur then [95%N] else []) ++
  (if st_italic new then [95%N] else []) ++ (if st_bold new then [42; 42]%N else []) ++ (if st_mono new then [96%N] else []).
Definition md_style (st : mstate) (new : styles) : mstate :=
  ms_set_cur (ms_push st (md_style_str (ms_cur st) new)) new.

(* new_markdown_line / blank_markdown_line *)
Definition md_new_line (st : mstate) : mstate :=
  match ms_out st with
  | [] => st
  | c :: _ => if (c =? 10)%N then st else ms_push st [10%N]
  end.
Definition md_blank_line (st : mstate) : mstate :=
  match ms_out st with
  | [] => st
  | a :: b :: _ => if (a =? 10)%N && (b =? 10)%N then st else ms_push st [10; 10]%N
  | _ => ms_push st [10; 10]%N
  end.

Definition k_md_code_open : bytes := [10; 10; 32; 32; 96; 96; 96; 116; 101; 120; 116; 10]%N.   (* "\n\n  ```text\n" *)
Definition k_md_code_close_nl : bytes := [10; 32; 32; 96; 96; 96; 10]%N.                      (* "\n  ```\n" *)
Definition k_md_code_close : bytes := [32; 32; 96; 96; 96; 10]%N.                             (* "  ```\n" *)
Definition k_md_mdash : bytes := [32; 38; 109; 100; 97; 115; 104; 59; 32]%N.                  (* " &mdash; " *)

Definition md_escape_brackets (s : bytes) : bytes :=
  flat_map (fun c => if (c =? 91)%N then [92; 91]%N else if (c =? 93)%N then [92; 93]%N else [c]) s.

(* the chunks of one text token; returns the state and whether Skip was enabled (the loop was left) *)
Fixpoint md_chunks (full : bool) (cs : list chunk) (st : mstate) : mstate * bool :=
  match cs with
  | [] => (st, false)
  | CRaw s w :: t =>
    if (w =? W_TICKED)%N then
      md_chunks full t (ms_push (ms_push (ms_push (md_new_line st) [32; 32]%N) s) [10%N])
    else if (w =? W_CODE)%N then
      let st1 := if ms_code st then st else ms_push st k_md_code_open in
      md_chunks full t (ms_push (ms_push (ms_push (ms_set_code st1 true) [32; 32]%N) s) [10%N])
    else
      let st1 := if ms_code st then ms_set_code (ms_push st k_md_code_close_nl) false else st in
      md_chunks full t (ms_push st1 (if Z.ltb 0 (ms_mono st1) then md_escape_brackets s else s))
  | CPara :: t =>
    if full then
      let st1 := ms_push st [10; 10]%N in
      md_chunks full t (if ms_deflist st then ms_push st1 [32; 32]%N else st1)
    else (st, true)
  | CBreak :: t => md_chunks full t (ms_push st [10%N])
  end.

(* one token (`next`: the token after it, for the empty-term test); None = todo!() (Block::Meta) *)
Definition md_step (full : bool) (st : mstate) (t : dtoken) (next : option dtoken) : option mstate :=
  match t with
  | TText sty s =>
    if Nat.ltb O (ms_skip st) then Some st
    else
      let st1 := md_style st (styles_of sty) in
      let '(st2, k) := md_chunks full (split true s) st1 in
      let st3 := if k then ms_set_skip st2 1 else st2 in
      Some (if ms_code st3 then ms_set_code (ms_push st3 k_md_code_close) false else st3)
  | TStart b =>
    let st1 := md_style st st_default in
    match b with
    | BMeta => None
    | BHeader =>
      let st2 := md_blank_line st1 in
      Some (if ms_app st2 then ms_push st2 [35; 35; 32]%N else ms_set_app (ms_push st2 [35; 32]%N) true)
    | BSection2 => Some st1
    | BItemTerm =>
      let st2 := md_new_line st1 in
      let e := match next with Some (TEnd BItemTerm) => true | _ => false end in
      Some (ms_push (ms_set_eterm st2 e) (if e then [32; 32]%N else [45; 32]%N))
    | BItemBody =>
      let st2 := if ms_deflist st1 then ms_push st1 (if ms_empty_term st1 then [32%N] else k_md_mdash) else st1 in
      Some (ms_push (md_new_line st2) [32; 32]%N)
    | BDefinitionList => Some (ms_set_deflist st1 true)
    | BBlock => Some (ms_push st1 [10%N])
    | BMono => Some (ms_set_mono st1 (ms_mono st1 + 1)%Z)
    | BSection3 => Some (ms_push st1 [35; 35; 35; 32]%N)
    | BTermRef => Some st1
    | BInlineBlock => Some (if Nat.ltb O (ms_skip st1) then ms_set_skip st1 (S (ms_skip st1)) else st1)
    end
  | TEnd b =>
    let st1 := md_style st st_default in
    match b with
    | BMeta => None
    | BHeader | BBlock | BSection3 | BSection2 => Some (ms_push st1 [10%N])
    | BInlineBlock => Some (ms_set_skip st1 (Nat.pred (ms_skip st1)))
    | BItemTerm | BTermRef => Some st1
    | BItemBody => Some (if ms_deflist st1 then ms_push st1 [10%N] else st1)
    | BDefinitionList => Some (ms_push (ms_set_deflist st1 false) [10%N])
    | BMono => Some (ms_set_mono st1 (ms_mono st1 - 1)%Z)
    end
  end.

Fixpoint md_run (full : bool) (st : mstate) (d : doc) : option mstate :=
  match d with
  | [] => Some (md_style st st_default)
  | t :: d' =>
    match md_step full st t (hd_error d') with
    | None => None
    | Some st' => md_run full st' d'
    end
  end.

Definition render_markdown (full : bool) (d : doc) : option bytes :=
  option_map (fun st => rev (ms_out st)) (md_run full ms_init d).

(* ================================================================== roff *)
Inductive esc := EUnescNl | ESpaces | ESpecial | ESpecialNoNl | EUnesc.
Definition esc_eqb (a b : esc) : bool :=
  match a, b with
  | EUnescNl, EUnescNl | ESpaces, ESpaces | ESpecial, ESpecial | ESpecialNoNl, ESpecialNoNl | EUnesc, EUnesc => true
  | _, _ => false
  end.
Definition frag := (esc * bytes)%type.

(* where an output byte comes from *)
Inductive origin :=
| OCtl      (* the `.` of a request, the preamble *)
| OFix      (* bpaf's fixed vocabulary: request names, font escapes, separators *)
| OIns      (* inserted by the escaping: `\&`, `\`, `\*(Aq`, `\ `, the newline before a request *)
| OUser.    (* a byte of user text, passed through *)
Definition tbyte := (N * origin)%type.

Definition c_dot : N := 46%N.
Definition c_apos : N := 39%N.
Definition c_bsl : N := 92%N.
Definition c_minus : N := 45%N.
Definition tag (o : origin) (s : bytes) : list tbyte := map (fun c => (c, o)) s.
Definition apostrophe : bytes := k_aq.

(* one payload byte in mode `m` (Apostrophes::Handle): (output, at_line_start afterwards) *)
Definition esc_byte (m : esc) (at_start : bool) (c : N) : list tbyte * bool :=
  match m with
  | ESpaces =>
    if (c =? 32)%N || (c =? 10)%N then (tag OIns [c_bsl; 32%N], (c =? 10)%N)
    else if (c =? c_bsl)%N then ([(c_bsl, OIns); (c, OUser)], false)
    else ([(c, OUser)], false)
  | ESpecial | ESpecialNoNl =>
    let pre1 := if at_start && ((c =? c_dot)%N || (c =? c_apos)%N) then tag OIns [c_bsl; 38%N] else [] in
    let pre2 := if (c =? c_bsl)%N || (c =? c_minus)%N then [(c_bsl, OIns)] else [] in
    if (c =? c_apos)%N then (pre1 ++ pre2 ++ tag OIns apostrophe, false)
    else if esc_eqb m ESpecialNoNl && (c =? 10)%N then (pre1 ++ pre2 ++ [(32%N, OIns)], false)
    else (pre1 ++ pre2 ++ [(c, OUser)], (c =? 10)%N)
  | EUnesc => ([(c, OFix)], (c =? 10)%N)
  | EUnescNl => ([(c, OCtl)], (c =? 10)%N)
  end.

Fixpoint esc_bytes (m : esc) (at_start : bool) (s : bytes) : list tbyte * bool :=
  match s with
  | [] => ([], at_start)
  | c :: t =>
    let '(o1, a1) := esc_byte m at_start c in
    let '(o2, a2) := esc_bytes m a1 t in
    (o1 ++ o2, a2)
  end.

Fixpoint escape_go (at_start : bool) (fs : list frag) : list tbyte :=
  match fs with
  | [] => []
  | (m, p) :: t =>
    let nlb := negb at_start && esc_eqb m EUnescNl in
    let '(o, a) := esc_bytes m (if nlb then true else at_start) p in
    (if nlb then [(10%N, OIns)] else []) ++ o ++ escape_go a t
  end.

Definition preamble : bytes := k_preamble1 ++ [10%N] ++ k_preamble2 ++ [10%N].

Definition roff_render_tagged (fs : list frag) : list tbyte := tag OCtl preamble ++ escape_go true fs.
Definition roff_render (fs : list frag) : bytes := map fst (roff_render_tagged fs).

(* Roff builder *)
Definition r_control (name : bytes) (args : list bytes) : list frag :=
  [(EUnescNl, [c_dot]); (EUnesc, name)] ++
  flat_map (fun a => [(EUnesc, [32%N]); (ESpaces, if is_nil a then k_empty_arg else a)]) args ++
  [(EUnescNl, [])].
Definition r_control0 (name : bytes) : list frag := [(EUnescNl, [c_dot]); (EUnesc, name); (EUnescNl, [])].
Definition r_linebreak : list frag := [(EUnescNl, [])].
Inductive font := FRoman | FBold | FItalic.
Definition font_esc (f : font) : bytes :=
  match f with FBold => k_font_b | FItalic => k_font_i | FRoman => k_font_r end.
Definition restore_font : bytes := k_font_p.
Definition r_text (strip : bool) (f : font) (s : bytes) : list frag :=
  [(EUnesc, font_esc f); (if strip then ESpecialNoNl else ESpecial, s); (EUnesc, restore_font)].
Definition font_of (s : style) : font :=
  match s with SText => FRoman | SEmphasis | SLiteral => FBold | SMetavar | SInvalid => FItalic end.

Record rstate := mkRS { rs_strip : bool; rs_capture : bytes; rs_capturing : bool }.

(* one token of Doc::render_roff: None = todo!() panic (Block::TermRef) *)
Definition roff_step (st : rstate) (t : dtoken) : option (list frag * rstate) :=
  match t with
  | TText sty s =>
    if rs_capturing st then Some ([], mkRS (rs_strip st) (rs_capture st ++ s) true)
    else Some ((match sty with SEmphasis => r_control0 (k_SS) | _ => [] end) ++ r_text (rs_strip st) (font_of sty) s, st)
  | TStart b =>
    match b with
    | BHeader | BSection2 | BSection3 => Some ([], mkRS (rs_strip st) (rs_capture st) true)
    | BItemTerm => Some (r_control0 (k_TP), mkRS true (rs_capture st) (rs_capturing st))
    | BBlock => Some (r_control0 (k_PP), st)
    | BMeta => Some (r_control0 (k_nf), st)
    | BTermRef => None
    | _ => Some ([], st)
    end
  | TEnd b =>
    match b with
    | BHeader => Some (r_control (k_SH) [map upper_ascii (rs_capture st)], mkRS (rs_strip st) [] false)
    | BSection2 | BSection3 => Some (r_control (k_SS) [map upper_ascii (rs_capture st)], mkRS (rs_strip st) [] false)
    | BItemTerm => Some (r_linebreak, mkRS false (rs_capture st) (rs_capturing st))
    | BItemBody => Some (r_control0 (k_PP), mkRS false (rs_capture st) (rs_capturing st))
    | BMeta => Some (r_control0 (k_fi), st)
    | BTermRef => None
    | _ => Some ([], st)
    end
  end.

Fixpoint roff_frags (st : rstate) (d : doc) : option (list frag) :=
  match d with
  | [] => Some []
  | t :: d' =>
    match roff_step st t with
    | None => None
    | Some (fs, st') => match roff_frags st' d' with Some r => Some (fs ++ r) | None => None end
    end
  end.

Definition rs_init : rstate := mkRS false [] false.

(* Doc::render_roff after `.TH th...` *)
Definition render_roff_frags (th : list bytes) (d : doc) : option (list frag) :=
  option_map (fun fs => r_control (k_TH) th ++ fs) (roff_frags rs_init d).
Definition render_roff (th : list bytes) (d : doc) : option bytes :=
  option_map roff_render (render_roff_frags th d).

(* render_manpage(app, Section::General, None, None, None) *)
Definition manpage_th (app : bytes) : list bytes := [app; k_one; k_dash; k_dash; []].
