(* Extract.v -- extraction of the executable model to OCaml (ExtrOcamlBasic only). *)
From Coq Require Extraction ExtrOcamlBasic.
From BpafModel Require Import Eval Wf Menu Console Process Shell Complete Help Docs Message Conv Derive CompEval.
Extraction "model.ml" run_inner run_inner_state guard_menu parse_menu map_menu any_menu
  default_info default_help_arg default_version_arg convert tokenize split_os_argument
  utf8_decode utf8_encode invariant_ok check_invariants_ok meta_of short_tables initial_state
  render_console program_name render_zsh render_bash render_fish render_simple arg_matches cmd_matches complete
  render_help info_meta
  collect_html manpage_doc render_html render_markdown render_roff manpage_th
  denote compile_options flat_okb chain_okb tree_okb plain_cmds oko
  derive_field to_kebab_case unit_variant_names command_name group_help_of options_help
  eval outcome_of c_run_inner c_run_inner_state erase erase_o completer_menu marker_rev lit_items c_initial_state render_message_text render_doc_text utf8_valid arg_os.
