(* C19 -- Adjacent groups consume contiguous blocks only.
   Property theorems only; proofs live in Lemmas/.
   `ev_inscope ev` = the group's member parser keeps its scope and consumes only inside it; it is
   proved below for the shapes the property quantifies over (flags, arguments, positionals under optional
   / many / some / count / last / fallback / guard / parse / map / hide, combined by construct!). *)
From BpafModel Require Import Wf.
From BpafLemmas Require Import Tac Find Reach Ledger NoLoss C05Lemmas AdjLaws AdjTotal.

(* The block theorem.  If `construct!(..).adjacent()` yields a value, there is ONE interval [a, b)
   of the line such that every item of it that was available is consumed by the group, nothing
   outside it is consumed, and the enclosing scope is handed back unchanged: the value is never
   pieced together from non-neighbouring items. *)
Theorem C19_contiguous :
  forall ev fi s v s',
    ev_inscope ev -> lenwf s ->
    eval_adjacent ev fi s = (ROk v, s') ->
    exists a b,
      (forall i, a <= i < b -> live s i -> ~ live s' i) /\
      (forall i, live s i -> ~ live s' i -> a <= i < b) /\
      same_scope s s'.
Proof. exact eval_adjacent_block. Qed.
Print Assumptions C19_contiguous.

(* ... and the block starts at the start offset that succeeded (the group's first item) *)
Theorem C19_block_starts_at_first_item :
  forall ev orig width start best v fin,
    ev_inscope ev -> lenwf orig ->
    adj_try ev orig width start best = AReturn v fin ->
    exists b,
      (forall i, start <= i < b -> live orig i -> ~ live fin i) /\
      (forall i, live orig i -> ~ live fin i -> start <= i < b) /\
      same_scope orig fin.
Proof. exact adj_try_block. Qed.
Print Assumptions C19_block_starts_at_first_item.

(* which block: the start offsets (available items of the scope, left to right: C19_starts_left_to_right) are
   tried in order and the value comes from the FIRST one at which the group parses -- so repeating the group
   yields one value per block in command-line order *)
Theorem C19_first_start_wins :
  forall ev orig width starts best v fin,
    adj_outer ev orig width starts best = (ROk v, fin) ->
    exists before start after best',
      starts = before ++ start :: after /\
      adj_try ev orig width start best' = AReturn v fin /\
      (forall st, In st before -> exists b0 b1, adj_try ev orig width st b0 = ANext b1).
Proof. exact adj_outer_first. Qed.
Print Assumptions C19_first_start_wins.

Theorem C19_starts_left_to_right :
  forall s width i j a b,
    nth_error (adj_starts s width) i = Some a -> nth_error (adj_starts s width) j = Some b -> i < j -> a < b.
Proof. exact adj_starts_sorted. Qed.
Print Assumptions C19_starts_left_to_right.

(* the window handed to an adjacent command / trimmed for a group is a run of live items *)
Theorem C19_window_live :
  forall s start,
    fst (adjacently_available_from s start) = start /\
    forall i, start <= i < snd (adjacently_available_from s start) -> live s i.
Proof. exact adjacently_available_live. Qed.
Print Assumptions C19_window_live.

(* the return condition of the retry loop: nothing available is left inside the final window *)
Theorem C19_return_condition :
  forall ta orig, lenwf ta -> adjacent_scope ta orig = ASNone ->
    forall i, sc_start ta <= i < sc_end ta -> ~ (live ta i /\ live orig i).
Proof. exact adjacent_scope_none. Qed.
Print Assumptions C19_return_condition.

(* the hypothesis is met by the groups of the property's quantifier *)
Theorem C19_members_inscope :
  forall env,
    (forall n p a, ev_inscope (eval_flag env n p a)) /\
    (forall n mv ty adj, ev_inscope (eval_arg env n mv ty adj)) /\
    (forall mv ty pos help, ev_inscope (eval_pos mv ty pos help)) /\
    (forall mv help check anywhere, ev_inscope (eval_any mv help check anywhere)) /\
    (forall ev c, ev_inscope ev -> ev_inscope (optional_body ev c)) /\
    (forall ev c m, ev_inscope ev -> ev_inscope (guard_body ev c m)) /\
    (forall ev f, ev_inscope ev -> ev_inscope (parse_body ev f)) /\
    (forall ev f, ev_inscope ev -> ev_inscope (map_body ev f)) /\
    (forall ev c, ev_inscope ev -> ev_inscope (many_body ev c)) /\
    (forall ev m c, ev_inscope ev -> ev_inscope (some_body ev m c)) /\
    (forall ev, ev_inscope ev -> ev_inscope (count_body ev)) /\
    (forall ev, ev_inscope ev -> ev_inscope (last_body ev)) /\
    (forall ev fb, ev_inscope ev -> ev_inscope (fallback_with_body ev fb)) /\
    (forall ev, ev_inscope ev -> ev_inscope (hide_body ev)) /\
    (forall eva evb, ev_inscope eva -> ev_inscope evb -> ev_inscope (or_body eva evb)) /\
    (forall ff evs, Forall ev_inscope evs -> ev_inscope (con_body ff evs)).
Proof.
  intros env.
  split; [intros; apply eval_flag_inscope|].
  split; [intros; apply eval_arg_inscope|].
  split; [intros; apply eval_pos_inscope|].
  split; [intros; apply eval_any_inscope|].
  split; [intros; apply optional_inscope; assumption|].
  split; [intros; apply guard_inscope; assumption|].
  split; [intros; apply parse_inscope; assumption|].
  split; [intros; apply map_inscope; assumption|].
  split; [intros; apply many_inscope; assumption|].
  split; [intros; apply some_inscope; assumption|].
  split; [intros; apply count_inscope; assumption|].
  split; [intros; apply last_inscope; assumption|].
  split; [intros; apply fallback_with_inscope; assumption|].
  split; [intros; apply hide_inscope; assumption|].
  split; [intros; apply or_inscope; assumption|].
  intros; apply con_inscope; assumption.
Qed.
Print Assumptions C19_members_inscope.

(* ... and by groups themselves: a group -- whatever its member parser does inside the windows the group opens, on
   success, on failure (the caller's scope is handed back: fix: commit) and on the panic exits -- keeps the caller's scope
   and ledger length and consumes only inside the caller's scope.  So a group can be a member of a group: the block
   theorems above hold for NESTED groups (AdjTotal.v, invariant W: a window's state differs from the caller's only
   inside the caller's scope, and its available items lie inside it) *)
Theorem C19_group_is_a_member :
  forall ev, ev_inscope ev -> ev_reach (fun _ => True) ev -> forall fi, ev_inscope (eval_adjacent ev fi).
Proof. exact adjacent_inscope. Qed.
Print Assumptions C19_group_is_a_member.

Theorem C19_every_member_inscope :
  forall env p, memb p = true -> ev_inscope (eval env p).
Proof. exact (fun env => proj1 (memb_inscope env)). Qed.
Print Assumptions C19_every_member_inscope.

(* repeated groups: blocks in command-line order, and an interrupted block is not a value *)
Example C19_example :
  let pt := PAdj (PCons (PFlag (mkNamed [] [[112]%N] [] None) VUnit None)
                 (PCons (PPos [88%N] TyString Unrestricted None)
                 (PCons (PPos [89%N] TyString Unrestricted None) PNil))) in
  let p := PCon (PCons (PFlag (mkNamed [99%N] [] [] None) (VBool true) (Some (VBool false)))
                (PCons (PMany pt false) PNil)) in
  let o := Options p default_info in
  run_inner (mkFeat true true false) (fun _ => None) o None
            [[45;45;112]%N; [49]%N; [50]%N; [45;99]%N; [45;45;112]%N; [51]%N; [52]%N]
  = OutOk (VTuple [VBool true; VList [VTuple [VUnit; VBytes [49%N]; VBytes [50%N]];
                                      VTuple [VUnit; VBytes [51%N]; VBytes [52%N]]]]) /\
  (exists m, run_inner (mkFeat true true false) (fun _ => None) o None
               [[45;45;112]%N; [49]%N; [45;99]%N; [50]%N] = OutStderr m).
Proof. split; [|eexists]; vm_compute; reflexivity. Qed.
