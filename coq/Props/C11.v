(* C11 -- Outcome classes map to streams and exit status.
   Property theorems only; proofs live in Lemmas/.  PARTIAL by nature: the theorems are about the
   model's process_of / process_run (the logic of run, print_message, exit_code, current_args);
   that a real child process behaves so is established by the tie (children are spawned and
   compared), because write(2), buffering and process::exit live in the OS. *)
From Coq Require Import List NArith ZArith.
From BpafModel Require Import Process Message.
From BpafLemmas Require Import ProcLaws QuietLaws MessageLaws.
Import ListNotations.

(* Status: 0 exactly for value / help / version / completion, 1 exactly for a parse failure.
   exit_code is regenerated from src/error.rs on every run. *)
Theorem C11_status :
  forall tso tse o p, process_of tso tse o = Some p ->
    (p_status p = 0%Z <-> (exists v, o = OutOk v) \/ (exists h, o = OutStdout h) \/ (exists s, o = OutCompletion s)) /\
    (p_status p = 1%Z <-> exists m, o = OutStderr m).
Proof. exact status_table. Qed.
Print Assumptions C11_status.

(* Streams: help/version/completion on stdout only; failures on stderr only, prefixed "Error: ",
   never empty; a value prints nothing. *)
Theorem C11_streams :
  forall tso tse o p, process_of tso tse o = Some p ->
    match o with
    | OutOk v => p_stdout p = [] /\ p_stderr p = [] /\ p_body p = Some v
    | OutStdout h => p_stdout p = tso h ++ [c_nl] /\ p_stderr p = [] /\ p_body p = None
    | OutCompletion s => p_stdout p = s /\ p_stderr p = [] /\ p_body p = None
    | OutStderr m =>
      p_stdout p = [] /\ p_stderr p = error_prefix ++ tse m ++ [c_nl] /\ p_stderr p <> [] /\ p_body p = None
    | _ => False
    end.
Proof. exact streams. Qed.
Print Assumptions C11_streams.

(* the program body is reached iff run_inner produced a value *)
Theorem C11_body_iff_value :
  forall tso tse o p v, process_of tso tse o = Some p -> (p_body p = Some v <-> o = OutOk v).
Proof. exact body_iff_value. Qed.
Print Assumptions C11_body_iff_value.

Theorem C11_failure_message_nonempty :
  forall tso tse m p, process_of tso tse (OutStderr m) = Some p ->
    p_stdout p = [] /\ exists rest, p_stderr p = error_prefix ++ rest.
Proof. exact failure_message_nonempty. Qed.
Print Assumptions C11_failure_message_nonempty.

(* the program name is the file name of argv[0] when that is valid UTF-8, nothing otherwise *)
Theorem C11_name :
  forall argv0 n, program_name argv0 = Some n <->
    exists p, argv0 = Some p /\ file_name p = Some n /\ utf8_valid n = true.
Proof. exact program_name_spec. Qed.
Print Assumptions C11_name.

(* every parse failure goes to stderr with a NON-EMPTY message: the document Message::render builds
   (Model/Message.v, compared byte for byte with the library on every run) has text, for every kind of message
   -- unless the text is the user's own (`some("")`, `fail("")`, a `fallback_with` error), which is printed
   verbatim *)
Theorem C11_message_not_empty :
  forall r s d,
    render_doc r s = Some d ->
    match r with
    | RPlain (MsgParseSome _) | RPlain (MsgParseFail _) | RPlain (MsgPureFailed _) | RPlain (MsgMissing _)
    | RPlain (MsgParseFailure _) => False
    | _ => True
    end ->
    doc_text d <> [].
Proof. exact message_nonempty. Qed.
Print Assumptions C11_message_not_empty.

Example C11_name_examples :
  program_name (Some [47;117;115;114;47;98;105;110;47;109;121;46;116;111;111;108]%N) = Some [109;121;46;116;111;111;108]%N /\
  program_name (Some [255;97]%N) = None /\ program_name (Some []) = None /\
  program_name (Some [120;47;46;46]%N) = None /\ program_name (Some [100;105;114;47]%N) = Some [100;105;114]%N.
Proof. repeat split; vm_compute; reflexivity. Qed.

(* "every parse failure goes to stderr": for EVERY definition (adjacent groups and adjacent commands included) whose
   option levels carry an Info like the default one (`-h/--help`, no version, no fallback_to_usage), on a line that
   holds no help flag the outcome is a value or a failure on stderr -- never a document on stdout and
   never completion output; in particular every failure handed outward by a subcommand is one.
   (With fallback_to_usage or a version flag the same holds for lines that hold no such request and
   are not empty; that is decided per run: the oracle demands a request for every stdout outcome.) *)
Theorem C11_no_request_no_stdout_partial :
  forall feat env o name argv,
    dinfo_o o ->
    no_help_token (tokenize (fst (short_tables o)) (snd (short_tables o)) argv) ->
    match run_inner feat env o name argv with OutStdout _ | OutCompletion _ => False | _ => True end.
Proof. exact run_quiet_every. Qed.
Print Assumptions C11_no_request_no_stdout_partial.
