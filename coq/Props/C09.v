(* C09 -- `--` ends option processing; strict positionals honour it.
   Property theorems only; proofs live in Lemmas/. *)
From BpafLemmas Require Import Tac TokLaws LeafLaws Reach C05Lemmas.

(* Tokens of  pre ++ [--] ++ post : the items of pre tokenize as they would alone, the separator is
   the pre-consumed marker, and EVERY later item -- `-x`, `--y`, `--`, anything -- is a PosWord
   carrying its bytes verbatim. *)
Theorem C09_tokens :
  forall sf sa pre post toks,
    pre_tokens sf sa pre = Some toks ->
    tokenize sf sa (pre ++ dashdash :: post) =
    mkTok (toks ++ PosWord dashdash :: map PosWord post) (Some (length toks)) None.
Proof. exact tokenize_dashdash. Qed.
Print Assumptions C09_tokens.

(* A PosWord is accepted by positional consumers only (and the `any` escape hatch): never as a flag,
   an argument name, an argument value, a subcommand or a help/version request. *)
Theorem C09_posword_inert :
  forall k w, accepts k (PosWord w) = true -> k = KPos \/ k = KAny.
Proof. exact posword_not_named. Qed.
Print Assumptions C09_posword_inert.

(* ... and in a run that yields a value, whoever claimed an item standing to the right of `--`
   was a positional consumer; the separator itself was claimed by the tokenizer and nobody else,
   so it is never delivered as a value. (Consequence of C05_run_inner.) *)
Theorem C09_right_side_positional :
  forall K feat env o name argv v s',
    okinds_ok K o ->
    run_inner_state feat env o name argv = (SOk v, s') ->
    forall i k w, In (i, k) (log s') -> nth_error (items s') i = Some (PosWord w) ->
                  k = KTok \/ k = KPos \/ k = KAny.
Proof.
  intros K feat env o name argv v s' Hk H i k w Hin Hn.
  destruct (run_inner_exactly_once K feat env o name argv v s' Hk H) as (_ & _ & He).
  destruct (He i k Hin) as (_ & [->|[_ Ha]]); [auto|].
  right. apply (posword_not_named k w). apply Ha. exact Hn.
Qed.
Print Assumptions C09_right_side_positional.

Theorem C09_separator_never_value :
  forall K feat env o name argv v s',
    okinds_ok K o ->
    run_inner_state feat env o name argv = (SOk v, s') ->
    forall m, t_marker (tokenize (fst (short_tables o)) (snd (short_tables o)) argv) = Some m ->
              In (m, KTok) (log s') /\ forall k, In (m, k) (log s') -> k = KTok.
Proof. exact run_inner_marker. Qed.
Print Assumptions C09_separator_never_value.

(* What a positional returns: the bytes of the token it took, converted; and which side of `--`
   that token came from, per strictness. *)
Theorem C09_strictness :
  forall mv ty pos help s v s',
    eval_pos mv ty pos help s = (ROk v, s') ->
    exists ix w,
      find_item s (fun _ a => match a with Word _ | PosWord _ => true | _ => false end) = Some ix /\
      convert ty w = inl v /\ s' = sremove KPos ix s /\
      match pos with
      | Strict => nth_error (items s) ix = Some (PosWord w)
      | NonStrict => nth_error (items s) ix = Some (Word w)
      | Unrestricted => nth_error (items s) ix = Some (Word w) \/ nth_error (items s) ix = Some (PosWord w)
      end.
Proof. exact eval_pos_ok. Qed.
Print Assumptions C09_strictness.

Theorem C09_strict_error_final :
  forall mv ty help s ix w,
    find_item s (fun _ a => match a with Word _ | PosWord _ => true | _ => false end) = Some ix ->
    nth_error (items s) ix = Some (Word w) ->
    fst (eval_pos mv ty Strict help s) = RErr (MsgStrictPos ix mv) /\
    can_catch (MsgStrictPos ix mv) = false.
Proof. exact strict_wrong_side. Qed.
Print Assumptions C09_strict_error_final.

Theorem C09_nonstrict_error_catchable :
  forall mv ty help s ix w,
    find_item s (fun _ a => match a with Word _ | PosWord _ => true | _ => false end) = Some ix ->
    nth_error (items s) ix = Some (PosWord w) ->
    fst (eval_pos mv ty NonStrict help s) = RErr (MsgNonStrictPos ix mv) /\
    can_catch (MsgNonStrictPos ix mv) = true.
Proof. exact nonstrict_wrong_side. Qed.
Print Assumptions C09_nonstrict_error_catchable.

(* `--name --` : the separator is never taken as the value of an argument *)
Theorem C09_no_value_from_separator :
  forall n adj s k,
    find_item s (fun _ a => matches_arg n adj a) = Some k ->
    (forall w, get s (S k) <> Some (Word w) /\ get s (S k) <> Some (ArgWord w)) ->
    take_arg n adj s = TAErr k.
Proof. exact take_arg_no_value. Qed.
Print Assumptions C09_no_value_from_separator.

Example C09_example :
  tokenize [97%N] [] [[45;97]%N; [45;45]%N; [45;97]%N; [45;45]%N] =
  mkTok [Short 97%N false [45;97]%N; PosWord [45;45]%N; PosWord [45;97]%N; PosWord [45;45]%N]
        (Some 1) None.
Proof. vm_compute. reflexivity. Qed.
