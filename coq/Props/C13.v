(* C13 -- Console rendering never loses text and respects the width.
   Property theorems only; proofs live in Lemmas/.  The model (Model/Console.v) is a transcription of
   src/buffer/splitter.rs and src/buffer/console.rs, tied to the code by rendering the same token
   lists at the same widths on every run. *)
From Coq Require Import List NArith.
From BpafModel Require Import Console.
From BpafLemmas Require Import ConsoleLaws WidthLaws.
Import ListNotations.

(* Content preservation: for EVERY document (any token list, any text), both forms, and ANY two
   widths (in particular any width and "unwrapped"), the two renderings are identical once
   whitespace is removed: wrapping never drops, duplicates or reorders a character. *)
Theorem C13_content :
  forall docgen full w1 w2 d o1 o2,
    render_console docgen full w1 d = Some o1 ->
    render_console docgen full w2 d = Some o2 ->
    strip o1 = strip o2.
Proof. exact render_content. Qed.
Print Assumptions C13_content.

(* the step the proof rests on: one word contributes exactly its own non-blank characters, whatever
   the width, the column and the pending flags *)
Theorem C13_word_step :
  forall mw s w st,
    strip (rres (raw_step mw s w st)) = rev (strip s) ++ strip (rres st) /\
    skip (raw_step mw s w st) = skip st.
Proof. exact raw_step_content. Qed.
Print Assumptions C13_word_step.

(* The short form shows exactly the first paragraph of a text: chunks up to the first paragraph
   break, then skipping is switched on ... *)
Theorem C13_short_is_first_paragraph :
  forall mw cs st,
    chunks_step false mw cs st =
    let st' := chunks_step true mw (until_para cs) st in
    if has_para cs
    then mkCR (nl :: rres st') 0%N 1 (margins st') (pend_nl st') (pend_blank st') (pend_margin st') (cpanic st')
    else st'.
Proof. exact short_is_first_paragraph. Qed.
Print Assumptions C13_short_is_first_paragraph.

(* ... and while skipping, text contributes nothing *)
Theorem C13_skipping_ignores_text :
  forall docgen full mw ts st sty s,
    skip st <> 0 -> token_step docgen full mw ts st (CText sty s) = st.
Proof. exact skipping_ignores_text. Qed.
Print Assumptions C13_skipping_ignores_text.

(* A help text as a whole: it is embedded as an inline block of text tokens (Doc::doc).  In the short
   form the block shows the texts before the first paragraph break and the first paragraph of the text
   holding the break (short_texts); everything after it is skipped ... *)
Theorem C13_short_help_text :
  forall docgen mw ts d st,
    skip st = 0 ->
    fold_left (token_step docgen false mw ts) (texts d) st = short_texts docgen mw d st.
Proof. exact short_block. Qed.
Print Assumptions C13_short_help_text.

(* ... and the end of the block switches skipping off again: the next help text starts afresh *)
Theorem C13_short_help_text_closes :
  forall docgen mw ts d st,
    skip st = 0 ->
    skip (fold_left (token_step docgen false mw ts) (CStart BInlineBlock :: texts d ++ [CEnd BInlineBlock]) st) = 0.
Proof. exact short_block_closes. Qed.
Print Assumptions C13_short_help_text_closes.

(* REFUTED for help texts that embed a further document holding the paragraph break: the inner block's
   end forgets the break (the counter counts only blocks opened while skipping), and the text after the
   inner block -- part of the second paragraph, see the full form -- is shown in the short form.
   Witness replayed on the implementation: KNOWN_FINDINGS C13-para-break-inside-embedded-doc. *)
Theorem C13_short_nested_refuted :
  exists d : cdoc,
    let a := 97%N in let b := 98%N in let c := 99%N in
    render_console false true 100%N d = Some [a; 10; b; c]%N /\
    render_console false false 100%N d = Some [a; 10; c]%N.
Proof. eexists. exact short_nested_witness. Qed.
Print Assumptions C13_short_nested_refuted.

(* The renderer returns for EVERY document, form and width (after the fix: commit efdd257 -- before it a
   margin above 50 columns, reached by blocks nested about eighteen deep, made `PADDING[..missing]`
   panic; found while stating this theorem: the model carried the panic as an outcome) *)
Theorem C13_render_returns :
  forall docgen full mw d, render_console docgen full mw d <> None.
Proof. exact render_console_returns. Qed.
Print Assumptions C13_render_returns.

(* The width clause.  FULL STATEMENT (kept visible; decided on the implementation's text by the oracle
   and the differential run): for 40 <= w every output line has at most w + 2 characters unless it is
   a code line or what follows its indentation / term is a single unbreakable word.
   PROVED, for every width (not only >= 40), about every state the renderer passes through:
   (1) the column counter the wrapping decision uses is never below the length of the line being
       written (C13_column_dominates_line) -- so the decision is never taken on a stale column;
   (2) placing a word or a separating space leaves a line of at most w + 2 characters, unless the
       word starts at the margin (indentation, or the definition term padded to the tab stop, plus
       the two-column gutter) -- i.e. it is the single word that follows the indentation / term --
       or the line holds a preformatted code line (C13_width_word_partial);
   (3) the states of (2) include every state of every rendering (C13_render_states_reachable).
   NOT derived: the statement about the lines of the final text (a closed line is the current line
   of the state in which the line break was pushed; back-quotes of term references are appended
   without a width test, one character each). *)
Theorem C13_column_dominates_line :
  forall docgen full mw ts d k,
    texts_ok d ->
    let st := fold_left (token_step docgen full mw ts) (firstn k d) init_cr in
    (cur_len (rres st) <= char_pos st)%N.
Proof. exact column_dominates_line. Qed.
Print Assumptions C13_column_dominates_line.

Theorem C13_width_word_partial :
  forall mw st s,
    Reach mw st ->
    let st' := raw_step mw s (clen s) st in
    (cur_len (rres st') <= mw + 2 \/
     cur_len (rres st') <= cur_margin (margins st) + 2 + clen s \/
     W_CODE <= char_pos st')%N.
Proof. exact word_width. Qed.
Print Assumptions C13_width_word_partial.

Theorem C13_render_states_reachable :
  forall docgen full mw d, texts_ok d -> Reach mw (render_state docgen full mw d).
Proof. exact render_reach. Qed.
Print Assumptions C13_render_states_reachable.

(* every text the splitter is given yields chunks whose width is at least their length *)
Theorem C13_splitter_chunks :
  forall docgen s, (clen s <= W_CODE)%N -> Forall chunk_ok (split docgen s).
Proof. exact split_ok. Qed.
Print Assumptions C13_splitter_chunks.

Example C13_example :
  let d := [CStart BBlock; CText SText [104;101;108;108;111;32;119;111;114;108;100]%N; CEnd BBlock] in
  render_console true true 5%N d = Some [104;101;108;108;111;10;119;111;114;108;100;10]%N /\
  render_console true true 100%N d = Some [104;101;108;108;111;32;119;111;114;108;100;10]%N.
Proof. split; vm_compute; reflexivity. Qed.

(* the premises are met by ordinary documents, and the three cases of the width theorem occur:
   a word that fits, a word that wraps, a first word longer than the width *)
Example C13_example_width :
  let d := [CStart BBlock; CText SText [104;101;108;108;111;32;119;111;114;108;100]%N; CEnd BBlock] in
  texts_ok d /\
  render_console true true 8%N d = Some [104;101;108;108;111;10;119;111;114;108;100;10]%N /\
  render_console true true 3%N d = Some [104;101;108;108;111;10;119;111;114;108;100;10]%N.
Proof.
  split; [|split; vm_compute; reflexivity].
  intros sty s [H|[H|[H|[]]]]; inversion H; subst. vm_compute. discriminate.
Qed.
