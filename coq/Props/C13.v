(* C13 -- Console rendering never loses text and respects the width.
   Property theorems only; proofs live in Lemmas/.  The model (Model/Console.v) is a transcription of
   src/buffer/splitter.rs and src/buffer/console.rs, tied to the code by rendering the same token
   lists at the same widths on every run. *)
From Coq Require Import List NArith.
From BpafModel Require Import Console.
From BpafLemmas Require Import ConsoleLaws.
Import ListNotations.

(* Content preservation: for EVERY document (any token list, any text), both forms, and ANY two
   widths (in particular any width and "unwrapped"), the two renderings are identical once
   whitespace is removed: wrapping never drops, duplicates or reorders a character. *)
Theorem C13_content :
  forall docgen full w1 w2 d o1 o2,
    render_console docgen full w1 d = Some o1 ->
    render_console docgen full w2 d = Some o2 ->
    strip o1 = strip o2.
Proof. exact render_content. Qed.
Print Assumptions C13_content.

(* the step the proof rests on: one word contributes exactly its own non-blank characters, whatever
   the width, the column and the pending flags *)
Theorem C13_word_step :
  forall mw s w st,
    strip (rres (raw_step mw s w st)) = rev (strip s) ++ strip (rres st) /\
    skip (raw_step mw s w st) = skip st.
Proof. exact raw_step_content. Qed.
Print Assumptions C13_word_step.

(* The short form shows exactly the first paragraph of a text: chunks up to the first paragraph
   break, then skipping is switched on ... *)
Theorem C13_short_is_first_paragraph :
  forall mw cs st,
    chunks_step false mw cs st =
    let st' := chunks_step true mw (until_para cs) st in
    if has_para cs
    then mkCR (nl :: rres st') 0%N 1 (margins st') (pend_nl st') (pend_blank st') (pend_margin st') (cpanic st')
    else st'.
Proof. exact short_is_first_paragraph. Qed.
Print Assumptions C13_short_is_first_paragraph.

(* ... and while skipping, text contributes nothing *)
Theorem C13_skipping_ignores_text :
  forall docgen full mw ts st sty s,
    skip st <> 0 -> token_step docgen full mw ts st (CText sty s) = st.
Proof. exact skipping_ignores_text. Qed.
Print Assumptions C13_skipping_ignores_text.

(* FULL STATEMENT of the width clause (kept visible; decided by the oracle and the differential run):
   for 40 <= w every output line has at most w + 2 characters unless it is a code line or what
   follows its indentation / term is a single unbreakable word. *)

Example C13_example :
  let d := [CStart BBlock; CText SText [104;101;108;108;111;32;119;111;114;108;100]%N; CEnd BBlock] in
  render_console true true 5%N d = Some [104;101;108;108;111;10;119;111;114;108;100;10]%N /\
  render_console true true 100%N d = Some [104;101;108;108;111;32;119;111;114;108;100;10]%N.
Proof. split; vm_compute; reflexivity. Qed.
