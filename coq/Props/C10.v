(* C10 -- Asking for help or version always wins and never runs the program.
   Property theorems only; proofs live in Lemmas/. *)
From BpafModel Require Import Wf.
From BpafLemmas Require Import Tac Reach Ledger NoLoss C05Lemmas OkReach OkLaws HelpLaws TotalLaws AdjLaws HelpWins.

(* Never a value: for EVERY parser, if the line holds a live item that none of the parser's own
   consumers accepts -- such as `--help`/`-h`/`--version`, or the configured replacements, whenever
   no item of the parser uses those names -- run_subparser / run_inner cannot yield a value.
   (The help/version lookups of Info are not consumers of the parser: a successful evaluation never
   keeps what they consumed.) *)
Theorem C10_never_value :
  forall env o s i a,
    opkinds_ok (fun k => accepts k a = false) o -> lenwf s -> full_scope s ->
    nth_error (items s) i = Some a -> live s i ->
    forall v s', run_sub env o s <> (SOk v, s').
Proof. exact unclaimable_item. Qed.
Print Assumptions C10_never_value.

Theorem C10_never_value_run_inner :
  forall feat env o name argv i a st amb,
    opkinds_ok (fun k => accepts k a = false) o ->
    initial_state o name argv = (st, amb) ->
    nth_error (items st) i = Some a -> live st i ->
    forall v, run_inner feat env o name argv <> OutOk v.
Proof. exact unclaimable_item_run_inner. Qed.
Print Assumptions C10_never_value_run_inner.

(* what a help token looks like to the consumers: only a flag/argument carrying that very name
   accepts it; positionals, commands (unless literally so named) and values do not *)
Theorem C10_help_token_acceptors :
  forall k l os, accepts k (Long l false os) = true ->
    (exists n, (k = KFlag n \/ k = KArgKey n) /\ mem_bytes l (n_long n) = true) \/
    (exists w, k = KCmd w /\ beqb os w = true) \/ k = KAny.
Proof. exact long_token_acceptors. Qed.
Print Assumptions C10_help_token_acceptors.

(* When the inner parser fails (or leaves items) and the help flag is live in the scope it left
   behind, the outcome is help for THIS level: its info, its meta, its path. *)
Theorem C10_help_found :
  forall env inf m s r s1 s2,
    (forall f, r <> RErr (MsgParseFailure f)) -> (forall w, r <> RPanic w) -> r <> RFuel ->
    (forall v, r = ROk v -> first_item_ix s1 <> None) ->
    (i_help_if_no_args inf && Nat.eqb (remaining s) 0 = false) ->
    take_flag (i_help_arg inf) s1 = Some s2 -> invariant_ok m = true ->
    exists detailed s3,
      run_sub_body env inf m s (r, s1) = (SFail (FStdout (HHelp (path s3) inf m detailed)), s3).
Proof. exact help_found. Qed.
Print Assumptions C10_help_found.

(* FULL STATEMENT for definitions without subcommands (`memb`: every other combinator, adjacent groups -- also nested
   ones -- included since the fix: commit that makes a failed group hand the caller's scope back;
   arbitrarily nested): if the help flag stands on the line as an item of its own -- and no item of the parser
   uses its names -- the outcome is the help of this level, WHATEVER else is missing, duplicated or malformed:
   only subcommands produce a ready-made failure, the parser neither panics nor loops (C04_total), nobody can
   consume the help item and the scope is kept, so Info::eval finds it; a successful parse has a leftover and
   `remaining` (exact) is not zero *)
Theorem C10_help_wins_without_subcommands :
  forall feat env p inf name argv st i a,
    memb p = true -> oko (Options p inf) = true ->
    kinds_ok (fun k => accepts k a = false) p ->
    initial_state (Options p inf) name argv = (st, None) ->
    nth_error (items st) i = Some a -> live st i ->
    matches_arg (i_help_arg inf) false a = true ->
    exists pth detailed,
      run_inner feat env (Options p inf) name argv = OutStdout (HHelp pth inf (meta_of p) detailed).
Proof. exact help_wins_run_inner. Qed.
Print Assumptions C10_help_wins_without_subcommands.

(* the same for one command level evaluated from any well-formed state (a subcommand's own parser) *)
Theorem C10_help_wins_level :
  forall env p inf s i a,
    memb p = true -> okp p = true -> invariant_ok (meta_of p) = true ->
    kinds_ok (fun k => accepts k a = false) p ->
    G s -> nth_error (items s) i = Some a -> live s i -> in_scope s i = true ->
    matches_arg (i_help_arg inf) false a = true ->
    exists detailed s3,
      run_sub env (Options p inf) s = (SFail (FStdout (HHelp (path s3) inf (meta_of p) detailed)), s3).
Proof. exact help_wins. Qed.
Print Assumptions C10_help_wins_level.

(* the version flag behaves the same way when a version was configured (and the help flag is not on the line) *)
Theorem C10_version_wins_level :
  forall env p inf s i a v,
    memb p = true -> okp p = true ->
    kinds_ok (fun k => accepts k a = false) p ->
    G s -> nth_error (items s) i = Some a -> live s i -> in_scope s i = true ->
    i_version inf = Some v -> matches_arg (i_version_arg inf) false a = true ->
    n_env (i_help_arg inf) = [] ->
    (forall j b, nth_error (items s) j = Some b -> live s j -> matches_arg (i_help_arg inf) false b = false) ->
    exists s3, run_sub env (Options p inf) s = (SFail (FStdout (HVersion v)), s3).
Proof. exact version_wins. Qed.
Print Assumptions C10_version_wins_level.

(* non-vacuity: a required argument is missing, a value is malformed, an unknown flag and a duplicate are on
   the line -- and `--help` *)
Example C10_example_help_wins :
  let p := PCon (PCons (PArg (mkNamed [] [[110]%N] [] None) [78%N] TyU32 false)
                (PCons (PFlag (mkNamed [118%N] [] [] None) (VBool true) (Some (VBool false)))
                (PCons (PArg (mkNamed [] [[114;101;113]%N] [] None) [82%N] TyString false) PNil))) in
  memb p = true /\ oko (Options p default_info) = true /\
  exists pth d,
    run_inner (mkFeat true true false) (fun _ => None) (Options p default_info) None
              [[45;45;110;61;120]%N; [45;118]%N; [45;118]%N; [45;45;98;111;103;117;115]%N; [45;45;104;101;108;112]%N]
    = OutStdout (HHelp pth default_info (meta_of p) d).
Proof. cbv zeta. split; [reflexivity|]. split; [vm_compute; reflexivity|]. eexists. eexists. vm_compute. reflexivity. Qed.

(* An incomplete adjacent group does not hide the request (after the fix: commit in /repo -- found while trying to extend
   the theorems above to groups: the state a failed group handed back kept the window of the failed attempt, which
   starts at the group's first item, so a help flag to its LEFT was not found and the run ended with `expected Y, pass
   --help for usage information`): a failed group hands back the caller's scope ... *)
Theorem C10_failed_group_gives_scope_back :
  forall ev fi s e s', eval_adjacent ev fi s = (RErr e, s') -> sc_start s' = sc_start s /\ sc_end s' = sc_end s.
Proof. exact adjacent_err_scope. Qed.
Print Assumptions C10_failed_group_gives_scope_back.

(* ... so that `--help --rect 1` (the group `--rect X Y` is incomplete) shows the help *)
Example C10_example_help_left_of_failed_group :
  let g := PAdj (PCons (PFlag (mkNamed [] [[114;101;99;116]%N] [] None) VUnit None)
                (PCons (PPos [88%N] TyU32 Unrestricted None) (PCons (PPos [89%N] TyU32 Unrestricted None) PNil))) in
  let p := PCon (PCons g (PCons (PFlag (mkNamed [118%N] [] [] None) (VBool true) (Some (VBool false))) PNil)) in
  exists pth d,
    run_inner (mkFeat true true false) (fun _ => None) (Options p default_info) None
              [[45;45;104;101;108;112]%N; [45;45;114;101;99;116]%N; [49]%N]
    = OutStdout (HHelp pth default_info (meta_of p) d).
Proof. cbv zeta. eexists. eexists. vm_compute. reflexivity. Qed.

(* The unrestricted statement ("regardless of what else is missing") is FALSE of the faithful
   model and of the code with subcommands: a sibling field of an enclosing level that fails first hides the request
   made inside a subcommand; the witness, replayed on the implementation = known finding C10-parent-field-fails-first.
   (The second class, an incomplete adjacent group, was repaired: C10_failed_group_gives_scope_back.) *)
Theorem C10_refuted_seq :
  exists o argv m,
    run_inner (mkFeat true true false) (fun _ => None) o None argv = OutStderr m.
Proof. exact refuted_seq. Qed.
Print Assumptions C10_refuted_seq.
