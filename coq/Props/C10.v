(* C10 -- Asking for help or version always wins and never runs the program.
   Property theorems only; proofs live in Lemmas/. *)
From BpafLemmas Require Import Tac Reach Ledger NoLoss C05Lemmas OkReach OkLaws HelpLaws.

(* Never a value: for EVERY parser, if the line holds a live item that none of the parser's own
   consumers accepts -- such as `--help`/`-h`/`--version`, or the configured replacements, whenever
   no item of the parser uses those names -- run_subparser / run_inner cannot yield a value.
   (The help/version lookups of Info are not consumers of the parser: a successful evaluation never
   keeps what they consumed.) *)
Theorem C10_never_value :
  forall env o s i a,
    opkinds_ok (fun k => accepts k a = false) o -> lenwf s -> full_scope s ->
    nth_error (items s) i = Some a -> live s i ->
    forall v s', run_sub env o s <> (SOk v, s').
Proof. exact unclaimable_item. Qed.
Print Assumptions C10_never_value.

Theorem C10_never_value_run_inner :
  forall feat env o name argv i a st amb,
    opkinds_ok (fun k => accepts k a = false) o ->
    initial_state o name argv = (st, amb) ->
    nth_error (items st) i = Some a -> live st i ->
    forall v, run_inner feat env o name argv <> OutOk v.
Proof. exact unclaimable_item_run_inner. Qed.
Print Assumptions C10_never_value_run_inner.

(* what a help token looks like to the consumers: only a flag/argument carrying that very name
   accepts it; positionals, commands (unless literally so named) and values do not *)
Theorem C10_help_token_acceptors :
  forall k l os, accepts k (Long l false os) = true ->
    (exists n, (k = KFlag n \/ k = KArgKey n) /\ mem_bytes l (n_long n) = true) \/
    (exists w, k = KCmd w /\ beqb os w = true) \/ k = KAny.
Proof. exact long_token_acceptors. Qed.
Print Assumptions C10_help_token_acceptors.

(* When the inner parser fails (or leaves items) and the help flag is live in the scope it left
   behind, the outcome is help for THIS level: its info, its meta, its path. *)
Theorem C10_help_found :
  forall env inf m s r s1 s2,
    (forall f, r <> RErr (MsgParseFailure f)) -> (forall w, r <> RPanic w) -> r <> RFuel ->
    (forall v, r = ROk v -> first_item_ix s1 <> None) ->
    (i_help_if_no_args inf && Nat.eqb (remaining s) 0 = false) ->
    take_flag (i_help_arg inf) s1 = Some s2 -> invariant_ok m = true ->
    exists detailed s3,
      run_sub_body env inf m s (r, s1) = (SFail (FStdout (HHelp (path s3) inf m detailed)), s3).
Proof. exact help_found. Qed.
Print Assumptions C10_help_found.

(* The unrestricted statement ("regardless of what else is missing") is FALSE of the faithful
   model and of the code; two witnesses, replayed on the implementation = known findings. *)
Theorem C10_refuted_seq :
  exists o argv m,
    run_inner (mkFeat true true false) (fun _ => None) o None argv = OutStderr m.
Proof. exact refuted_seq. Qed.
Print Assumptions C10_refuted_seq.
