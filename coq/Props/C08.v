(* C08 -- Subcommands scope what follows them.
   Property theorems only; proofs live in Lemmas/. *)
From Coq Require Import List.
From BpafModel Require Import Conv Wf.
From BpafLemmas Require Import Tac Find Reach Ledger NoLoss C05Lemmas OkReach OkLaws HelpLaws CmdLaws PickLaws ConvRefine ConvChain ConvTree ConvTreeSound TotalLaws HelpWins.
Import ListNotations.

(* A subcommand is entered only when its name is the FIRST live item of the enclosing scope. *)
Theorem C08_enter_first_live :
  forall word s s1, lenwf s -> take_cmd word s = (true, s1) ->
    exists ix a, first_item_ix s = Some ix /\ nth_error (items s) ix = Some a /\ cmd_token a word = true /\
                 (forall i, in_scope s i = true -> live s i -> ix <= i) /\
                 s1 = set_current (sremove (KCmd word) ix s) (Some ix).
Proof. exact take_cmd_needs_first. Qed.
Print Assumptions C08_enter_first_live.

Theorem C08_take_cmd :
  forall word s,
    take_cmd word s =
    match first_item_ix s with
    | Some ix =>
      match nth_error (items s) ix with
      | Some a => if cmd_token a word
                  then (true, set_current (sremove (KCmd word) ix s) (Some ix))
                  else (false, set_current s None)
      | None => (false, set_current s None)
      end
    | None => (false, set_current s None)
    end.
Proof. exact take_cmd_spec. Qed.
Print Assumptions C08_take_cmd.

Theorem C08_name_shapes :
  forall a word, cmd_token a word = true ->
    match a with Word _ | Short _ _ _ | Long _ false _ => True | _ => False end.
Proof. exact cmd_token_shapes. Qed.
Print Assumptions C08_name_shapes.

(* From then on the items to its right are judged by the subcommand's own OptionParser, run on the
   window [name .. old end) with the path extended; its value is placed in the enclosing result. *)
Theorem C08_enter :
  forall name aliases shorts help m_sub i_sub run s s1 cur s2,
    take_cmd_any ((name :: aliases) ++ map utf8_encode_char shorts) s = (true, s1) ->
    current s1 = Some cur -> set_scope s1 cur (sc_end s1) = Some s2 ->
    cmd_body name aliases shorts help false m_sub i_sub run s =
    match run (set_path s2 (path s2 ++ [name])) with
    | (SOk v, s4) => (ROk v, s4)
    | (SFail f, s4) => (RErr (MsgParseFailure f), s4)
    | (SPanic w, s4) => (RPanic w, s4)
    | (SFuel, s4) => (RFuel, s4)
    end.
Proof. exact CmdLaws.cmd_enter. Qed.
Print Assumptions C08_enter.

(* a name that is not there: the command reports itself missing (catchable: absence) *)
Theorem C08_not_entered :
  forall name aliases shorts help adjacent m_sub i_sub run s s1,
    take_cmd_any ((name :: aliases) ++ map utf8_encode_char shorts) s = (false, s1) ->
    exists m, cmd_body name aliases shorts help adjacent m_sub i_sub run s = (RErr (MsgMissing m), s1).
Proof. exact cmd_not_entered. Qed.
Print Assumptions C08_not_entered.

(* The run succeeds only if the subcommand's parser consumed everything in its window ... *)
Theorem C08_leftover_fails :
  forall env inf m s v s1 ix, first_item_ix s1 = Some ix ->
    forall v' s', run_sub_body env inf m s (ROk v, s1) <> (SOk v', s').
Proof. exact leftover_fails. Qed.
Print Assumptions C08_leftover_fails.

(* ... and, for the whole tree: an item that no consumer of any level accepts makes the run fail
   (options of a subcommand written where only the parent's consumers can see them, unknown
   words, unknown subcommands): instance of the ledger theorem. *)
Theorem C08_unclaimable_item_fails :
  forall env o s i a,
    opkinds_ok (fun k => accepts k a = false) o -> lenwf s -> full_scope s ->
    nth_error (items s) i = Some a -> live s i ->
    forall v s', run_sub env o s <> (SOk v, s').
Proof. exact unclaimable_item. Qed.
Print Assumptions C08_unclaimable_item_fails.

(* Help requested after the name describes the subcommand: the inner run_subparser renders help with
   ITS info, meta and path, and that outcome is final on the way out. *)
Theorem C08_help_after_name :
  forall env inf m s r s1 s2,
    (forall f, r <> RErr (MsgParseFailure f)) -> (forall w, r <> RPanic w) -> r <> RFuel ->
    (forall v, r = ROk v -> first_item_ix s1 <> None) ->
    (i_help_if_no_args inf && Nat.eqb (remaining s) 0 = false) ->
    take_flag (i_help_arg inf) s1 = Some s2 -> invariant_ok m = true ->
    exists detailed s3,
      run_sub_body env inf m s (r, s1) = (SFail (FStdout (HHelp (path s3) inf m detailed)), s3).
Proof. exact help_found. Qed.
Print Assumptions C08_help_after_name.

(* ... in full for a subcommand without nested subcommands / adjacent groups: once the name is the first
   unclaimed item, a help flag anywhere in the subcommand's window makes the command parser return the
   SUBCOMMAND's help (its info, its meta, the extended path) as a final outcome -- whatever else in the window
   is missing, duplicated or malformed *)
Theorem C08_help_after_name_describes_subcommand :
  forall env name aliases shorts help q inf s s1 cur s2 i a,
    take_cmd_any ((name :: aliases) ++ map utf8_encode_char shorts) s = (true, s1) ->
    current s1 = Some cur -> set_scope s1 cur (sc_end s1) = Some s2 ->
    memb q = true -> okp q = true -> invariant_ok (meta_of q) = true ->
    kinds_ok (fun k => accepts k a = false) q ->
    G s2 -> nth_error (items s2) i = Some a -> live s2 i -> in_scope s2 i = true ->
    matches_arg (i_help_arg inf) false a = true ->
    exists detailed s4,
      eval env (PCmd name aliases shorts help false (Options q inf)) s =
      (RErr (MsgParseFailure (FStdout (HHelp (path s4) inf (meta_of q) detailed))), s4).
Proof. exact help_after_name. Qed.
Print Assumptions C08_help_after_name_describes_subcommand.

Theorem C08_inner_outcome_final :
  forall f, can_catch (MsgParseFailure f) = false /\
    (forall e, combine_with (MsgParseFailure f) e = MsgParseFailure f) /\
    (forall e, (forall g, e <> MsgParseFailure g) -> combine_with e (MsgParseFailure f) = MsgParseFailure f).
Proof. exact inner_failure_final. Qed.
Print Assumptions C08_inner_outcome_final.

Theorem C08_inner_stdout_propagates :
  forall env inf m s h s1,
    run_sub_body env inf m s (RErr (MsgParseFailure (FStdout h)), s1) = (SFail (FStdout h), s1).
Proof. exact inner_stdout_propagates. Qed.
Print Assumptions C08_inner_stdout_propagates.

(* between sibling alternatives the one that went deeper (entered a command) wins *)
Theorem C08_deeper_wins :
  forall ra rb s sa sb, depth sa < depth sb ->
    this_or_that ra rb s sa sb = (match rb with RErr e => inr e | _ => inl false end, sb).
Proof. exact deeper_wins. Qed.
Print Assumptions C08_deeper_wins.

Example C08_example :
  let sub := Options (PFlag (mkNamed [120%N] [] [] None) (VBool true) (Some (VBool false)))
                     (mkInfo None (Some [TText SText [76;50]%N]) None None None default_help_arg default_version_arg false 100%N) in
  let top := Options (PCon (PCons (PFlag (mkNamed [118%N] [] [] None) (VBool true) (Some (VBool false)))
                           (PCons (PCmd [99;109;100]%N [] [] None false sub) PNil))) default_info in
  run_inner (mkFeat true true false) (fun _ => None) top None [[99;109;100]%N; [45;120]%N; [45;118]%N]
  = OutOk (VTuple [VBool true; VBool true]) /\
  (exists m, run_inner (mkFeat true true false) (fun _ => None) top None [[45;120]%N; [99;109;100]%N] = OutStderr m).
Proof. split; [|eexists]; vm_compute; reflexivity. Qed.

(* On conventional subcommand trees (Model/Conv.v; any number of subcommands with aliases at every
   level): a level that offers subcommands is a sentence exactly through ONE of them -- the scan
   stops at the first free word naming it, everything to its right is judged by that subcommand's
   own grammar (the enclosing items being ancestors), and its value comes last in the enclosing
   result; the parser returns exactly that value. *)
Theorem C08_subcommand_value_tree :
  forall feat env items cs argv v,
  tree_ok (Level items (TCmds cs)) ->
  denote (Level items (TCmds cs)) argv = Accept v ->
  let st := short_tables (compile_options (Level items (TCmds cs))) in
  let ts := mark_tokens (tokenize (fst st) (snd st) argv) in
  exists a sub rest vs sv,
    scan items [] (TCmds cs) ts = ScCmd a sub rest /\
    denote_level (length ts) sub ([] ++ items) rest = Accept sv /\
    items_values items 0 (at_occ a) = Some vs /\
    v = VTuple (vs ++ [sv]) /\
    run_inner feat env (compile_options (Level items (TCmds cs))) None argv = OutOk v.
Proof. exact tree_cmd_value. Qed.
Print Assumptions C08_subcommand_value_tree.

(* ... and the run succeeds IFF the grammar (hence the subcommand's own grammar on what follows its
   name) accepts: both directions, for every specified vector *)
Theorem C08_tree_conformance :
  forall feat env l argv v,
  tree_ok l -> plain_cmds l = true -> denote l argv <> Unspecified ->
  (denote l argv = Accept v <-> run_inner feat env (compile_options l) None argv = OutOk v).
Proof. exact denote_complete_tree. Qed.
Print Assumptions C08_tree_conformance.
