(* C04 -- property theorems; proofs live in Lemmas/. *)
From BpafLemmas Require Import Tac.
