(* C04 -- Running a parser is total, terminating and pure.
   Property theorems only; proofs live in Lemmas/ (LoopLaws, TotalLaws, AdjTotal, TotalAll, Reach).
   PARTIAL.  What Rocq decides here: for EVERY definition `oko` accepts -- every combinator of the model
   arbitrarily nested: flags, arguments, positionals, `any`, subcommands (adjacent or not), construct!,
   alternatives, optional/many/some/collect/count/last, fallback, guard, parse, map, hide, usage,
   group_help, pure, fail, boxed, and ADJACENT GROUPS whose members keep their scope (everything but subcommands
   inside the group; groups nested in groups are covered) and which start with an item -- every
   vector and every environment, a run ends in a value, a help/version document or an error message: no
   panic outcome, no fuel exhaustion (C04_total); the retry loop of ParseAdjacent::eval terminates and its
   panic sites (scope arithmetic, `before - remaining`) are unreachable (C04_adjacent_group_total);
   documentation generation and console rendering return (C04_documentation_returns,
   C04_console_rendering_returns).
   Error rendering returns for EVERY definition (C04_error_rendering_returns: the evaluator reports only
   messages whose positions are items of the line; Message::render then has a document).
   Not theorems: (a) adjacent groups with subcommands as members, or
   without a first item (that one panics; check_invariants reports it since fix 1225acf unless the group is hidden:
   known finding) -- their FUEL/panic outcomes are explicit in the
   model and compared with the implementation, (b) the panic sites of completion
   (compared per run), (c) purity -- Gallina functions are pure by construction; the implementation is
   re-run on the same OptionParser and after other operations (driver modes `twice`, `history`). *)
From Coq Require Import List Arith.
From BpafModel Require Import Conv Wf Docs Console Message.
From Coq Require Import String.
From BpafLemmas Require Import Tac EvalEq Reach LoopLaws TotalLaws AdjLaws AdjTotal TotalAll AbsSim AbsTotal ConvRefine ConvTotal HtmlLaws BalLaws ConsoleLaws MessageLaws MsgOk DamerauSafe.
Import ListNotations.

(* `remaining <= number of items` (and the item-state vector has the length of the item list)
   holds initially and is kept by the evaluation of EVERY parser from every state; the item list
   itself is never changed *)
Theorem C04_ledger_bounded_initially :
  forall short_flags short_args name argv, bounded (fst (construct short_flags short_args name argv)).
Proof. exact construct_bounded. Qed.
Print Assumptions C04_ledger_bounded_initially.

Theorem C04_ledger_stays_bounded :
  forall env p s, bounded s -> bounded (snd (eval env p s)) /\ items (snd (eval env p s)) = items s.
Proof. exact eval_keeps. Qed.
Print Assumptions C04_ledger_stays_bounded.

(* many / collect, some, count, last: with the fuel the model gives them (number of items + 2)
   the loop itself never runs out -- if the repetition reports RFuel, its inner parser did.
   For every inner evaluator that keeps the ledger bounded (every `eval env q` does). *)
Theorem C04_many_terminates_partial :
  forall ev catch s, keeps ev -> bounded s ->
  fst (many_body ev catch s) = RFuel -> exists s', fst (ev s') = RFuel.
Proof. exact many_body_fuel. Qed.
Print Assumptions C04_many_terminates_partial.

Theorem C04_some_terminates_partial :
  forall ev msg catch s, keeps ev -> bounded s ->
  fst (some_body ev msg catch s) = RFuel -> exists s', fst (ev s') = RFuel.
Proof. exact some_body_fuel. Qed.
Print Assumptions C04_some_terminates_partial.

Theorem C04_count_terminates_partial :
  forall ev s, keeps ev -> bounded s ->
  fst (count_body ev s) = RFuel -> exists s', fst (ev s') = RFuel.
Proof. exact count_body_fuel. Qed.
Print Assumptions C04_count_terminates_partial.

Theorem C04_last_terminates_partial :
  forall ev s, keeps ev -> bounded s ->
  fst (last_body ev s) = RFuel -> exists s', fst (ev s') = RFuel.
Proof. exact last_body_fuel. Qed.
Print Assumptions C04_last_terminates_partial.

(* The whole flat fragment -- flags, arguments, positionals, construct!, optional / many / some /
   count / last / fallback, arbitrarily nested -- is total on full-scope states: a value or an
   error, never a panic outcome, never fuel exhaustion (through the token-list interpreter of
   AbsSim.v, whose loops are shown never to exhaust the fuel the evaluator gives them). *)
Theorem C04_flat_fragment_total :
  forall env n p s l, flatp p = true -> Sim n s l ->
  (exists v, fst (eval env p s) = ROk v) \/ (exists e, fst (eval env p s) = RErr e).
Proof. exact flat_eval_total. Qed.
Print Assumptions C04_flat_fragment_total.

(* ... and so is running a conventional flat level on ANY argument vector *)
Theorem C04_flat_level_total :
  forall feat env items tail argv, flat_ok items tail ->
  normal_outcome (run_inner feat env (compile_options (Level items tail)) None argv).
Proof. exact flat_run_total. Qed.
Print Assumptions C04_flat_level_total.

(* EVERY definition `oko` accepts (decidable, evaluated on every generated definition: adjacent groups
   have scope-keeping members and a first item; named items have a name or a variable;
   option levels pass check_invariants), on EVERY argument vector and environment: the outcome is a
   value, a document or an error message *)
Theorem C04_total :
  forall feat env o name argv, oko o = true ->
  normal_outcome (run_inner feat env o name argv).
Proof. exact run_total. Qed.
Print Assumptions C04_total.

(* the same for the evaluation of any sub-parser from any well-formed state (ledger bounded, scope
   inside the ledger): states only move by legal steps, which keep them well-formed *)
Theorem C04_eval_total :
  forall env p s, okp p = true -> G s ->
  nf (fst (eval env p s)) /\ G (snd (eval env p s)).
Proof.
  intros env p s Hp Hg. split; [exact (proj1 (eval_total_all env) p Hp s Hg)|exact (proj1 (eval_keepsG env p s Hg))].
Qed.
Print Assumptions C04_eval_total.

(* the retry loop of an adjacent group: for every member parser that keeps its scope and consumes only
   inside it, moves the ledger by legal steps and is itself total, and a group that starts with an item,
   evaluation from every well-formed state ends in a value or an error -- the loop ends within the
   fuel the model gives it (after the first retry the right end of the window holds an available item
   outside the window, so later ends can only shrink) and no panic site is reached *)
Theorem C04_adjacent_group_total :
  forall ev, ev_inscope ev -> ev_reach (fun _ => True) ev -> total ev ->
  forall fi, fi <> None -> total (eval_adjacent ev fi).
Proof. exact adjacent_total. Qed.
Print Assumptions C04_adjacent_group_total.

(* `remaining` is exactly the number of available items inside the scope, initially and after every
   evaluation: the `before - remaining` of the retry loop never underflows because of it *)
Theorem C04_remaining_exact :
  forall env p s, G s -> G (snd (eval env p s)).
Proof. intros env p s Hg. exact (proj1 (eval_keepsG env p s Hg)). Qed.
Print Assumptions C04_remaining_exact.

(* documentation generation returns, for EVERY definition (adjacent groups included) whose own documents
   are what the Doc API can build (`odok`): section extraction never runs out of fuel, the group loop of
   the item writer terminates, and neither renderer meets a block it answers with `todo!()`.  The same for
   the document of --help (C12_help_document_total_balanced); its console rendering is tied per run *)
Theorem C04_documentation_returns :
  forall env app o full, odok o ->
  (exists d html, collect_html env app (ometa_of o) (oinfo_of o) = Some d /\ render_html full d = Some html) /\
  (exists d man, manpage_doc env app (ometa_of o) (oinfo_of o) = Some d /\ render_roff (manpage_th app) d = Some man).
Proof. intros env app o full Ho. split; [exact (render_html_returns env app o full Ho)|exact (render_manpage_returns env app o Ho)]. Qed.
Print Assumptions C04_documentation_returns.

(* console rendering (help, version and error documents) returns for EVERY document, form and width -- true
   after the fix: commit efdd257 (margins wider than the padding constant) *)
Theorem C04_console_rendering_returns :
  forall docgen full mw d, render_console docgen full mw d <> None.
Proof. exact render_console_returns. Qed.
Print Assumptions C04_console_rendering_returns.

(* error rendering (Message::render, Model/Message.v) indexes the item list by the positions a message
   records.  For EVERY parser of the model (no well-formedness premise: any members of adjacent groups, any
   nesting) an error handed out by the evaluation from a well-formed state records only positions of the line:
   the argument name without a value is an item, the scopes of missing items are inside the ledger with the
   position not beyond their end (State::set_scope would panic otherwise)  (MsgOk.v: mutual induction over the
   parser) *)
Theorem C04_reported_messages_name_positions :
  forall env p s, GC s -> eok (length (items s)) (fst (eval env p s)).
Proof. exact (fun env => proj1 (eval_okmsg_all env)). Qed.
Print Assumptions C04_reported_messages_name_positions.

(* ... the marks left by the choice between alternatives name positions of the line in every state an
   evaluation can reach (the winner recorded by State::save_conflicts comes from State::pick_winner) *)
Theorem C04_conflict_marks_name_positions :
  forall K s s', reach K s s' -> cw_ok s -> cw_ok s'.
Proof. exact reach_cw. Qed.
Print Assumptions C04_conflict_marks_name_positions.

(* ... so Message::render returns a document for every such message: no index out of range, no unwrap of None,
   no panicking State::set_scope in the summary of missing items, whatever conflict / only-once / `did you mean`
   rewriting applies *)
Theorem C04_message_rendering_returns :
  forall msg s m,
    G s -> cw_ok s -> mok (length (items s)) msg ->
    match msg with MsgParseFailure _ => False | _ => True end ->
    render_message msg s m <> None.
Proof. exact render_message_returns. Qed.
Print Assumptions C04_message_rendering_returns.

(* ... hence for EVERY definition, every vector and environment: the failure a run ends with -- whichever command
   level reported it, the tokenizer's ambiguity message included -- carries its document (FStderr's second field is
   what Message::render built at that level; None would be a panic of the rendering); the same for the run of any
   command level from any well-formed state *)
Theorem C04_error_rendering_returns :
  forall env feat o name argv m, fst (run_inner_state feat env o name argv) <> SFail (FStderr m None).
Proof. exact run_inner_has_document. Qed.
Print Assumptions C04_error_rendering_returns.

Theorem C04_level_error_rendering_returns :
  forall env o s m, GC s -> fst (run_sub env o s) <> SFail (FStderr m None).
Proof. exact run_sub_has_document. Qed.
Print Assumptions C04_level_error_rendering_returns.

(* ... and the one place where the transcription uses total accessors for `d[ix(i, j)]` -- the edit distance behind the
   `did you mean` suggestions -- never leaves its (a_len + 1) * (b_len + 1) matrix: written with checked accessors
   (None = the index panic) it returns, and gives what the transcription gives, for all strings *)
Theorem C04_suggestion_distance_in_bounds :
  forall a b, damerau_checked a b = Some (damerau_levenshtein a b).
Proof. exact damerau_in_bounds. Qed.
Print Assumptions C04_suggestion_distance_in_bounds.

(* non-vacuity: `-a -b` with exclusive alternatives: the conflict message is rendered *)
Example C04_example_error_rendered :
  let p := POr (PFlag (mkNamed [97%N] [] [] None) VUnit None) (PFlag (mkNamed [98%N] [] [] None) VUnit None) in
  match run_inner_state (mkFeat true true false) (fun _ => None) (Options p default_info) None [[45;97]%N; [45;98]%N] with
  | (SFail (FStderr m (Some d)), s') =>
    option_map utf8_encode (render_doc_text true d) = Some (bs "`-b` cannot be used at the same time as `-a`"%string)
  | _ => False
  end.
Proof. vm_compute. reflexivity. Qed.

(* the premises are met: a definition with a subcommand, an alternative, repetition and a guard *)
Example C04_example_oko :
  oko (Options (PCon (PCons (PMany (PArg (mkNamed [110%N] [] [] None) [78%N] TyString false) false)
                      (PCons (POr (PFlag (mkNamed [97%N] [] [] None) (VBool true) None)
                                  (PCmd [99%N] [] [] None false
                                        (Options (PGuard (PPos [80%N] TyString Unrestricted None) (fun _ => true) []) default_info)))
                             PNil))) default_info) = true.
Proof. vm_compute. reflexivity. Qed.

(* ... and a group nested in a group: `--rect --w W [--origin X Y]` *)
Example C04_example_oko_nested_group :
  oko (Options (PCon (PCons (PAdj (PCons (PFlag (mkNamed [] [[114]%N] [] None) VUnit None)
                                  (PCons (PArg (mkNamed [] [[119]%N] [] None) [87%N] TyU32 false)
                                  (PCons (POptional (PAdj (PCons (PFlag (mkNamed [] [[111]%N] [] None) VUnit None)
                                                          (PCons (PPos [88%N] TyU32 Unrestricted None)
                                                          (PCons (PPos [89%N] TyU32 Unrestricted None) PNil)))) false) PNil))))
                      (PCons (PFlag (mkNamed [118%N] [] [] None) (VBool true) (Some (VBool false))) PNil))) default_info) = true.
Proof. vm_compute. reflexivity. Qed.

(* adjacent subcommands: the window handed to the subcommand and the one retry on a narrower window stay
   inside the ledger; the subcommand's own parser is total by induction *)
Theorem C04_adjacent_command_total :
  forall name aliases shorts help m_sub i_sub run,
  keepsGr run -> totalr run -> total (cmd_body name aliases shorts help true m_sub i_sub run).
Proof. exact cmd_adjacent_total. Qed.
Print Assumptions C04_adjacent_command_total.

(* ... and one with a repeated adjacent group `--point X Y` next to a switch *)
Example C04_example_oko_adjacent :
  oko (Options (PCon (PCons (PFlag (mkNamed [99%N] [] [] None) (VBool true) (Some (VBool false)))
                      (PCons (PMany (PAdj (PCons (PFlag (mkNamed [] [[112]%N] [] None) VUnit None)
                                          (PCons (PPos [88%N] TyString Unrestricted None)
                                          (PCons (PPos [89%N] TyString Unrestricted None) PNil)))) false) PNil)))
               default_info) = true.
Proof. vm_compute. reflexivity. Qed.
