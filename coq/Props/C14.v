(* C14 -- Dynamic completion offers real, visible, applicable candidates.
   Property theorems only; proofs live in Lemmas/.  PARTIAL.  Completion has two stages: the parsers
   push hints while they run on the line (src/params.rs, src/structs.rs), then Complete::complete
   (src/complete_gen.rs) turns the collected hints into candidates.  The SECOND stage is modelled
   (Model/Complete.v, tied to the code through a hook on explicit hint lists) and proved sound and
   complete with respect to the hints: only hints of the deepest command level entered become
   candidates; after `--` only positional ones; while an argument's value is typed no flag /
   argument / command name is offered; names pass the name filters (a typed `--prefix`, an exactly
   typed short name, a command prefix) and are offered in their preferred spelling; completer
   values carry the typed `-s=` / `--long=` prefix; otherwise every matching hint is offered.
   The FIRST stage (which hints the parsers push: visible leaves of the active path, nothing
   hidden, nothing already given) is not modelled: "always completion output", "only visible names
   of the active path" and completeness for fresh prefixes are decided by the oracle on the
   implementation (computed from the definition's AST). *)
From Coq Require Import List NArith.
From BpafModel Require Import Shell Complete Message CompEval.
From BpafLemmas Require Import ShellLaws CompleteLaws CompInert CompAlways CompNever CompVisible.
Import ListNotations.

(* a flag/argument name is offered only if the typed text is empty or `-`, or is exactly its short
   spelling, or is `--` followed by a prefix of its (first) long name; what is offered is the
   preferred spelling (the long name when there is one) *)
Theorem C14_arg_filter_sound_partial :
  forall arg short long n,
    arg_matches arg short long = Some n ->
    n = preferred_name short long /\
    (arg = [] \/ arg = [dash] \/
     (exists c, short = Some c /\ arg = [dash; c]) \/
     (exists l rest, long = Some l /\ arg = dash :: dash :: rest /\ starts_with rest l = true)).
Proof. exact arg_matches_sound. Qed.
Print Assumptions C14_arg_filter_sound_partial.

(* a command name is offered only if the typed text is a prefix of it or is its short alias *)
Theorem C14_cmd_filter_sound_partial :
  forall arg name short,
    cmd_matches arg name short = true ->
    starts_with arg name = true \/ exists c, short = Some c /\ arg = [c].
Proof. exact cmd_matches_sound. Qed.
Print Assumptions C14_cmd_filter_sound_partial.

(* every candidate stems from a collected hint of the deepest command level entered (after `--`: a
   positional one), through `comp_item` *)
Theorem C14_candidates_from_deepest_hints_partial :
  forall cs arg po nm px i,
    In i (fst (complete cs arg po nm px)) ->
    exists c, In c cs /\ comp_depth c = max_depth cs /\ (po = true -> is_pos c = true) /\
              comp_item arg po px c = Some i.
Proof. exact complete_sound. Qed.
Print Assumptions C14_candidates_from_deepest_hints_partial.

Theorem C14_deepest_is_deepest : forall cs c, In c cs -> comp_depth c <= max_depth cs.
Proof. exact max_depth_ge. Qed.
Print Assumptions C14_deepest_is_deepest.

(* the shape of a candidate by the kind of its hint: names only through the name filters (with the
   two theorems above: the typed text is a prefix / the exact short spelling), in the preferred
   spelling; an argument shows `name=METAVAR`; a completer's value carries the typed `-s=` /
   `--long=`; a metavariable placeholder replaces nothing; group and help are the hint's *)
Theorem C14_candidate_shape_partial :
  forall arg po px c i,
    comp_item arg po px c = Some i ->
    match c with
    | CoFlag _ s l => arg_matches arg s l = Some (sc_subst i) /\ sc_pretty i = sc_subst i
    | CoArgument _ s l mv => arg_matches arg s l = Some (sc_subst i) /\ sc_pretty i = sc_subst i ++ eq_sign :: mv
    | CoCommand _ name s => cmd_matches arg name s = true /\ sc_subst i = name /\ sc_pretty i = name
    | CoValue _ body _ =>
      sc_pretty i = body /\
      sc_subst i = match px with PxNA => body | PxShort s => dash :: s :: eq_sign :: body
                            | PxLong l => dash :: dash :: l ++ eq_sign :: body end
    | CoMeta _ meta _ => sc_subst i = [] /\ sc_pretty i = meta
    | CoShell _ _ _ => False
    end /\ sc_group i = ce_group (comp_extra c) /\ sc_help i = ce_help (comp_extra c).
Proof. exact comp_item_shape. Qed.
Print Assumptions C14_candidate_shape_partial.

(* while the value of an argument is being typed, no flag, argument or command name is offered *)
Theorem C14_value_mode_offers_no_names_partial :
  forall cs arg po nm px i,
    (exists c, In c cs /\ passes (max_depth cs) po px c = true /\ only_value c = true) ->
    In i (fst (complete cs arg po nm px)) ->
    exists c, In c cs /\ only_value c = true /\ comp_item arg po px c = Some i.
Proof. exact complete_value_mode. Qed.
Print Assumptions C14_value_mode_offers_no_names_partial.

(* otherwise every hint of the deepest level that matches what was typed is offered *)
Theorem C14_matching_hints_offered_partial :
  forall cs arg po nm px c i,
    (forall c', In c' cs -> passes (max_depth cs) po px c' = true -> only_value c' = false) ->
    In c cs -> passes (max_depth cs) po px c = true -> comp_item arg po px c = Some i ->
    In i (fst (complete cs arg po nm px)).
Proof. exact complete_names_complete. Qed.
Print Assumptions C14_matching_hints_offered_partial.

(* while the value of `--name=val` / `-n=val` is being typed every candidate completes an argument's value:
   no name of the level, no positional hint, no `--` (true after the fix: commit b840250 -- before it the
   remaining hints were matched against the value part and written back with the prefix: `--file=--`) *)
Theorem C14_prefix_only_values :
  forall cs arg po nm px i,
    px <> PxNA -> In i (fst (complete cs arg po nm px)) ->
    exists c, In c cs /\ only_value c = true /\ comp_item arg po px c = Some i.
Proof. exact complete_prefix_only_values. Qed.
Print Assumptions C14_prefix_only_values.

Example C14_example :
  arg_matches [45;45;118]%N (Some 118%N) (Some [118;101;114;98]%N) = Some [45;45;118;101;114;98]%N /\
  arg_matches [45;45;120]%N (Some 118%N) (Some [118;101;114;98]%N) = None /\
  cmd_matches [98]%N [98;117;105;108;100]%N None = true.
Proof. repeat split; vm_compute; reflexivity. Qed.

(* the second stage at work: hints of two levels, `--al` typed: only the deeper level's matching
   names; with an argument's value being typed, only the value *)
Example C14_example_complete :
  let e d := mkExtra d None None in
  fst (complete [CoFlag (e 0) None (Some [97;108;108]%N); CoFlag (e 1) (Some 97%N) (Some [97;108;112;104;97]%N);
                 CoCommand (e 1) [97;108]%N None; CoFlag (e 1) None (Some [98]%N)]
                [45;45;97;108]%N false true PxNA)
    = [mkShow [45;45;97;108;112;104;97]%N [45;45;97;108;112;104;97]%N None None] /\
  fst (complete [CoFlag (e 1) (Some 97%N) None; CoValue (e 1) [120]%N true; CoMeta (e 1) [70]%N true]
                [] false false (PxLong [111]%N))
    = [mkShow [45;45;111;61;120]%N [120]%N None None; mkShow [] [70]%N None None].
Proof. split; vm_compute; reflexivity. Qed.

(* ------------------------------------------------------------------ the FIRST stage (Model/CompEval.v) *)
(* Model/CompEval.v transcribes the hint bookkeeping of every parser (the evaluator of a build with `autocomplete`) and
   check_complete; its completion text is compared byte for byte with the library's on every generated case. *)

(* A command level that is left with the hints in hand -- its parser returned a value or an ordinary failure, no final
   failure of a subcommand, no usage fallback on an empty scope -- answers with completion output as soon as the line
   holds an item with valid UTF-8 text: never with that value, a help screen or an error message. *)
Theorem C14_level_answers_with_completion_partial :
  forall env inf m s r s1 c,
    early inf s r = false -> lit_items s1 <> [] -> rev_ok (cs_rev c) ->
    exists t, c_run_sub_body env inf m (s, Some c) (r, (s1, Some c)) = (SFail (FCompletion t), (s1, Some c)).
Proof. exact level_answers_with_completion. Qed.
Print Assumptions C14_level_answers_with_completion_partial.

(* The first clause of the property, for EVERY parser definition of the model (every combinator arbitrarily nested,
   subcommands adjacent or not, adjacent groups, completers): when completion is requested -- Args::set_comp or a marker
   on the line, with one of the output revisions bpaf knows (0, 1, 7, 8, 9) -- and the line holds an item with valid
   UTF-8 text, the outcome of run_inner is NEVER a parsed value and NEVER an error message.  (What is left besides
   completion output: stdout -- the usage screen of a `fallback_to_usage` level entered with nothing in its scope --
   and the model's explicit panic / fuel outcomes, which C04 speaks about.)  By mutual induction over the parser
   (Lemmas/CompNever.v): the completion state stays switched on with its revision, the items of the line never change,
   every final failure a subcommand hands up is completion output or stdout. *)
Theorem C14_request_never_value_or_error :
  forall feat env o name argv rv0,
    let x := fst (c_initial_state o name argv rv0) in
    forall c, snd x = Some c -> rev_ok (cs_rev c) -> lit_items (fst x) <> [] ->
    match c_run_inner feat env o name argv rv0 with
    | OutOk _ | OutStderr _ => False
    | _ => True
    end.
Proof. exact request_never_value_or_error. Qed.
Print Assumptions C14_request_never_value_or_error.

(* the invariant behind it, for every parser and every state with the request switched on *)
Theorem C14_request_kept_by_every_parser :
  forall rv its, rev_ok rv -> (forall s, items s = its -> lit_items s <> []) ->
  forall env docgen p x, xinv rv its x -> xinv rv its (snd (ceval env docgen p x)) /\ rfin (fst (ceval env docgen p x)).
Proof. intros rv its Hr Hl env docgen p. exact (proj1 (ceval_good_all rv its Hr Hl env docgen) p). Qed.
Print Assumptions C14_request_kept_by_every_parser.

(* Hidden items are never offered, for EVERY parser definition: every flag / argument / command NAME among the hints a
   run collects is the name of a VISIBLE item of the definition (`vis_names` / `vis_cmds` skip everything under hide()),
   wherever the hidden part stands -- under any wrapper, in an alternative, a group or a subcommand; the plumbing
   (stash, swap, titles, completer values, shell completers, the keep_a / keep_b rule of alternatives, the clones of
   adjacent groups) never invents a name.  Mutual induction over the parser (Lemmas/CompVisible.v).  Together with the
   second stage (C14_candidates_from_deepest_hints_partial, C14_candidate_shape_partial: every candidate stems from a hint) no candidate carries a name
   that only a hidden item has. *)
Theorem C14_hints_name_visible_items_only :
  forall env docgen o s c,
    kall (ovis_names o) (ovis_cmds o)
         (snd (snd (crun_sub env docgen o (s, Some (mkCst [] (cs_rev c) (cs_nopos c)))))).
Proof. exact run_hints_name_visible_items. Qed.
Print Assumptions C14_hints_name_visible_items_only.

Theorem C14_every_parser_pushes_visible_names_only :
  forall env docgen p Vn Vc,
    incl (vis_names p) Vn -> incl (vis_cmds p) Vc ->
    forall x, kall Vn Vc (snd x) -> kall Vn Vc (snd (snd (ceval env docgen p x))).
Proof. intros env docgen p Vn Vc Hn Hc. exact (proj1 (ceval_visible_all env docgen) p Vn Vc Hn Hc). Qed.
Print Assumptions C14_every_parser_pushes_visible_names_only.

(* both stages together: whatever candidates Complete::complete computes from the hints the parser of a command level
   collected, each stems (through comp_item: name filters, preferred spelling) from a hint that names a visible item of
   the definition, or is a completer's value, a placeholder or a shell completer *)
Theorem C14_candidates_stem_from_visible_items :
  forall env docgen p s c arg po nm px i,
    In i (fst (complete (kcomps (snd (snd (ceval env docgen p (s, Some (mkCst [] (cs_rev c) (cs_nopos c))))))) arg po nm px)) ->
    exists h, name_ok (vis_names p) (vis_cmds p) h /\ comp_item arg po px h = Some i.
Proof. exact level_candidates_from_visible_items. Qed.
Print Assumptions C14_candidates_stem_from_visible_items.

(* non-vacuity: a visible switch --alpha next to a hidden switch --beta: only --alpha is a visible name *)
Example C14_example_visible_names :
  vis_names (XCon (XCons (XFlag (mkNamed [] [[97;108;112;104;97]%N] [] None) (VBool true) (Some (VBool false)))
                  (XCons (XHide (XFlag (mkNamed [] [[98;101;116;97]%N] [] None) (VBool true) (Some (VBool false)))) XNil)))
  = [(None, Some [97;108;112;104;97]%N)].
Proof. reflexivity. Qed.

(* hidden items are never offered: whatever a parser under hide() pushed is dropped, the hints after it are the hints
   collected before it *)
Theorem C14_hidden_parser_offers_nothing :
  forall cev s c,
    snd (snd (c_hide_body cev (s, Some c))) = None \/ kcomps (snd (snd (c_hide_body cev (s, Some c)))) = cs_comps c.
Proof. exact hide_drops_hints. Qed.
Print Assumptions C14_hidden_parser_offers_nothing.

(* the name of a subcommand typed as the last item: the command is not entered (names that belong only to it cannot be
   offered), the one hint is the command name itself *)
Theorem C14_command_name_typed_last :
  forall docgen name aliases shorts help adjacent m i run s c s1,
    take_cmd_any ((name :: aliases) ++ map utf8_encode_char shorts) s = (true, s1) ->
    touching_last s1 (Some c) = true ->
    c_cmd_body docgen name aliases shorts help adjacent m i run (s, Some c) =
    (RErr (MsgMissing []),
     (s1, Some (mkCst [CoCommand (mkExtra (depth s1) None (help_completion docgen help)) (chars_of name) (hd_error shorts)]
                      (cs_rev c) (cs_nopos c)))).
Proof. exact cmd_name_last. Qed.
Print Assumptions C14_command_name_typed_last.

(* names that belong only to commands not entered are never offered: a subcommand whose name is not the next item
   contributes its own name as a hint and nothing else *)
Theorem C14_command_not_entered_offers_its_name_only :
  forall docgen name aliases shorts help adjacent m i run s k s1,
    take_cmd_any ((name :: aliases) ++ map utf8_encode_char shorts) s = (false, s1) ->
    snd (snd (c_cmd_body docgen name aliases shorts help adjacent m i run (s, k))) =
    kpush (CoCommand (mkExtra (depth s1) None (help_completion docgen help)) (chars_of name) (hd_error shorts)) k.
Proof. exact cmd_not_entered. Qed.
Print Assumptions C14_command_not_entered_offers_its_name_only.

(* group_help: earlier hints stay, the inner parser's hints follow under the group's title *)
Theorem C14_group_title_on_inner_hints :
  forall docgen cev d s c r s' c',
    cev (s, Some (mkCst [] (cs_rev c) (cs_nopos c))) = (r, (s', Some c')) ->
    c_group_help_body docgen cev d (s, Some c) =
    (r, (s', Some (mkCst (cs_comps c ++ match to_completion docgen d with
                                        | Some g => map (set_group g) (cs_comps c')
                                        | None => cs_comps c'
                                        end) (cs_rev c') (cs_nopos c')))).
Proof. exact group_help_titles. Qed.
Print Assumptions C14_group_title_on_inner_hints.

(* without a request the completers and the bookkeeping change nothing (see C20) *)
Theorem C14_no_request_no_completion :
  forall feat env o name argv,
    (forall w, In w argv -> marker_rev w = None) ->
    c_run_inner feat env o name argv None = run_inner feat env (erase_o o) name argv.
Proof. exact c_run_inner_no_request. Qed.
Print Assumptions C14_no_request_no_completion.

(* non-vacuity: `-` typed after nothing, a switch -v with help: the outcome is completion output naming -v *)
Example C14_example_first_stage :
  exists t, c_run_inner (mkFeat true true false) (fun _ => None)
              (XOptions (XFlag (mkNamed [118%N] [] [] None) (VBool true) (Some (VBool false))) default_info)
              None [[45%N]] (Some 0) = OutCompletion t.
Proof. vm_compute. eexists. reflexivity. Qed.

(* non-vacuity of C14_request_never_value_or_error: its premises hold for `--al` typed after a positional *)
Example C14_example_premises :
  let o := XOptions (XCon (XCons (XPos [70%N] TyString Unrestricted None)
                          (XCons (XFlag (mkNamed [] [[97;108;112;104;97]%N] [] None) (VBool true) (Some (VBool false))) XNil)))
                    default_info in
  let x := fst (c_initial_state o None [[120%N]; [45;45;97;108]%N] (Some 0)) in
  (exists c, snd x = Some c /\ rev_ok (cs_rev c)) /\ lit_items (fst x) <> [].
Proof. vm_compute. split; [eexists; split; [reflexivity|left; reflexivity]|discriminate]. Qed.
