(* C14 -- Dynamic completion offers real, visible, applicable candidates.
   Property theorems only; proofs live in Lemmas/.  PARTIAL: the hint bookkeeping threaded through
   every parser is not modelled; what is proved is the soundness of the two filters that decide
   which collected names are offered for what was typed.  "Always completion output", "only visible
   names of the active path" and completeness for fresh prefixes are decided by the oracle on the
   implementation (computed from the definition's AST). *)
From Coq Require Import List NArith.
From BpafModel Require Import Shell.
From BpafLemmas Require Import ShellLaws.
Import ListNotations.

(* a flag/argument name is offered only if the typed text is empty or `-`, or is exactly its short
   spelling, or is `--` followed by a prefix of its (first) long name; what is offered is the
   preferred spelling (the long name when there is one) *)
Theorem C14_arg_filter_sound_partial :
  forall arg short long n,
    arg_matches arg short long = Some n ->
    n = preferred_name short long /\
    (arg = [] \/ arg = [dash] \/
     (exists c, short = Some c /\ arg = [dash; c]) \/
     (exists l rest, long = Some l /\ arg = dash :: dash :: rest /\ starts_with rest l = true)).
Proof. exact arg_matches_sound. Qed.
Print Assumptions C14_arg_filter_sound_partial.

(* a command name is offered only if the typed text is a prefix of it or is its short alias *)
Theorem C14_cmd_filter_sound_partial :
  forall arg name short,
    cmd_matches arg name short = true ->
    starts_with arg name = true \/ exists c, short = Some c /\ arg = [c].
Proof. exact cmd_matches_sound. Qed.
Print Assumptions C14_cmd_filter_sound_partial.

Example C14_example :
  arg_matches [45;45;118]%N (Some 118%N) (Some [118;101;114;98]%N) = Some [45;45;118;101;114;98]%N /\
  arg_matches [45;45;120]%N (Some 118%N) (Some [118;101;114;98]%N) = None /\
  cmd_matches [98]%N [98;117;105;108;100]%N None = true.
Proof. repeat split; vm_compute; reflexivity. Qed.
