(* C01 -- Parsing conforms to the declared command-line grammar.
   Property theorems only; proofs live in Lemmas/ConvLaws.v (and Lemmas/OkLaws.v).
   The declared grammar is Model/Conv.v: `level` (the conventional fragment), `compile` (the
   combinator term), `denote` (one left-to-right attribution scan + arity and value checks).
   Full statement (C01_conformance, NOT proved in this revision):
     forall l argv,  conv_ok l ->
       (forall v, denote l argv = Accept v -> run_inner feat env (compile_options l) None argv = OutOk v) /\
       (denote l argv = Reject -> exists m, run_inner feat env (compile_options l) None argv = OutStderr m).
   It is decided on every run by conformance testing of the IMPLEMENTATION against `denote`
   (sentences in every spelling and order, near-miss and mutated non-sentences) and of the
   evaluator model against the implementation on the same vectors.
   Proved here (PARTIAL): the "unknown name" half of the Reject direction for whole subcommand
   trees, as a corollary of the exactly-once theorem of C05. *)
From Coq Require Import List Bool.
From BpafModel Require Import Conv.
From BpafLemmas Require Import Tac EvalEq Find Reach Ledger NoLoss C05Lemmas OkReach OkLaws ConvLaws.
Import ListNotations.

(* a key (`-x`, `--name`, with or without an attached value) that no item of the level tree owns
   and whose text is not a command name is never swallowed: no value is returned *)
Theorem C01_unowned_key_never_value_partial :
  forall feat env l name argv st amb i a,
  initial_state (compile_options l) name argv = (st, amb) ->
  nth_error (items st) i = Some a -> live st i -> is_key a = true ->
  (forall it, In it (all_items l) -> matches_arg (item_named it) false a = false) ->
  (forall w, In w (all_cmd_names l) -> beqb (arg_os a) w = false) ->
  forall v, run_inner feat env (compile_options l) name argv <> OutOk v.
Proof. exact unowned_key_never_value. Qed.
Print Assumptions C01_unowned_key_never_value_partial.

(* the declarative grammar at work: `-v`, `--out=FILE` (required), words...; sentences in two
   spellings denote the same value, a duplicated switch / a missing required argument / a value
   glued to a switch are not sentences, `--help` is left to C10 *)
Definition ex_level : level :=
  Level [CSwitch (mkNamed [118%N] [[118;101;114;98]%N] [] None);
         CArg (mkNamed [111%N] [[111;117;116]%N] [] None) [70%N] TyString ARequired]
        (TPos [mkCPos [87%N] TyString QMany]).
Example C01_example :
  denote ex_level [[45;118]; [45;45;111;117;116;61;120]; [97]; [98]]%N
    = Accept (VTuple [VBool true; VBytes [120%N]; VList [VBytes [97%N]; VBytes [98%N]]]) /\
  denote ex_level [[97]; [45;111;120]; [98]; [45;45;118;101;114;98]]%N
    = Accept (VTuple [VBool true; VBytes [120%N]; VList [VBytes [97%N]; VBytes [98%N]]]) /\
  denote ex_level [[45;118]; [45;118]; [45;111;120]]%N = Reject /\
  denote ex_level [[45;118]]%N = Reject /\
  denote ex_level [[45;45;118;101;114;98;61;49]; [45;111;120]]%N = Reject /\
  denote ex_level [[45;45;104;101;108;112]]%N = Unspecified /\
  run_inner (mkFeat true true false) (fun _ => None) (compile_options ex_level) None
            [[45;118]; [45;45;111;117;116;61;120]; [97]; [98]]%N
    = OutOk (VTuple [VBool true; VBytes [120%N]; VList [VBytes [97%N]; VBytes [98%N]]]).
Proof. vm_compute. repeat split; reflexivity. Qed.
