(* C01 -- placeholder, replaced below by the refinement theorems. *)
From BpafModel Require Import Conv.
