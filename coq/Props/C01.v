(* C01 -- Parsing conforms to the declared command-line grammar.
   Property theorems only; proofs live in Lemmas/ConvLaws.v (and Lemmas/OkLaws.v).
   The declared grammar is Model/Conv.v: `level` (the conventional fragment), `compile` (the
   combinator term), `denote` (one left-to-right attribution scan + arity and value checks).
   Full statement (C01_conformance):
     forall l argv,  conv_ok l ->
       (forall v, denote l argv = Accept v -> run_inner feat env (compile_options l) None argv = OutOk v) /\
       (denote l argv = Reject -> exists m, run_inner feat env (compile_options l) None argv = OutStderr m).
   PROVED here: the Accept half for every FLAT level (any number/kind/arity of uniquely named
   items, positional suffix, no subcommands) -- C01_sentences_accepted_flat -- and for every CHAIN
   of nested subcommands (each level: items, then one subcommand with aliases; the innermost
   level flat) -- C01_sentences_accepted_chain -- by refinement:
   AbsSim.v shows the evaluator of this fragment depends on the ledger only through its live
   tokens (a second interpreter over token lists, simulation by mutual induction); ConvRefine.v
   shows that the token-list interpreter applied to the compiled level computes exactly what the
   attribution scan of `denote` computes (every item pops exactly its own occurrences in order,
   the positional suffix takes the remaining words, nothing is left).  Also proved: the "unknown
   name" half of Reject for whole subcommand trees (corollary of C05's exactly-once theorem).
   ConvChain.v carries this through the command step (the scope narrows to what follows the
   command word; tokens of deeper levels are inert for the items of a level).  Also proved:
   totality -- on EVERY vector the parser of a flat level yields a value, a help/version document or
   an error message, never a panic outcome or fuel exhaustion (C01_flat_total).
   ConvTree.v extends the Accept half to WHOLE SUBCOMMAND TREES (any number of subcommands with
   aliases at every level, the alternative combinator picking the branch whose name stands first on
   the line) -- C01_sentences_accepted_tree.
   ConvSound.v and ConvTreeSound.v prove the CONVERSE, for flat levels and for whole subcommand
   trees whose command names are plain (non-empty, no leading dash -- `plain_cmds`, decidable):
   every vector the grammar specifies (neither a help request nor an ambiguous short cluster nor an
   option of an enclosing level right of a command name) is parsed to Ok v exactly when it is a
   sentence denoting v -- C01_flat_complete, C01_tree_complete; what the grammar rejects is never
   parsed (C01_flat_rejected_never_ok, C01_tree_rejected_never_ok).  An item reads backwards to
   exactly its own occurrences, or leaves one of them behind; what the scan rejects (unknown name,
   name without value, stray value, word without a positional or that is no command) is a token no
   field can remove; the fields take whole occurrences only (a value still on the line has its key
   still on the line), so the first token they leave is a key or the command word the scan stopped
   at -- and a key is never taken for a command (TokOs.v: the text the tokenizer records for an
   option starts with a dash or is empty); the subcommand's own parser is judged by induction.
   ConvStderr.v adds the last clause: a rejected vector holds no help flag, the compiled tree has no
   `adjacent`, the default Info at every level and passes check_invariants at every level, so the run
   is total (TotalLaws.v), does not end on stdout (QuietLaws.v) and is not a value: it is an error
   message on stderr -- C01_tree_rejected_stderr.  C01_conformance puts the three cases side by side:
   this is the full statement of the property for the conventional fragment. *)
From Coq Require Import List Bool.
From BpafModel Require Import Conv.
From BpafLemmas Require Import Tac EvalEq Find Reach Ledger NoLoss C05Lemmas OkReach OkLaws ConvLaws AbsSim AbsTotal ConvRefine ConvTotal ConvChain ConvTree ConvSound ConvTreeSound QuietLaws ConvStderr.
Import ListNotations.

(* every sentence of a flat level, in every spelling and order the grammar admits, is accepted and
   yields exactly the value it denotes: occurrences attributed to the item that owns the name,
   repeated items in command-line order, absent optional items absent or defaulted *)
Theorem C01_sentences_accepted_flat :
  forall feat env items tail argv v,
  flat_ok items tail ->
  denote (Level items tail) argv = Accept v ->
  run_inner feat env (compile_options (Level items tail)) None argv = OutOk v.
Proof. exact denote_accept_flat. Qed.
Print Assumptions C01_sentences_accepted_flat.

(* the same for chains of nested subcommands *)
Theorem C01_sentences_accepted_chain :
  forall feat env l argv v,
  chain_ok l ->
  denote l argv = Accept v ->
  run_inner feat env (compile_options l) None argv = OutOk v.
Proof. exact denote_accept_chain. Qed.
Print Assumptions C01_sentences_accepted_chain.

Theorem C01_chain_ok_decidable : forall l, chain_okb l = true -> chain_ok l.
Proof. exact chain_okb_sound. Qed.
Print Assumptions C01_chain_ok_decidable.

(* the same for whole trees of subcommands: any number of subcommands (with aliases) at every level *)
Theorem C01_sentences_accepted_tree :
  forall feat env l argv v,
  tree_ok l ->
  denote l argv = Accept v ->
  run_inner feat env (compile_options l) None argv = OutOk v.
Proof. exact denote_accept_tree. Qed.
Print Assumptions C01_sentences_accepted_tree.

Theorem C01_tree_ok_decidable : forall l, tree_okb l = true -> tree_ok l.
Proof. exact tree_okb_sound. Qed.
Print Assumptions C01_tree_ok_decidable.

(* both directions for the flat level: on every vector the grammar specifies, the parser returns
   Ok v exactly for the sentences denoting v *)
Theorem C01_flat_complete :
  forall feat env items tail argv v,
  flat_ok items tail -> denote (Level items tail) argv <> Unspecified ->
  (denote (Level items tail) argv = Accept v <->
   run_inner feat env (compile_options (Level items tail)) None argv = OutOk v).
Proof. exact denote_complete_flat. Qed.
Print Assumptions C01_flat_complete.

(* ... and every other vector is an error: never a value *)
Theorem C01_flat_rejected_never_ok :
  forall feat env items tail argv,
  flat_ok items tail -> denote (Level items tail) argv = Reject ->
  forall v, run_inner feat env (compile_options (Level items tail)) None argv <> OutOk v.
Proof. exact denote_reject_flat. Qed.
Print Assumptions C01_flat_rejected_never_ok.

(* both directions for whole subcommand trees with plain command names *)
Theorem C01_tree_complete :
  forall feat env l argv v,
  tree_ok l -> plain_cmds l = true -> denote l argv <> Unspecified ->
  (denote l argv = Accept v <-> run_inner feat env (compile_options l) None argv = OutOk v).
Proof. exact denote_complete_tree. Qed.
Print Assumptions C01_tree_complete.

Theorem C01_tree_rejected_never_ok :
  forall feat env l argv,
  tree_ok l -> plain_cmds l = true -> denote l argv = Reject ->
  forall v, run_inner feat env (compile_options l) None argv <> OutOk v.
Proof. exact denote_reject_tree. Qed.
Print Assumptions C01_tree_rejected_never_ok.

(* ... it is reported as a failure on stderr *)
Theorem C01_tree_rejected_stderr :
  forall feat env l argv,
  tree_ok l -> plain_cmds l = true -> denote l argv = Reject ->
  exists m, run_inner feat env (compile_options l) None argv = OutStderr m.
Proof. exact denote_reject_stderr_tree. Qed.
Print Assumptions C01_tree_rejected_stderr.

(* THE PROPERTY, for every conventional definition (whole subcommand trees) and every vector:
   sentences yield exactly the value they denote, every other specified vector is a failure on
   stderr and never a value *)
Theorem C01_conformance :
  forall feat env l argv,
  tree_ok l -> plain_cmds l = true ->
  match denote l argv with
  | Accept v => run_inner feat env (compile_options l) None argv = OutOk v
  | Reject => exists m, run_inner feat env (compile_options l) None argv = OutStderr m
  | Unspecified => True
  end.
Proof.
  intros feat env l argv Hok Hpl. destruct (denote l argv) as [v| |] eqn:Hd; [|exact (denote_reject_stderr_tree feat env l argv Hok Hpl Hd)|exact I].
  exact (denote_accept_tree feat env l argv v Hok Hd).
Qed.
Print Assumptions C01_conformance.

(* every conventional tree is total on every vector *)
Theorem C01_tree_total :
  forall feat env l name argv, tree_ok l -> normal_outcome (run_inner feat env (compile_options l) name argv).
Proof. exact tree_run_total. Qed.
Print Assumptions C01_tree_total.

(* every vector, sentence or not: the outcome is a value, a help/version document or an error
   message -- never a panic outcome, never fuel exhaustion *)
Theorem C01_flat_total :
  forall feat env items tail argv,
  flat_ok items tail ->
  normal_outcome (run_inner feat env (compile_options (Level items tail)) None argv).
Proof. exact flat_run_total. Qed.
Print Assumptions C01_flat_total.

(* the fragment's evaluator sees the ledger only through its live tokens *)
Theorem C01_evaluator_depends_on_live_tokens_only :
  forall env n p, flatp p = true -> sim_ev n (eval env p) (aeval (S (S n)) p).
Proof. exact eval_sim. Qed.
Print Assumptions C01_evaluator_depends_on_live_tokens_only.

(* a key (`-x`, `--name`, with or without an attached value) that no item of the level tree owns
   and whose text is not a command name is never swallowed: no value is returned *)
Theorem C01_unowned_key_never_value_partial :
  forall feat env l name argv st amb i a,
  initial_state (compile_options l) name argv = (st, amb) ->
  nth_error (items st) i = Some a -> live st i -> is_key a = true ->
  (forall it, In it (all_items l) -> matches_arg (item_named it) false a = false) ->
  (forall w, In w (all_cmd_names l) -> beqb (arg_os a) w = false) ->
  forall v, run_inner feat env (compile_options l) name argv <> OutOk v.
Proof. exact unowned_key_never_value. Qed.
Print Assumptions C01_unowned_key_never_value_partial.

(* the declarative grammar at work: `-v`, `--out=FILE` (required), words...; sentences in two
   spellings denote the same value, a duplicated switch / a missing required argument / a value
   glued to a switch are not sentences, `--help` is left to C10 *)
Definition ex_level : level :=
  Level [CSwitch (mkNamed [118%N] [[118;101;114;98]%N] [] None);
         CArg (mkNamed [111%N] [[111;117;116]%N] [] None) [70%N] TyString ARequired]
        (TPos [mkCPos [87%N] TyString QMany]).
Example C01_example :
  denote ex_level [[45;118]; [45;45;111;117;116;61;120]; [97]; [98]]%N
    = Accept (VTuple [VBool true; VBytes [120%N]; VList [VBytes [97%N]; VBytes [98%N]]]) /\
  denote ex_level [[97]; [45;111;120]; [98]; [45;45;118;101;114;98]]%N
    = Accept (VTuple [VBool true; VBytes [120%N]; VList [VBytes [97%N]; VBytes [98%N]]]) /\
  denote ex_level [[45;118]; [45;118]; [45;111;120]]%N = Reject /\
  denote ex_level [[45;118]]%N = Reject /\
  denote ex_level [[45;45;118;101;114;98;61;49]; [45;111;120]]%N = Reject /\
  denote ex_level [[45;45;104;101;108;112]]%N = Unspecified /\
  run_inner (mkFeat true true false) (fun _ => None) (compile_options ex_level) None
            [[45;118]; [45;45;111;117;116;61;120]; [97]; [98]]%N
    = OutOk (VTuple [VBool true; VBytes [120%N]; VList [VBytes [97%N]; VBytes [98%N]]]).
Proof. vm_compute. repeat split; reflexivity. Qed.

(* the premises of C01_sentences_accepted_flat are satisfiable and decidable: `flat_okb` is a
   boolean sufficient condition (checked on every generated level by the conformance run) *)
Theorem C01_flat_ok_decidable :
  forall items tail, flat_okb items tail = true -> flat_ok items tail.
Proof. exact flat_okb_sound. Qed.
Print Assumptions C01_flat_ok_decidable.

Example C01_example_flat_ok :
  flat_ok [CSwitch (mkNamed [118%N] [[118;101;114;98]%N] [] None);
           CArg (mkNamed [111%N] [[111;117;116]%N] [] None) [70%N] TyString ARequired]
          (TPos [mkCPos [87%N] TyString QMany]).
Proof. apply flat_okb_sound. vm_compute. reflexivity. Qed.

(* a level offering two subcommands meets the premises of C01_sentences_accepted_tree *)
Example C01_example_tree_ok :
  tree_ok (Level [CSwitch (mkNamed [118%N] [] [] None)]
                 (TCmds (CCons [97%N] [] (Level [CSwitch (mkNamed [120%N] [] [] None); CSwitch (mkNamed [121%N] [] [] None)] TNone)
                        (CCons [98%N] [[99%N]] (Level [CSwitch (mkNamed [122%N] [] [] None); CSwitch (mkNamed [119%N] [] [] None)] TNone) CNil)))).
Proof. apply tree_okb_sound. vm_compute. reflexivity. Qed.
