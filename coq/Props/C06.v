(* C06 -- Absent is not invalid: defaults never mask bad values.
   Property theorems only; proofs live in Lemmas/.  `ev` is the evaluator of ANY inner parser. *)
From Coq Require Import String.
From BpafModel Require Import Message.
From BpafLemmas Require Import Tac CatchLaws MessageLaws MsgOk.

(* The catchable ("absent") messages are exactly these six; the table is regenerated from
   src/error.rs on every run, so this theorem is re-checked against the code. *)
Theorem C06_catch_table :
  forall m, can_catch m = true <->
    (exists x, m = MsgNoEnv x) \/ (exists x, m = MsgParseSome x) \/ (exists x, m = MsgParseFail x) \/
    (exists x, m = MsgPureFailed x) \/ (exists x, m = MsgMissing x) \/ (exists i x, m = MsgNonStrictPos i x).
Proof. exact catch_table. Qed.
Print Assumptions C06_catch_table.

(* A value that is present but fails conversion, `parse` or `guard` produces a FINAL error carrying
   the user's / the conversion's text. *)
Theorem C06_convert_fails :
  forall ty w s t, convert ty w = inr t ->
    convert_res ty w s = (RErr (MsgParseFailed (current s) t), s) /\
    can_catch (MsgParseFailed (current s) t) = false.
Proof. exact convert_fails. Qed.
Print Assumptions C06_convert_fails.

Theorem C06_guard_fails :
  forall ev check msg s v s1, ev s = (ROk v, s1) -> check v = false ->
    guard_body ev check msg s = (RErr (MsgGuardFailed (current s1) msg), s1) /\
    can_catch (MsgGuardFailed (current s1) msg) = false.
Proof. exact guard_fails. Qed.
Print Assumptions C06_guard_fails.

Theorem C06_parse_fails :
  forall ev f s v s1 t, ev s = (ROk v, s1) -> f v = inr t ->
    parse_body ev f s = (RErr (MsgParseFailed (current s1) t), s1) /\
    can_catch (MsgParseFailed (current s1) t) = false.
Proof. exact parse_fails. Qed.
Print Assumptions C06_parse_fails.

(* Every wrapper of the property's list passes a final error on unchanged (no `catch`). *)
Theorem C06_optional_final :
  forall ev s e s1, ev s = (RErr e, s1) -> can_catch e = false -> optional_body ev false s = (RErr e, s1).
Proof. exact optional_final. Qed.
Theorem C06_many_final :
  forall ev s e s1, ev s = (RErr e, s1) -> can_catch e = false -> many_body ev false s = (RErr e, s1).
Proof. exact many_final. Qed.
Theorem C06_some_final :
  forall ev msg s e s1, ev s = (RErr e, s1) -> can_catch e = false -> some_body ev msg false s = (RErr e, s1).
Proof. exact some_final. Qed.
Theorem C06_count_final :
  forall ev s e s1, ev s = (RErr e, s1) -> can_catch e = false -> count_body ev s = (RErr e, s1).
Proof. exact count_final. Qed.
Theorem C06_last_final :
  forall ev s e s1, ev s = (RErr e, s1) -> can_catch e = false -> last_body ev s = (RErr e, s1).
Proof. exact last_final. Qed.
Theorem C06_fallback_final :
  forall ev fb s e s1, ev s = (RErr e, s1) -> can_catch e = false -> fallback_with_body ev fb s = (RErr e, s).
Proof. exact fallback_final. Qed.
Print Assumptions C06_optional_final.
Print Assumptions C06_many_final.
Print Assumptions C06_some_final.
Print Assumptions C06_count_final.
Print Assumptions C06_last_final.
Print Assumptions C06_fallback_final.

(* ... at any iteration of a repetition, not only the first *)
Theorem C06_loop_final :
  forall ev fuel len s acc e s1, ev s = (RErr e, s1) -> can_catch e = false ->
    many_loop ev false (S fuel) len s acc = (RErr e, acc, s1).
Proof. exact many_loop_final. Qed.
Print Assumptions C06_loop_final.

Theorem C06_loop_errors_come_from_the_body :
  forall ev fuel len s acc e acc' s',
    many_loop ev false fuel len s acc = (RErr e, acc', s') -> exists s0 s1, ev s0 = (RErr e, s1).
Proof. exact many_loop_err_origin. Qed.
Print Assumptions C06_loop_errors_come_from_the_body.

(* guard / parse / map / hide never turn an error into a value *)
Theorem C06_passthrough :
  forall ev s e s1, ev s = (RErr e, s1) ->
    (forall c m, guard_body ev c m s = (RErr e, s1)) /\
    (forall f, parse_body ev f s = (RErr e, s1)) /\
    (forall f, map_body ev f s = (RErr e, s1)) /\
    (is_missing e = false -> hide_body ev s = (RErr e, s1)).
Proof. exact passthrough_err. Qed.
Print Assumptions C06_passthrough.

(* construct! reports the first failing field; later fields cannot replace its error by a value *)
Theorem C06_construct_keeps_error :
  forall evs ev s first acc e s1 r s',
    ev s = (RErr e, s1) -> con_go false (ev :: evs) s first acc None = (r, s') ->
    r = RErr e \/ (exists w, r = RPanic w) \/ r = RFuel.
Proof. exact con_go_first_failure. Qed.
Print Assumptions C06_construct_keeps_error.

(* absence, on the other hand, is catchable: an absent optional/defaulted item never fails *)
Theorem C06_optional_absent :
  forall ev s it, ev s = (RErr (missing_msg it s), s) -> optional_body ev false s = (ROk VNone, s).
Proof. exact optional_absent. Qed.
Theorem C06_fallback_absent :
  forall ev v s it, ev s = (RErr (missing_msg it s), s) -> fallback_body ev v s = (ROk v, s).
Proof. exact fallback_absent. Qed.
Print Assumptions C06_optional_absent.
Print Assumptions C06_fallback_absent.

(* ... and the message carries the text: the rendered error (Model/Message.v = Message::render, compared byte for
   byte with the library's stderr on every run) of a conversion / `parse` failure ends with `: ` and the
   conversion error text, of a guard failure with the guard's message; a `some`/`fail`/`fallback_with` failure IS the
   user's text.  (The evaluator reports these kinds untouched: render's first stage rewrites only `unconsumed item`
   and `missing items`.) *)
Theorem C06_message_carries_conversion_text :
  forall s mix t d,
    render_doc (RPlain (MsgParseFailed mix t)) s = Some d -> exists pre, doc_text d = pre ++ m_colon_sp ++ t.
Proof. exact parse_failed_text. Qed.
Print Assumptions C06_message_carries_conversion_text.

Theorem C06_message_carries_guard_text :
  forall s mix t d,
    render_doc (RPlain (MsgGuardFailed mix t)) s = Some d -> exists pre, doc_text d = pre ++ t.
Proof. exact guard_failed_text. Qed.
Print Assumptions C06_message_carries_guard_text.

Theorem C06_message_kinds_kept :
  forall msg s m,
    match msg with MsgUnconsumed _ | MsgMissing _ => False | _ => True end -> pre_render msg s m = Some (RPlain msg).
Proof. exact pre_render_keeps. Qed.
Print Assumptions C06_message_kinds_kept.

(* ... end to end for a command level: when its parser fails with a conversion / `parse` / guard failure (which the
   wrappers above hand on unchanged), a run of the level that ends on stderr reports exactly that message -- help and
   version requests and `fallback_to_usage` end on stdout instead -- and the document the failure carries (what
   Message::render built at that level) ends with the conversion error text / the guard's message *)
Theorem C06_failed_value_text_on_stderr :
  forall env q inf s s1 e m dd s2,
    eval env q s = (RErr e, s1) ->
    match e with MsgParseFailed _ _ | MsgGuardFailed _ _ => True | _ => False end ->
    run_sub env (Options q inf) s = (SFail (FStderr m dd), s2) ->
    m = e /\
    exists d, dd = Some d /\
              match e with
              | MsgParseFailed _ t => exists pre, doc_text d = pre ++ m_colon_sp ++ t
              | MsgGuardFailed _ t => exists pre, doc_text d = pre ++ t
              | _ => True
              end.
Proof. exact level_reports_failed_value. Qed.
Print Assumptions C06_failed_value_text_on_stderr.

(* non-vacuity: `--num x` under optional + fallback fails with the conversion text *)
Example C06_example :
  let p := PFallback (POptional (PArg (mkNamed [] [[110;117;109]%N] [] None) [78%N] TyU32 false) false) VNone [] in
  exists m, run_inner (mkFeat true true false) (fun _ => None) (Options p default_info) None
                      [[45;45;110;117;109]%N; [120]%N] = OutStderr (MsgParseFailed (Some 1) m).
Proof. eexists. vm_compute. reflexivity. Qed.

(* ... and what stderr shows for it *)
Example C06_example_text :
  let p := PFallback (POptional (PArg (mkNamed [] [[110;117;109]%N] [] None) [78%N] TyU32 false) false) VNone [] in
  match run_inner_state (mkFeat true true false) (fun _ => None) (Options p default_info) None [[45;45;110;117;109]%N; [120]%N] with
  | (SFail (FStderr m (Some d)), s') =>
    option_map utf8_encode (render_doc_text true d) =
    Some (bs "couldn't parse `x`: invalid digit found in string"%string)
  | _ => False
  end.
Proof. vm_compute. reflexivity. Qed.
