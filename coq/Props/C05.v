(* C05 -- Every command-line item is used exactly once or the run fails.
   Property theorems only; proofs live in Lemmas/. *)
From BpafLemmas Require Import Tac Find RunSub Reach Ledger NoLoss C05Lemmas LoopLaws Exact TotalLaws TotalAll.

(* A run yields a value only when no live item is left in the final scope. *)
Theorem C05_ok_scope_consumed :
  forall env q inf s v s',
    run_sub env (Options q inf) s = (SOk v, s') -> first_item_ix s' = None.
Proof. intros env q inf s v s' H. exact (proj2 (run_sub_ok _ _ _ _ _ _ H)). Qed.
Check C05_ok_scope_consumed :
  forall env q inf s v s',
    run_sub env (Options q inf) s = (SOk v, s') -> first_item_ix s' = None.
Print Assumptions C05_ok_scope_consumed.

(* Exactly once: for EVERY parser (all combinators, any nesting; K is any predicate satisfied by
   the consumers occurring in it), if run_subparser started on a well-formed state whose scope is
   the whole line returns a value, then the ghost log grew by a duplicate-free list of entries
   (index, consumer) that covers every item that was live at the start, each consumer being one of
   the parser's own and accepting the token it claimed; and no item is live any more. *)
Theorem C05_exactly_once :
  forall K env o s v s',
    okinds_ok K o -> lenwf s -> full_scope s ->
    run_sub env o s = (SOk v, s') ->
    exists l,
      log s' = l ++ log s /\
      NoDup (map fst l) /\
      (forall i, live s i -> In i (map fst l)) /\
      (forall i k, In (i, k) l ->
         K k /\ live s i /\ forall a, nth_error (items s) i = Some a -> accepts k a = true) /\
      (forall i, i < length (items s) -> dead s' i).
Proof. exact exactly_once. Qed.
Check C05_exactly_once :
  forall K env o s v s',
    okinds_ok K o -> lenwf s -> full_scope s ->
    run_sub env o s = (SOk v, s') ->
    exists l,
      log s' = l ++ log s /\
      NoDup (map fst l) /\
      (forall i, live s i -> In i (map fst l)) /\
      (forall i k, In (i, k) l ->
         K k /\ live s i /\ forall a, nth_error (items s) i = Some a -> accepts k a = true) /\
      (forall i, i < length (items s) -> dead s' i).
Print Assumptions C05_exactly_once.

(* An item that no consumer of the parser accepts makes the run fail: it can never yield a value. *)
Theorem C05_foreign_item :
  forall env o s i a,
    okinds_ok (fun k => accepts k a = false) o -> lenwf s -> full_scope s ->
    nth_error (items s) i = Some a -> live s i ->
    forall v s', run_sub env o s <> (SOk v, s').
Proof. exact foreign_item. Qed.
Check C05_foreign_item :
  forall env o s i a,
    okinds_ok (fun k => accepts k a = false) o -> lenwf s -> full_scope s ->
    nth_error (items s) i = Some a -> live s i ->
    forall v s', run_sub env o s <> (SOk v, s').
Print Assumptions C05_foreign_item.

(* The same, from the argument vector: run_inner on any vector. The initial state built by
   State::construct is well formed, its scope is the whole line, and exactly the `--` separator
   (if any) is pre-consumed, by the tokenizer. *)
Theorem C05_run_inner :
  forall K feat env o name argv v s',
    okinds_ok K o ->
    run_inner_state feat env o name argv = (SOk v, s') ->
    let n := length (items s') in
    NoDup (map fst (log s')) /\
    (forall i, i < n -> In i (map fst (log s'))) /\
    (forall i k, In (i, k) (log s') ->
       i < n /\ (k = KTok \/ (K k /\ forall a, nth_error (items s') i = Some a -> accepts k a = true))).
Proof. exact run_inner_exactly_once. Qed.
Check C05_run_inner :
  forall K feat env o name argv v s',
    okinds_ok K o ->
    run_inner_state feat env o name argv = (SOk v, s') ->
    let n := length (items s') in
    NoDup (map fst (log s')) /\
    (forall i, i < n -> In i (map fst (log s'))) /\
    (forall i k, In (i, k) (log s') ->
       i < n /\ (k = KTok \/ (K k /\ forall a, nth_error (items s') i = Some a -> accepts k a = true))).
Print Assumptions C05_run_inner.

(* the counter behind `is_empty` / the leftover check / the repetition loops (`remaining`) is EXACTLY the
   number of available items inside the scope: initially, and after the evaluation of every parser from
   every well-formed state *)
Theorem C05_remaining_counts_exactly :
  forall env p s, G s ->
  remaining (snd (eval env p s)) =
  count_present (ist (snd (eval env p s))) (sc_start (snd (eval env p s))) (sc_end (snd (eval env p s))).
Proof. intros env p s Hg. exact (proj2 (proj2 (proj1 (eval_keepsG env p s Hg)))). Qed.
Print Assumptions C05_remaining_counts_exactly.

Theorem C05_remaining_counts_exactly_initially :
  forall sf sa name argv, G (fst (construct sf sa name argv)).
Proof. exact construct_G. Qed.
Print Assumptions C05_remaining_counts_exactly_initially.

(* non-vacuity: a concrete parser and line on which the hypotheses hold and a value is produced *)
Example C05_witness :
  exists v s', run_inner_state (mkFeat true true false) (fun _ => None) c05_example_parser None
                               c05_example_argv = (SOk v, s')
               /\ length (items s') = 4.
Proof. eexists. eexists. split; [vm_compute; reflexivity|reflexivity]. Qed.
