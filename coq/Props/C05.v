(* C05 -- Every command-line item is used exactly once or the run fails.
   Property theorems only; proofs live in Lemmas/. *)
From BpafLemmas Require Import Tac Find RunSub.

(* A run yields a value only when no live item is left in the final scope. *)
Theorem C05_ok_scope_consumed :
  forall env q inf s v s',
    run_sub env (Options q inf) s = (SOk v, s') -> first_item_ix s' = None.
Proof. intros env q inf s v s' H. exact (proj2 (run_sub_ok _ _ _ _ _ _ H)). Qed.
Check C05_ok_scope_consumed :
  forall env q inf s v s',
    run_sub env (Options q inf) s = (SOk v, s') -> first_item_ix s' = None.
Print Assumptions C05_ok_scope_consumed.
