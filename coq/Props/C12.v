(* C12 -- Generated help documents exactly what the parser accepts.
   Property theorems only; proofs live in Lemmas/HelpItems.v and Lemmas/HelpOrder.v.  The model of
   the help generator (Model/Help.v) is compared token for token with the library's Doc on every
   run.  PARTIAL: the theorems are about the item list handed to the writer (what is listed, in
   which order, under which wrappers) and the block order of the document; that the writer emits one
   definition-list entry per item that is not a duplicate in name and help is by construction of
   `write_deduped` and is checked on the implementation by the oracle, not stated as a theorem. *)
From Coq Require Import List NArith.
From BpafModel Require Import Help Eval.
From BpafLemmas Require Import HelpItems HelpOrder HtmlLaws BalLaws HelpEntries.
Import ListNotations.

(* `vis p` (Lemmas/HelpItems.v) is the direct specification: the visible leaves of a parser in
   declaration order -- each flag and argument with its FIRST short/long name, metavariable, env
   variable and help, each positional that has help, each command with its short alias and
   description; nothing under `hide`.  The entries collected for --help (Parser::meta followed by
   HelpItems::append_meta), structural markers aside, are exactly those: nothing is lost, nothing is
   added, for every parser shape. *)
Theorem C12_items_exact :
  forall p no_subsections, reals (append_go (meta_of p) no_subsections []) = vis p.
Proof. exact help_items_exact. Qed.
Print Assumptions C12_items_exact.

(* hide_usage / custom_usage change only the usage line, never the item lists *)
Theorem C12_usage_wrappers_keep_items :
  forall q d acc, append_meta acc (meta_of (PUsage q d)) = append_meta acc (meta_of q).
Proof. exact usage_only. Qed.
Print Assumptions C12_usage_wrappers_keep_items.

(* group_help adds a titled section; the entries stay the same *)
Theorem C12_group_help_same_entries :
  forall q d b, reals (append_go (meta_of (PGroupHelp q d)) b []) = vis q.
Proof. exact group_help_same_entries. Qed.
Print Assumptions C12_group_help_same_entries.

(* items under hide are not listed *)
Theorem C12_hidden_not_listed :
  forall q b, append_go (meta_of (PHide q)) b [] = [].
Proof. exact hidden_contributes_nothing. Qed.
Print Assumptions C12_hidden_not_listed.

(* every name shown for a flag / an argument is one its parser accepts (the first short and the
   first long name; aliases are accepted too but not shown) *)
Theorem C12_shown_flag_name_accepted :
  forall n it, flag_item n = Some it ->
  exists sl sh e h, it = IFlag sl sh e h /\
    match sl with
    | SLShort c => matches_arg n false (Short c false []) = true
    | SLLong l => matches_arg n false (Long l false []) = true
    | SLBoth c l => matches_arg n false (Short c false []) = true /\ matches_arg n false (Long l false []) = true
    end.
Proof. exact shown_flag_name_accepted. Qed.
Print Assumptions C12_shown_flag_name_accepted.

Theorem C12_shown_arg_name_accepted :
  forall n mv it, arg_item n mv = Some it ->
  exists sl sh e h, it = IArgument sl sh mv e h /\ sl_accepted n sl.
Proof. exact shown_arg_name_accepted. Qed.
Print Assumptions C12_shown_arg_name_accepted.

(* description ; usage ; header ; item lists ; footer -- in this order, each declared text a block
   of its own, whatever the items and the usage line are *)
Theorem C12_document_order :
  forall env path inf parser_meta help_meta include_env d,
  render_help env path inf parser_meta help_meta include_env = Some d ->
  exists usage items,
    d = dblock [] (i_descr inf) ++ ([TStart BBlock] ++ usage ++ [TEnd BBlock])
        ++ dblock [] (i_header inf) ++ items ++ dblock [] (i_footer inf).
Proof. exact render_help_order. Qed.
Print Assumptions C12_document_order.

(* One definition-list entry per non-duplicate item, nothing in between: written onto a document that does
   not end in a text chunk, an item list is EXACTLY the concatenation, in order, of the entries
   (`item_doc`: term, help body, environment line) of the items that survive the duplicate filter *)
Theorem C12_item_list_is_its_entries :
  forall env items include_env d seen keepf, closed d ->
  write_deduped env d items seen keepf include_env =
  d ++ flat_map (fun it => item_doc env it include_env) (kept items seen keepf).
Proof. exact write_deduped_entries. Qed.
Print Assumptions C12_item_list_is_its_entries.

(* a section (`Available options:` ...) is absent when no item of its kind is left, otherwise it is the
   header, the entries of the kept items of that kind, and the two closing tokens *)
Theorem C12_section_is_header_and_entries :
  forall env d items ty name include_env, closed d ->
  write_help_items env d items ty name include_env =
  d ++ match items_of_ty ty IBNo items with
       | [] => []
       | xs => [TStart BBlock; TStart BSection2; TText SEmphasis name; TEnd BSection2; TStart BDefinitionList]
               ++ flat_map (fun it => item_doc env it include_env) (kept xs [] false)
               ++ [TEnd BDefinitionList; TEnd BBlock]
       end.
Proof. exact help_section_entries. Qed.
Print Assumptions C12_section_is_header_and_entries.

(* the duplicate filter drops an item only when an entry with the same name, metavariable and help text
   has already been written in the same list *)
Theorem C12_dropped_items_are_duplicates :
  forall items seen keepf it k,
  In it items -> key_of it = Some k ->
  In it (kept items seen keepf) \/ existsb (dkey_eqb k) seen = true \/
  exists it' k', In it' (kept items seen keepf) /\ key_of it' = Some k' /\ dkey_eqb k k' = true.
Proof. exact kept_or_duplicate. Qed.
Print Assumptions C12_dropped_items_are_duplicates.

(* the help document exists and its blocks are balanced, for every parser definition whose own documents
   (help texts, group titles, custom usage, description, header, footer: `odok`) are balanced -- the Doc
   API builds no others: in particular the group loop of write_help_item_groups terminates *)
Theorem C12_help_document_total_balanced :
  forall env path o include_env, odok o ->
  exists d, render_help env path (oinfo_of o) (ometa_of o) (info_meta (oinfo_of o)) include_env = Some d /\
            bal [] d = true.
Proof. exact help_document_total_balanced. Qed.
Print Assumptions C12_help_document_total_balanced.

(* non-vacuity: `-v/--verbose/--loud` (alias), a hidden `--secret`, and `--out=FILE`: the list has
   exactly two entries, with the first names only *)
Example C12_example :
  let verbose := mkNamed [118%N] [[118;101;114;98]%N; [108;111;117;100]%N] [] None in
  let secret := mkNamed [] [[115;101;99]%N] [] None in
  let out := mkNamed [] [[111;117;116]%N] [] None in
  let p := PCon (PCons (PFlag verbose (VBool true) (Some (VBool false)))
                (PCons (PHide (PFlag secret (VBool true) (Some (VBool false))))
                (PCons (PArg out [70;73;76;69]%N TyString false) PNil))) in
  reals (append_go (meta_of p) false []) =
  [HFlag (SLBoth 118%N [118;101;114;98]%N) None None; HArgument (SLLong [111;117;116]%N) [70;73;76;69]%N None None].
Proof. vm_compute. reflexivity. Qed.
