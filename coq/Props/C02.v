(* C02 -- Equivalent spellings mean the same thing; values arrive byte-exact.
   Property theorems only; proofs live in Lemmas/.  Byte strings are arbitrary lists of bytes:
   every law below holds for empty values, values containing `=`, spaces, dashes, non-UTF-8. *)
From BpafLemmas Require Import Tac TokLaws LeafLaws.

(* --name=value : the name is the text before the first `=`, the value every byte after it *)
Theorem C02_long_eq :
  forall n v, no_eq n -> utf8_valid n = true ->
    split_os_argument (c_dash :: c_dash :: n ++ c_eq :: v) = Some (ATLong, n, Some v).
Proof. exact split_long_eq. Qed.
Print Assumptions C02_long_eq.

Theorem C02_long_plain :
  forall n, no_eq n -> n <> [] -> utf8_valid n = true ->
    split_os_argument (c_dash :: c_dash :: n) = Some (ATLong, n, None).
Proof. exact split_long_plain. Qed.
Print Assumptions C02_long_plain.

(* -c=value and -c, for one-byte short names *)
Theorem C02_short_eq :
  forall c v, (c <? 128)%N = true -> (c =? c_dash)%N = false ->
    split_os_argument (c_dash :: c :: c_eq :: v) = Some (ATShort, [c], Some v).
Proof. exact split_short_eq. Qed.
Print Assumptions C02_short_eq.

Theorem C02_short_plain :
  forall c, (c <? 128)%N = true -> (c =? c_dash)%N = false ->
    split_os_argument [c_dash; c] = Some (ATShort, [c], None).
Proof. exact split_short_plain. Qed.
Print Assumptions C02_short_plain.

(* -cvalue where the value contains `=`: everything after the first character, `=` included *)
Theorem C02_short_adj_eq :
  forall c v1 v2, (c <? 128)%N = true -> (c =? c_dash)%N = false -> no_eq v1 -> v1 <> [] ->
    split_os_argument (c_dash :: c :: v1 ++ c_eq :: v2) = Some (ATShort, [c], Some (v1 ++ c_eq :: v2)).
Proof. exact split_short_adj_eq. Qed.
Print Assumptions C02_short_adj_eq.

(* ... and for short names of ANY character, one to four bytes long (true after the fix: commit in /repo: before it the
   name was cut after its first BYTE and `-ж=1` was not recognised at all -- the former known finding
   C02-short-eq-multibyte, then the `_refuted` theorem of this file): `-X=value` gives the name X and every byte after
   the `=` *)
Theorem C02_short_eq_any_char :
  forall n v ch,
    utf8_decode n = Some [ch] -> (hd 0%N n =? c_dash)%N = false ->
    split_os_argument (c_dash :: n ++ c_eq :: v) = Some (ATShort, n, Some v).
Proof. exact split_short_eq_char. Qed.
Print Assumptions C02_short_eq_any_char.

(* ... and `-Xvalue=more`: everything after the CHARACTER X is the value, the `=` included *)
Theorem C02_short_adj_eq_any_char :
  forall n v1 v2 ch,
    utf8_decode n = Some [ch] -> (hd 0%N n =? c_dash)%N = false -> no_eq v1 -> v1 <> [] ->
    split_os_argument (c_dash :: n ++ v1 ++ c_eq :: v2) = Some (ATShort, n, Some (v1 ++ c_eq :: v2)).
Proof. exact split_short_adj_eq_char. Qed.
Print Assumptions C02_short_adj_eq_any_char.

Example C02_example_cyrillic_short :
  split_os_argument [45; 208; 182; 61; 49]%N = Some (ATShort, [208; 182]%N, Some [49%N]).
Proof. exact split_short_eq_cyrillic. Qed.

(* -abc = -a -b -c when every letter is a declared flag and none is also an argument *)
Theorem C02_cluster :
  forall sf sa os cs,
    (forall c, In c cs -> mem_N c sf = true /\ mem_N c sa = false) -> length cs >= 2 ->
    disambiguate_short sf sa os cs =
    DisOk (match cs with
           | [] => []
           | c :: t => Short c false os :: map (fun c => Short c false []) t
           end).
Proof. exact cluster_tokens. Qed.
Print Assumptions C02_cluster.

(* tokens are computed item by item: respelling one occurrence changes only its own tokens *)
Theorem C02_tokens_local :
  forall sf sa a b ta tb,
    pre_tokens sf sa a = Some ta -> pre_tokens sf sa b = Some tb ->
    pre_tokens sf sa (a ++ b) = Some (ta ++ tb).
Proof. exact pre_tokens_app. Qed.
Print Assumptions C02_tokens_local.

Theorem C02_tokenize :
  forall sf sa pre toks, pre_tokens sf sa pre = Some toks -> tokenize sf sa pre = mkTok toks None None.
Proof. exact tokenize_no_dashdash. Qed.
Print Assumptions C02_tokenize.

(* the consumer does not distinguish a separated value from an attached one, and hands over the
   token's bytes unchanged *)
Theorem C02_take_arg_value :
  forall n adj s k w,
    find_item s (fun _ a => matches_arg n adj a) = Some k ->
    (get s (S k) = Some (Word w) \/ get s (S k) = Some (ArgWord w)) ->
    take_arg n adj s = TASome w (sremove (KArgVal n) (S k) (sremove (KArgKey n) k s)).
Proof. exact take_arg_value. Qed.
Print Assumptions C02_take_arg_value.

Theorem C02_value_exact_os :
  forall w, convert TyOsString w = inl (VBytes w) /\ convert TyPathBuf w = inl (VBytes w).
Proof. exact convert_os_exact. Qed.
Print Assumptions C02_value_exact_os.

Theorem C02_value_exact_string :
  forall w, (utf8_valid w = true -> convert TyString w = inl (VBytes w)) /\
            (utf8_valid w = false -> exists e, convert TyString w = inr e).
Proof. exact convert_string_exact. Qed.
Print Assumptions C02_value_exact_string.

(* an argument restricted with `adjacent` only matches keys that carry their value in the same item *)
Theorem C02_adjacent_only_attached :
  forall n a, matches_arg n true a = true ->
    match a with Short _ adj _ | Long _ adj _ => adj = true | _ => False end.
Proof.
  intros n a. destruct a; cbn; try discriminate; intros H; apply andb_prop in H; destruct H as [_ H];
    destruct adj; cbn in H; congruence.
Qed.
Print Assumptions C02_adjacent_only_attached.

Example C02_example :
  tokenize [] [110%N] [[45;45;110;97;109;101;61;61;61]%N; [45;110;61]%N] =
  mkTok [Long [110;97;109;101]%N true [45;45;110;97;109;101;61;61;61]%N; ArgWord [61;61]%N;
         Short 110%N true [45;110;61]%N; ArgWord []] None None.
Proof. vm_compute. reflexivity. Qed.

(* ------------------------------------------------------------------ whole conventional trees *)
(* After tokenisation the spellings `--name value`, `--name=value`, `-n value`, `-n=value`, `-nvalue`
   of one argument, and `-abc` against `-a -b -c`, differ only in the `adjacent` bit and the recorded
   text of the option tokens, in which of its names an item is written with, and in whether a VALUE is
   a Word or an ArgWord (theorems above).  `Resp l` relates two token lists that differ in nothing
   else, level by level through the subcommand tree.  The grammar does not tell such lists apart
   (ConvRespell.v), so by C01_conformance the parser does not either: both vectors are accepted with
   the same value, or both are reported on stderr. *)
From Coq Require Import List NArith.
From BpafModel Require Import Conv.
From BpafLemmas Require Import ConvRefine ConvChain ConvTree ConvSound ConvRespell.
Import ListNotations.

Theorem C02_respelling_tree :
  forall feat env l argv1 argv2,
  tree_ok l -> plain_cmds l = true ->
  let st := short_tables (compile_options l) in
  let t1 := tokenize (fst st) (snd st) argv1 in
  let t2 := tokenize (fst st) (snd st) argv2 in
  t_ambiguity t1 = None -> t_ambiguity t2 = None ->
  Resp l (mark_tokens t1) (mark_tokens t2) ->
  denote l argv1 <> Unspecified -> denote l argv2 <> Unspecified ->
  (exists v, run_inner feat env (compile_options l) None argv1 = OutOk v /\
             run_inner feat env (compile_options l) None argv2 = OutOk v) \/
  (exists m1 m2, run_inner feat env (compile_options l) None argv1 = OutStderr m1 /\
                 run_inner feat env (compile_options l) None argv2 = OutStderr m2).
Proof. exact respell_outcome. Qed.
Print Assumptions C02_respelling_tree.

Theorem C02_respelling_same_verdict :
  forall l argv1 argv2,
  let st := short_tables (compile_options l) in
  let t1 := tokenize (fst st) (snd st) argv1 in
  let t2 := tokenize (fst st) (snd st) argv2 in
  t_ambiguity t1 = None -> t_ambiguity t2 = None ->
  Resp l (mark_tokens t1) (mark_tokens t2) ->
  vsimv (denote l argv1) (denote l argv2).
Proof. exact respell_verdict. Qed.
Print Assumptions C02_respelling_same_verdict.

(* the relation is inhabited by the spellings the property lists: `--out=x -v a`, `-o x --verb a`
   for a level with the switch -v/--verb, the argument -o/--out and positional words *)
Definition c02_level : level :=
  Level [CSwitch (mkNamed [118%N] [[118;101;114;98]%N] [] None);
         CArg (mkNamed [111%N] [[111;117;116]%N] [] None) [70%N] TyString ARequired]
        (TPos [mkCPos [87%N] TyString QMany]).
Definition c02_toks (argv : list bytes) :=
  mark_tokens (tokenize (fst (short_tables (compile_options c02_level))) (snd (short_tables (compile_options c02_level))) argv).
Example C02_example_respell :
  Resp c02_level (c02_toks [[45;45;111;117;116;61;120]; [45;118]; [97]]%N)
                 (c02_toks [[45;111]; [120]; [45;45;118;101;114;98]; [97]]%N).
Proof.
  vm_compute.
  eapply RKeyVal; [repeat split; try reflexivity; discriminate|vm_compute; reflexivity|reflexivity|reflexivity|reflexivity|].
  eapply RFlagKey; [repeat split; try reflexivity; discriminate| |].
  - intros j it H. vm_compute in H. inversion H; subst. reflexivity.
  - eapply RTok; [reflexivity|reflexivity|intros cs w H; discriminate|]. apply RNil.
Qed.
