(* C18 -- Environment variables are a fallback below the command line.
   Property theorems only; proofs live in Lemmas/. *)
From BpafLemmas Require Import Tac EnvFrame.

(* Frame: variables the parser does not declare never influence the outcome -- for EVERY parser
   (all combinators, any nesting) and every argument vector. *)
Theorem C18_frame :
  forall feat e1 e2 o name argv,
    agree e1 e2 (oenv_names o) -> run_inner feat e1 o name argv = run_inner feat e2 o name argv.
Proof. exact env_frame_run_inner. Qed.
Print Assumptions C18_frame.

Theorem C18_frame_eval :
  forall e1 e2,
    (forall p, agree e1 e2 (env_names p) -> forall s, eval e1 p s = eval e2 p s) /\
    (forall o, agree e1 e2 (oenv_names o) -> forall s, run_sub e1 o s = run_sub e2 o s).
Proof.
  intros e1 e2. destruct (env_frame_all e1 e2) as (A & _ & C). split; [exact A|exact C].
Qed.
Print Assumptions C18_frame_eval.

(* Precedence at the leaf: the command line first ... *)
Theorem C18_line_first :
  forall e n mv ty adj s w s',
    take_arg n adj s = TASome w s' -> eval_arg e n mv ty adj s = convert_res ty w s'.
Proof. exact arg_line_first. Qed.
Print Assumptions C18_line_first.

(* ... then the first declared variable that is set, through the SAME conversion ... *)
Theorem C18_env_fallback :
  forall e n mv ty adj s v,
    take_arg n adj s = TANone -> env_first e (n_env n) = Some v ->
    eval_arg e n mv ty adj s = convert_res ty v (set_current s None).
Proof. exact arg_env_fallback. Qed.
Print Assumptions C18_env_fallback.

Theorem C18_first_set_variable :
  forall e names v,
    env_first e names = Some v <->
    exists pre n post, names = pre ++ n :: post /\ e n = Some v /\ forall m, In m pre -> e m = None.
Proof. exact env_first_spec. Qed.
Print Assumptions C18_first_set_variable.

(* ... and with both absent the item is absent: a catchable error naming the item or the variable *)
Theorem C18_absent :
  forall e n mv ty adj s,
    take_arg n adj s = TANone -> env_first e (n_env n) = None ->
    snd (eval_arg e n mv ty adj s) = s /\
    ((exists it, arg_item n mv = Some it /\ fst (eval_arg e n mv ty adj s) = RErr (missing_msg it s)) \/
     (exists v t, n_env n = v :: t /\ fst (eval_arg e n mv ty adj s) = RErr (MsgNoEnv v)) \/
     (n_short n = [] /\ n_long n = [] /\ n_env n = [])).
Proof. exact arg_absent. Qed.
Print Assumptions C18_absent.

(* a flag counts as present iff it is on the line or some declared variable is set *)
Theorem C18_flag_present :
  forall e n p a s,
    fst (eval_flag e n p a s) = ROk p <->
    (take_flag n s <> None \/ env_first e (n_env n) <> None \/ a = Some p).
Proof. exact flag_present_iff. Qed.
Print Assumptions C18_flag_present.

Example C18_example :
  let p := PArg (mkNamed [] [[110]%N] [[69]%N] None) [78%N] TyU32 false in
  let o := Options (POptional p false) default_info in
  let env1 := fun k => if beqb k [69%N] then Some [55%N] else None in
  run_inner (mkFeat true true false) env1 o None [] = OutOk (VSome (VNum 7)) /\
  run_inner (mkFeat true true false) env1 o None [[45;45;110;61;57]%N] = OutOk (VSome (VNum 9)) /\
  run_inner (mkFeat true true false) (fun _ => None) o None [] = OutOk VNone.
Proof. repeat split; vm_compute; reflexivity. Qed.
