(* C20 -- Optional cargo features do not change parsing.
   Property theorems only; proofs live in Lemmas/.  The model carries the feature switches exactly
   where the code has #[cfg(feature = ..)] in paths that run outside completion mode: the docgen
   switch of the splitter; (the autocomplete switch of run_inner disappeared with the fix: commit). *)
From Coq Require Import List NArith.
From BpafModel Require Import Console Eval CompEval.
From BpafLemmas Require Import FeatLaws CompInert.
Import ListNotations.

(* Parsing: the outcome of run_inner does not depend on the feature record, for every parser,
   vector and environment. *)
Theorem C20_run_inner :
  forall f1 f2 env o name argv, run_inner f1 env o name argv = run_inner f2 env o name argv.
Proof. exact run_inner_features_irrelevant. Qed.
Print Assumptions C20_run_inner.

(* The feature-gated bookkeeping threaded through every parser: Model/CompEval.v is the evaluator of a build WITH the
   `autocomplete` feature (state = ledger + `comp: Option<Complete>`; every cfg(feature = "autocomplete") statement of
   the eval paths; parsers may carry `complete(f)` / `complete_shell(op)` wrappers).  Without a completion request
   (`comp = None`) it computes, for EVERY parser, state and environment, exactly what the evaluator without the
   feature computes on the parser with the wrappers erased, and leaves `comp = None`. *)
Theorem C20_bookkeeping_inert_every_parser :
  forall env docgen p s,
    ceval env docgen p (s, None) = (fst (eval env (erase p) s), (snd (eval env (erase p) s), None)).
Proof. exact ceval_inert. Qed.
Print Assumptions C20_bookkeeping_inert_every_parser.

Theorem C20_bookkeeping_inert_every_command_level :
  forall env docgen o s,
    crun_sub env docgen o (s, None) = (fst (run_sub env (erase_o o) s), (snd (run_sub env (erase_o o) s), None)).
Proof. exact crun_sub_inert. Qed.
Print Assumptions C20_bookkeeping_inert_every_command_level.

(* run_inner: for every argument vector that does not contain the completion marker (no item `--bpaf-complete-rev=..`,
   no Args::set_comp) the build with `autocomplete` gives the outcome of the build without it *)
Theorem C20_autocomplete_does_not_change_parsing :
  forall feat env o name argv,
    (forall w, In w argv -> marker_rev w = None) ->
    c_run_inner feat env o name argv None = run_inner feat env (erase_o o) name argv.
Proof. exact c_run_inner_no_request. Qed.
Print Assumptions C20_autocomplete_does_not_change_parsing.

(* Help and error text: with and without `docgen` the splitter produces the same chunks for every
   text that contains no fenced code block ("\n\n```"), hence the same console rendering at every
   width and in both forms. *)
Theorem C20_split_docgen_partial :
  forall s, nofence s -> Console.split true s = Console.split false s.
Proof. exact split_docgen_irrelevant. Qed.
Print Assumptions C20_split_docgen_partial.

Theorem C20_render_docgen_partial :
  forall full mw d, doc_nofence d -> render_console true full mw d = render_console false full mw d.
Proof. exact render_docgen_irrelevant. Qed.
Print Assumptions C20_render_docgen_partial.

(* The restriction cannot be dropped: for a fenced code block the two builds split the text
   differently. Witness, replayed on the implementation = known finding C20-fenced-code. *)
Theorem C20_docgen_refuted : exists s, Console.split true s <> Console.split false s.
Proof. exact split_docgen_refuted. Qed.
Print Assumptions C20_docgen_refuted.

Example C20_example :
  nofence [104; 105; 10; 10; 120]%N.
Proof.
  intros pre suf E.
  destruct pre as [|a [|b [|c [|d [|e [|f pre]]]]]]; cbn in E; inversion E; subst; try reflexivity.
Qed.

(* non-vacuity: a parser with a completer on an argument, a line without a marker -- both builds return the value *)
Example C20_example_completer :
  let o := XOptions (XComplete (XArg (mkNamed [110%N] [] [] None) [78%N] TyString false) (completer_menu 0%N) None) default_info in
  let argv := [[45; 110]%N; [97]%N] in
  c_run_inner (mkFeat true true false) (fun _ => None) o None argv None = OutOk (VBytes [97%N]) /\
  run_inner (mkFeat false false false) (fun _ => None) (erase_o o) None argv = OutOk (VBytes [97%N]).
Proof. vm_compute. split; reflexivity. Qed.
