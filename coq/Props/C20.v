(* C20 -- Optional cargo features do not change parsing.
   Property theorems only; proofs live in Lemmas/.  The model carries the feature switches exactly
   where the code has #[cfg(feature = ..)] in paths that run outside completion mode: the docgen
   switch of the splitter; (the autocomplete switch of run_inner disappeared with the fix: commit). *)
From Coq Require Import List NArith.
From BpafModel Require Import Console Eval.
From BpafLemmas Require Import FeatLaws.
Import ListNotations.

(* Parsing: the outcome of run_inner does not depend on the feature record, for every parser,
   vector and environment. *)
Theorem C20_run_inner :
  forall f1 f2 env o name argv, run_inner f1 env o name argv = run_inner f2 env o name argv.
Proof. exact run_inner_features_irrelevant. Qed.
Print Assumptions C20_run_inner.

(* Help and error text: with and without `docgen` the splitter produces the same chunks for every
   text that contains no fenced code block ("\n\n```"), hence the same console rendering at every
   width and in both forms. *)
Theorem C20_split_docgen_partial :
  forall s, nofence s -> Console.split true s = Console.split false s.
Proof. exact split_docgen_irrelevant. Qed.
Print Assumptions C20_split_docgen_partial.

Theorem C20_render_docgen_partial :
  forall full mw d, doc_nofence d -> render_console true full mw d = render_console false full mw d.
Proof. exact render_docgen_irrelevant. Qed.
Print Assumptions C20_render_docgen_partial.

(* The restriction cannot be dropped: for a fenced code block the two builds split the text
   differently. Witness, replayed on the implementation = known finding C20-fenced-code. *)
Theorem C20_docgen_refuted : exists s, Console.split true s <> Console.split false s.
Proof. exact split_docgen_refuted. Qed.
Print Assumptions C20_docgen_refuted.

Example C20_example :
  nofence [104; 105; 10; 10; 120]%N.
Proof.
  intros pre suf E.
  destruct pre as [|a [|b [|c [|d [|e [|f pre]]]]]]; cbn in E; inversion E; subst; try reflexivity.
Qed.
