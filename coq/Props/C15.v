(* C15 -- Completion scripts for real shells are well-formed and inert.
   Property theorems only; proofs live in Lemmas/.  Model/Shell.v transcribes the four renderers
   (after the three fix: commits); it is tied to the code on every run by rendering the same
   candidate lists, shell operations and typed words with the library's own renderers (hook). *)
From Coq Require Import List NArith.
From BpafModel Require Import Shell.
From BpafLemmas Require Import ShellLaws.
Import ListNotations.

(* Quote round-trip.  `unquote` is a lexer for ONE shell word consisting of data only: it fails on
   any unquoted, unescaped character.  For EVERY string s -- quotes, `$()`, `;`, spaces, newlines,
   non-ASCII -- the escaped form is read back as exactly s: the shell treats it as data. *)
Theorem C15_quote_roundtrip : forall s, unquote (quote s) = Some s.
Proof. exact quote_roundtrip. Qed.
Print Assumptions C15_quote_roundtrip.

Theorem C15_quote_injective : forall a b, quote a = quote b -> a = b.
Proof. exact quote_injective. Qed.
Print Assumptions C15_quote_injective.

(* every directive of the zsh and bash scripts ends with a newline: no directive is glued to the
   next one *)
Theorem C15_zsh_lines : forall items ops l, nl_terminated (render_zsh items ops l).
Proof. exact render_zsh_lines. Qed.
Theorem C15_bash_lines : forall items ops l, nl_terminated (render_bash items ops l).
Proof. exact render_bash_lines. Qed.
Print Assumptions C15_zsh_lines.
Print Assumptions C15_bash_lines.

(* every requested shell completer is rendered, whatever the number of candidates *)
Theorem C15_zsh_keeps_completers :
  forall items ops l, (is_nil items && is_nil ops = false) ->
    exists rest, render_zsh items ops l = flat_map zsh_op ops ++ rest.
Proof. exact render_zsh_keeps_ops. Qed.
Theorem C15_bash_keeps_completers :
  forall items ops l, (is_nil items && is_nil ops = false) ->
    exists rest, render_bash items ops l = flat_map bash_op ops ++ rest.
Proof. exact render_bash_keeps_ops. Qed.
Print Assumptions C15_zsh_keeps_completers.
Print Assumptions C15_bash_keeps_completers.

(* with nothing to offer, the typed word is echoed back QUOTED *)
Theorem C15_zsh_typed_word_quoted : forall l, render_zsh [] [] l = line (s_compadd_dd ++ quote l).
Proof. exact render_zsh_nothing. Qed.
Theorem C15_bash_typed_word_quoted :
  forall l, render_bash [] [] l = line (s_compreply_open ++ quote l ++ [rparen]).
Proof. exact render_bash_nothing. Qed.
Print Assumptions C15_zsh_typed_word_quoted.
Print Assumptions C15_bash_typed_word_quoted.

Example C15_example :
  quote [36;40;120;41;39;59]%N = [39;36;40;120;41;39;92;39;39;59;39]%N /\
  unquote [39;36;40;120;41;39;92;39;39;59;39]%N = Some [36;40;120;41;39;59]%N /\
  unquote [36;40;120;41]%N = None.
Proof. repeat split; vm_compute; reflexivity. Qed.
