(* C16 -- Generated documentation is complete and well-formed.
   Property theorems only; proofs live in Lemmas/RoffLaws.v, Lemmas/HtmlLaws.v, Lemmas/HelpItems.v.
   Model/Docs.v (section extraction, the html and manpage documents, Doc::render_html, the Roff
   builder, escape, Doc::render_roff) is compared with the library on every run: documents token
   for token, HTML and manpage text byte for byte.  render_markdown is not modelled. *)
From Coq Require Import List NArith Bool.
From BpafModel Require Import Docs.
From BpafLemmas Require Import RoffLaws HtmlLaws HelpItems BalLaws.
Import ListNotations.

(* ---- manpage: for EVERY document (any help text, name, metavariable, title) and any `.TH`
   arguments, walking the output line by line never meets a line that begins with `.` or `'`
   unless that byte was written by bpaf as the start of a request (or is its fixed preamble) *)
Theorem C16_roff_control_lines :
  forall th d fs, render_roff_frags th d = Some fs ->
  exists r, chk true (roff_render_tagged fs) = Some r.
Proof. exact roff_control_lines. Qed.
Print Assumptions C16_roff_control_lines.

(* what `chk` accepting means, in words: any byte `.`/`'` that follows a newline (or starts the
   output) has origin OCtl *)
Theorem C16_roff_checker_meaning :
  forall out r r', chk r out = Some r' ->
  forall pre c o post, out = pre ++ (c, o) :: post ->
    (match rev pre with [] => r = true | (x, _) :: _ => x = 10%N end) ->
    (c = 46%N \/ c = 39%N) -> o = OCtl.
Proof. exact chk_sound. Qed.
Print Assumptions C16_roff_checker_meaning.

(* ---- manpage: user text is read back exactly by a reader of roff text that understands only
   \& \\ \- "\ " \*(Aq and REJECTS any other escape: nothing in a help text, a metavariable, a name
   (Special), an item term (SpecialNoNewline: newlines become spaces) or a request argument
   (Spaces: section titles, command paths, the application name) is interpreted as an escape *)
Theorem C16_roff_text_roundtrip :
  forall s a, unroff (untag (fst (esc_bytes ESpecial a s))) = Some s.
Proof. exact special_roundtrip. Qed.
Print Assumptions C16_roff_text_roundtrip.

Theorem C16_roff_term_roundtrip :
  forall s a, unroff (untag (fst (esc_bytes ESpecialNoNl a s))) = Some (map nl_to_sp s).
Proof. exact special_nonl_roundtrip. Qed.
Print Assumptions C16_roff_term_roundtrip.

Theorem C16_roff_argument_roundtrip :
  forall s a, unroff (untag (fst (esc_bytes ESpaces a s))) = Some (map nl_to_sp s).
Proof. exact spaces_roundtrip. Qed.
Print Assumptions C16_roff_argument_roundtrip.

(* ---- HTML: the tags a reader of the bytes sees are exactly the renderer's own; user text never
   opens, closes or breaks a tag *)
Theorem C16_html_tags_exact :
  forall evs, html_tags (html_bytes evs) = Some (flat_map ev_tags evs).
Proof. exact html_tags_exact. Qed.
Print Assumptions C16_html_tags_exact.

(* ---- HTML: balanced blocks in, well-nested tags out.  PARTIAL: that the documents bpaf builds
   have balanced blocks is checked on every document of every run (oracle), not proved *)
Theorem C16_html_well_nested_partial :
  forall full d evs, bal [] d = true -> render_html_events full d = Some evs -> wn [] evs = Some [].
Proof. exact html_well_nested. Qed.
Print Assumptions C16_html_well_nested_partial.

(* ---- the documents bpaf builds ARE balanced, for every parser definition whose own documents (help
   texts, group titles, custom usage, description, header, footer: `odok`) are, and hold neither Block::Meta
   nor Block::TermRef -- the Doc API can build no others.  So the hypothesis of the theorem above is met by the HTML document of every parser, the
   renderers `succeed for every parser` as far as the document is concerned (section extraction never runs
   out of fuel, the group loop of write_help_item_groups terminates), and the same holds for the manpage
   document and for --help *)
Theorem C16_html_document_total_balanced :
  forall env app o, odok o ->
  exists d, collect_html env app (ometa_of o) (oinfo_of o) = Some d /\ bal [] d = true.
Proof. exact html_document_total_balanced. Qed.
Print Assumptions C16_html_document_total_balanced.

Theorem C16_manpage_document_total_balanced :
  forall env app o, odok o ->
  exists d, manpage_doc env app (ometa_of o) (oinfo_of o) = Some d /\ bal [] d = true.
Proof. exact manpage_document_total_balanced. Qed.
Print Assumptions C16_manpage_document_total_balanced.

(* ---- `render_html`, `render_markdown` and `render_manpage` succeed for every parser: the documents exist (above) and hold
   no block their renderer cannot handle -- Block::Meta is `todo!()` in the HTML renderer, Block::TermRef in
   the roff one; neither can come from a user's Doc, and bpaf's own writers put Meta only into the manpage *)
Theorem C16_render_html_succeeds :
  forall env app o full, odok o ->
  exists d html, collect_html env app (ometa_of o) (oinfo_of o) = Some d /\ render_html full d = Some html.
Proof. exact render_html_returns. Qed.
Print Assumptions C16_render_html_succeeds.

(* `render_markdown` renders the document `render_html` renders; its only panic site is Block::Meta too *)
Theorem C16_render_markdown_succeeds :
  forall env app o full, odok o ->
  exists d md, collect_html env app (ometa_of o) (oinfo_of o) = Some d /\ render_markdown full d = Some md.
Proof. exact render_markdown_returns. Qed.
Print Assumptions C16_render_markdown_succeeds.

Theorem C16_render_manpage_succeeds :
  forall env app o, odok o ->
  exists d man, manpage_doc env app (ometa_of o) (oinfo_of o) = Some d /\ render_roff (manpage_th app) d = Some man.
Proof. exact render_manpage_returns. Qed.
Print Assumptions C16_render_manpage_succeeds.

(* ---- HTML, full statement: for every parser, every tag of the generated page is closed by its own kind *)
Theorem C16_html_well_nested :
  forall env app o full d evs, odok o ->
  collect_html env app (ometa_of o) (oinfo_of o) = Some d ->
  render_html_events full d = Some evs -> wn [] evs = Some [].
Proof. exact html_well_nested_parser. Qed.
Print Assumptions C16_html_well_nested.

(* ---- completeness: each section lists, through the very function --help uses, exactly the
   visible leaves of its command level (C12_items_exact); restated for the section metadata *)
Theorem C16_section_items_exact :
  forall p no_subsections, reals (append_go (meta_of p) no_subsections []) = vis p.
Proof. exact help_items_exact. Qed.
Print Assumptions C16_section_items_exact.

(* non-vacuity of `odok`: a subcommand tree with help texts, a group title and a styled help Doc that
   embeds another one *)
Example C16_example_odok :
  let t (s : list N) : doc := [TText SText s] in
  let sub := Options (PGroupHelp (PFlag (mkNamed [120%N] [] [] (Some (t [104%N]))) VUnit (Some VUnit)) (t [71; 10; 98]%N))
                     default_info in
  let o := Options (PCon (PCons (PArg (mkNamed [] [[110; 97]%N] [] (Some ([TText SText [97%N]; TStart BInlineBlock;
                                         TText SLiteral [98%N]; TEnd BInlineBlock]))) [78%N] TyString false)
                         (PCons (PCmd [99%N] [] [] (Some (t [99%N])) false sub) PNil))) default_info in
  odok o /\ exists d, collect_html (fun _ => None) [97%N] (ometa_of o) (oinfo_of o) = Some d /\ bal [] d = true.
Proof.
  cbv zeta. split.
  - cbn. repeat split; try exact I; try (intros st; reflexivity); reflexivity.
  - eexists. split; vm_compute; reflexivity.
Qed.

(* non-vacuity: a help text that begins with `.so` on its second line, inside a block *)
Example C16_example :
  let d := [TStart BBlock; TText SText [97; 10; 46; 115; 111; 32; 47; 120]%N; TEnd BBlock] in
  render_roff [[97]%N] d =
    Some (preamble ++ [46;84;72;32;97;10; 46;80;80;10; 92;102;82; 97;10; 92;38;46;115;111;32;47;120; 92;102;80]%N)
  /\ bal [] d = true.
Proof. vm_compute. split; reflexivity. Qed.
