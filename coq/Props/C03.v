(* C03 -- Order of named options is irrelevant.
   Property theorems only; proofs live in Lemmas/.
   FULL STATEMENT (kept visible; not proved as a single theorem -- decided by the metamorphic oracle
   and the differential run, see DESIGN.md 4/C03):
     for every `any`-free, adjacent-free parser p and vectors argv, argv' related by a permutation
     of whole named occurrences that keeps the order of occurrences feeding one field and of the
     positionals and crosses neither `--` nor a command name,
       run_inner p argv  and  run_inner p argv'  agree in class and value.
   What is proved: the two mechanisms the statement rests on. *)
From BpafLemmas Require Import Tac Find TokLaws NoLoss OrderLaws.

(* (1) tokenisation is local: reordering whole occurrences reorders their token groups and changes
       nothing else *)
Theorem C03_tokens_swap_partial :
  forall sf sa pre a b post tp ta tb tq,
    pre_tokens sf sa pre = Some tp -> pre_tokens sf sa a = Some ta ->
    pre_tokens sf sa b = Some tb -> pre_tokens sf sa post = Some tq ->
    pre_tokens sf sa (pre ++ a ++ b ++ post) = Some (tp ++ ta ++ tb ++ tq) /\
    pre_tokens sf sa (pre ++ b ++ a ++ post) = Some (tp ++ tb ++ ta ++ tq).
Proof. exact tokens_swap_middle. Qed.
Print Assumptions C03_tokens_swap_partial.

(* (2) named consumers search the whole scope: a matching live item is found wherever it stands,
       and the leftmost one is taken *)
Theorem C03_named_found_anywhere_partial :
  forall n s ix a st,
    lenwf s -> in_scope s ix = true -> nth_error (items s) ix = Some a -> ist_at s ix = Some st ->
    present st = true -> matches_arg n false a = true -> exists s', take_flag n s = Some s'.
Proof. exact take_flag_anywhere. Qed.
Print Assumptions C03_named_found_anywhere_partial.

Theorem C03_leftmost_taken_partial :
  forall s f ix, find_item s f = Some ix ->
    forall jx a st, sc_start s <= jx < ix -> nth_error (items s) jx = Some a -> ist_at s jx = Some st ->
                    present st = true -> f jx a = false.
Proof. exact find_item_leftmost. Qed.
Print Assumptions C03_leftmost_taken_partial.

(* (3) what a flag returns does not depend on the position of the item *)
Theorem C03_flag_value_position_free_partial :
  forall e n p a s s', take_flag n s = Some s' -> eval_flag e n p a s = (ROk p, s').
Proof. exact flag_value_position_free. Qed.
Print Assumptions C03_flag_value_position_free_partial.

(* (4) positional consumers skip named items *)
Theorem C03_positional_skips_named_partial :
  forall s ix strict w s', take_positional_word s = Some (ix, strict, w, s') ->
    (nth_error (items s) ix = Some (Word w) /\ strict = false) \/
    (nth_error (items s) ix = Some (PosWord w) /\ strict = true).
Proof. exact positional_skips_named. Qed.
Print Assumptions C03_positional_skips_named_partial.

Example C03_example :
  let p := PCon (PCons (PFlag (mkNamed [97%N] [] [] None) (VBool true) (Some (VBool false)))
                (PCons (PArg (mkNamed [110%N] [] [] None) [78%N] TyString false)
                (PCons (PPos [80%N] TyString Unrestricted None) PNil))) in
  let o := Options p default_info in
  run_inner (mkFeat true true false) (fun _ => None) o None [[45;97]%N; [45;110]%N; [120]%N; [119]%N] =
  run_inner (mkFeat true true false) (fun _ => None) o None [[119]%N; [45;110]%N; [120]%N; [45;97]%N].
Proof. vm_compute. reflexivity. Qed.

(* For the conventional flat levels the general statement holds: the outcome depends on the vector
   only through, for every item, the sequence of ITS occurrences, and the sequence of positional
   words -- any two vectors with the same reading are accepted with the same value (Conv.denote is
   the reading; C01_sentences_accepted_flat ties it to the evaluator). *)
From BpafModel Require Import Conv.
From BpafLemmas Require Import AbsSim ConvRefine ConvTotal.
Theorem C03_order_irrelevant_flat :
  forall feat env items tail argv1 argv2 sf sa a1 a2 v,
  flat_ok items tail ->
  short_tables (compile_options (Level items tail)) = (sf, sa) ->
  t_ambiguity (tokenize sf sa argv1) = None -> t_ambiguity (tokenize sf sa argv2) = None ->
  scan items [] tail (mark_tokens (tokenize sf sa argv1)) = ScDone a1 ->
  scan items [] tail (mark_tokens (tokenize sf sa argv2)) = ScDone a2 ->
  same_reading a1 a2 ->
  denote (Level items tail) argv1 = Accept v ->
  run_inner feat env (compile_options (Level items tail)) None argv1 = OutOk v /\
  run_inner feat env (compile_options (Level items tail)) None argv2 = OutOk v.
Proof. exact order_irrelevant_flat. Qed.
Print Assumptions C03_order_irrelevant_flat.

(* For whole conventional subcommand trees the outcome of a specified vector is a function of what
   the grammar reads from it (C01_conformance): two vectors the grammar reads alike -- in particular
   a vector and any permutation of its named occurrences that `denote` does not distinguish -- are
   both accepted with the same value, or both reported on stderr. *)
From BpafLemmas Require Import ConvChain ConvTree ConvTreeSound ConvStderr.
Theorem C03_outcome_depends_on_reading_tree :
  forall feat env l argv1 argv2,
  tree_ok l -> plain_cmds l = true ->
  denote l argv1 = denote l argv2 -> denote l argv1 <> Unspecified ->
  (exists v, run_inner feat env (compile_options l) None argv1 = OutOk v /\
             run_inner feat env (compile_options l) None argv2 = OutOk v) \/
  (exists m1 m2, run_inner feat env (compile_options l) None argv1 = OutStderr m1 /\
                 run_inner feat env (compile_options l) None argv2 = OutStderr m2).
Proof.
  intros feat env l argv1 argv2 Hok Hpl E Hs.
  destruct (denote l argv1) as [v| |] eqn:D1; [left|right|contradiction Hs; reflexivity].
  - exists v. split; apply denote_accept_tree; auto.
  - symmetry in E. destruct (denote_reject_stderr_tree feat env l argv1 Hok Hpl D1) as [m1 H1].
    destruct (denote_reject_stderr_tree feat env l argv2 Hok Hpl E) as [m2 H2]. eauto.
Qed.
Print Assumptions C03_outcome_depends_on_reading_tree.
