(* C17 -- Derive and combinatoric APIs define the same parser.
   Property theorems only; proofs live in Lemmas/DeriveLaws.v.
   PARTIAL by nature: the proc-macro (syn-level Rust) is not modelled.  Model/Derive.v states the
   documented rules -- implicit consumer and shape from the field type, implicit kebab-case naming,
   what each explicit annotation overrides -- as a function from a field definition to the
   combinator plan; the check prints the hand-written parser FROM THAT PLAN (extracted) and compares
   it with the real #[derive(Bpaf)] output on every run.  The theorems are about the rules. *)
From Coq Require Import List Bool NArith.
From BpafModel Require Import Derive.
From BpafLemmas Require Import DeriveLaws.
Import ListNotations.

(* a derived long name never contains an upper-case ASCII letter or an underscore *)
Theorem C17_kebab_alphabet :
  forall s b, forallb kebab_char_ok (kebab_go s b) = true.
Proof. exact kebab_alphabet. Qed.
Print Assumptions C17_kebab_alphabet.

Theorem C17_kebab_idempotent :
  forall s, to_kebab_case (to_kebab_case s) = to_kebab_case s.
Proof. exact kebab_idempotent. Qed.
Print Assumptions C17_kebab_idempotent.

(* distinct snake_case / lower-case field names get distinct long names *)
Theorem C17_kebab_injective_on_snake_case :
  forall a b ba bb, forallb snake_char a = true -> forallb snake_char b = true ->
  kebab_go a ba = kebab_go b bb -> a = b.
Proof. exact kebab_snake_injective. Qed.
Print Assumptions C17_kebab_injective_on_snake_case.

(* implicit rules: `name: bool / () / T / Option<T> / Vec<T>` -> switch / req_flag / argument,
   optional, many; long name = kebab-case of the field name; unnamed fields are positionals *)
Theorem C17_implicit_rules :
  forall i sh, (2 <= length i)%nat ->
  derive_field (mkField (Some i) sh [] None false None) =
  Some (mkPlan [] [to_kebab_case i] []
               (match sh with ShBool => KSwitch | ShUnit => KReqFlagK | _ => KArgumentK default_metavar end)
               (match sh with ShOptional => [PoOptional] | ShMultiple => [PoMany] | _ => [] end) None).
Proof. exact implicit_rules. Qed.
Print Assumptions C17_implicit_rules.

Theorem C17_unnamed_is_positional :
  forall sh, sh <> ShBool -> sh <> ShUnit ->
  derive_field (mkField None sh [] None false None) =
  Some (mkPlan [] [] [] (KPositionalK default_metavar)
               (match sh with ShOptional => [PoOptional] | ShMultiple => [PoMany] | _ => [] end) None).
Proof. exact unnamed_is_positional. Qed.
Print Assumptions C17_unnamed_is_positional.

(* explicit annotations override exactly what they name *)
Theorem C17_names_override_only_names :
  forall i sh ns ns' c fb h p p',
  derive_field (mkField (Some i) sh ns c fb h) = Some p ->
  derive_field (mkField (Some i) sh ns' c fb h) = Some p' ->
  pl_cons p = pl_cons p' /\ pl_post p = pl_post p' /\ pl_help p = pl_help p'.
Proof. exact names_only_names. Qed.
Print Assumptions C17_names_override_only_names.

Theorem C17_doc_comment_is_only_help :
  forall i sh ns c fb h h' p,
  derive_field (mkField i sh ns c fb h) = Some p ->
  derive_field (mkField i sh ns c fb h') =
    Some (mkPlan (pl_short p) (pl_long p) (pl_env p) (pl_cons p) (pl_post p) h').
Proof. exact help_only_help. Qed.
Print Assumptions C17_doc_comment_is_only_help.

Example C17_example :
  to_kebab_case [111;117;116;112;117;116;70;105;108;101]%N = [111;117;116;112;117;116;45;102;105;108;101]%N /\
  to_kebab_case [109;97;120;95;100;101;112;116;104]%N = [109;97;120;45;100;101;112;116;104]%N /\
  pl_short (match derive_field (mkField (Some [118%N]) ShBool [] None false None) with Some p => p | None => mkPlan [] [] [] KSwitch [] None end) = [118%N].
Proof. vm_compute. repeat split; reflexivity. Qed.

(* The doc comment of an `options` / `command` type (Model/Derive.v doc_blocks / options_help: blocks cut at double
   empty lines; description / header / footer): an explicit descr(..) / header(..) / footer(..) annotation overrides
   EXACTLY the part it names -- that part becomes the annotation, every other part depends on the doc comment and its
   own annotation only. *)
Theorem C17_options_annotation_overrides_its_part :
  forall doc d h f,
    (forall x, d = Some x -> fst (fst (options_help doc d h f)) = Some x) /\
    (forall x, h = Some x -> snd (fst (options_help doc d h f)) = Some x) /\
    (forall x, f = Some x -> snd (options_help doc d h f) = Some x).
Proof. exact options_help_explicit. Qed.
Print Assumptions C17_options_annotation_overrides_its_part.

Theorem C17_options_annotation_overrides_only_its_part :
  forall doc d h f d' h' f',
    fst (fst (options_help doc d h f)) = fst (fst (options_help doc d h' f')) /\
    snd (fst (options_help doc d h f)) = snd (fst (options_help doc d' h f')) /\
    snd (options_help doc d h f) = snd (options_help doc d' h' f).
Proof. exact options_help_local. Qed.
Print Assumptions C17_options_annotation_overrides_only_its_part.

(* three blocks "a", "b\n\nc" (a single empty line stays inside a block), then an empty block and "d" *)
Example C17_example_blocks :
  doc_blocks [97;10;10;10;98;10;10;99;10;10;10;10;10;100]%N = [[97]; [98; 10; 10; 99]; []; [100]]%N.
Proof. reflexivity. Qed.
