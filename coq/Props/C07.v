(* C07 -- Alternatives are exclusive and chosen by what the user typed.
   Property theorems only; proofs live in Lemmas/. *)
From Coq Require Import Sorted.
From BpafLemmas Require Import TotalLaws.
From BpafLemmas Require Import Tac Reach Ledger NoLoss C05Lemmas OkReach OkLaws PickLaws ManyOrder ManyOrderList.

(* The decision rule of `a.or_else(b)` / construct!([a, b]) as a function of what the two forks did. *)
Theorem C07_deeper_wins :
  forall ra rb s sa sb, depth sa < depth sb ->
    this_or_that ra rb s sa sb = (match rb with RErr e => inr e | _ => inl false end, sb).
Proof. exact deeper_wins. Qed.
Theorem C07_deeper_wins_left :
  forall ra rb s sa sb, depth sb < depth sa ->
    this_or_that ra rb s sa sb = (match ra with RErr e => inr e | _ => inl true end, sa).
Proof. exact deeper_wins_left. Qed.
Theorem C07_only_success_wins :
  forall va e s sa sb, depth sa = depth sb ->
    this_or_that (ROk va) (RErr e) s sa sb = (inl true, sa) /\
    this_or_that (RErr e) (ROk va) s sa sb = (inl false, sb).
Proof. exact only_success_wins. Qed.
Theorem C07_both_fail :
  forall ea eb s sa sb, depth sa = depth sb ->
    this_or_that (RErr ea) (RErr eb) s sa sb = (inr (combine_with ea eb), s).
Proof. exact both_fail. Qed.
Theorem C07_both_succeed :
  forall va vb s sa sb, depth sa = depth sb ->
    this_or_that (ROk va) (ROk vb) s sa sb =
    (if Nat.eqb (remaining s) (remaining sa) && Nat.eqb (remaining s) (remaining sb)
     then (inl true, sa)
     else match pick_winner sa sb with
          | (true, Some w) => (inl true, save_conflicts sa sb w)
          | (true, None) => (inl true, sa)
          | (false, Some w) => (inl false, save_conflicts sb sa w)
          | (false, None) => (inl false, sb)
          end).
Proof. exact both_succeed. Qed.
Print Assumptions C07_deeper_wins.
Print Assumptions C07_only_success_wins.
Print Assumptions C07_both_fail.
Print Assumptions C07_both_succeed.

(* "the one whose item appears leftmost wins, ties going to the alternative listed first":
   pick_winner returns the first index at which exactly one fork consumed the item, and the fork
   that consumed it; with no such index, the first fork. *)
Theorem C07_leftmost_wins :
  forall sa sb b r, pick_winner sa sb = (b, r) ->
    match r with
    | Some j =>
      (forall k, k < j -> forall x y, nth_error (ist sa) k = Some x -> nth_error (ist sb) k = Some y ->
                                      parsed x = parsed y) /\
      (exists x y, nth_error (ist sa) j = Some x /\ nth_error (ist sb) j = Some y /\
                   parsed x = b /\ parsed y = negb b)
    | None => b = true
    end.
Proof. exact pick_winner_spec. Qed.
Print Assumptions C07_leftmost_wins.

(* the loser's consumed items are remembered as conflicts -- and stay LIVE, so that a later
   `Unconsumed` check reports them instead of ignoring them *)
Theorem C07_conflicts_marked :
  forall win winner loser i w l,
    nth_error winner i = Some w -> nth_error loser i = Some l ->
    nth_error (save_conflicts_go win winner loser) i =
    Some (if present w && parsed l then Conflict win else w).
Proof. exact conflicts_marked. Qed.
Print Assumptions C07_conflicts_marked.

(* the value is the value of one of the two forks *)
Theorem C07_returns_a_branch :
  forall eva evb s v s', or_body eva evb s = (ROk v, s') -> fst (eva s) = ROk v \/ fst (evb s) = ROk v.
Proof. exact or_returns_a_branch. Qed.
Print Assumptions C07_returns_a_branch.

(* Exclusive: for ANY two parsers a and b, if the line holds an item that only consumers of `a`
   accept and an item that only consumers of `b` accept, the choice cannot yield a value. *)
Theorem C07_exclusive :
  forall env a b inf s i j ti tj,
    pkinds_ok (fun k => accepts k tj = false) a ->
    pkinds_ok (fun k => accepts k ti = false) b ->
    lenwf s -> full_scope s ->
    nth_error (items s) i = Some ti -> live s i ->
    nth_error (items s) j = Some tj -> live s j ->
    forall v s', run_sub env (Options (POr a b) inf) s <> (SOk v, s').
Proof. exact or_exclusive. Qed.
Print Assumptions C07_exclusive.

(* "wrapped in many / some the collected values follow command-line order" -- one round of the repetition: a choice
   between two required flags (different names, no environment variables) whose leftmost available occurrences stand
   at i and j takes the item at min i j and yields the value of the flag that owns it; the other fork's item stays
   available, marked as a conflict, for the next round.  The rounds therefore consume the occurrences from left to
   right whichever flag they belong to (the whole list: C07_repeated_choice_in_line_order below).  PARTIAL: alternatives
   that are not single flags are decided by the oracle (collected values vs command-line order) *)
Theorem C07_repeated_choice_takes_leftmost_partial :
  forall env na va nb vb s i j x y,
    n_env na = [] -> n_env nb = [] ->
    find_item s (fun _ a => matches_arg na false a) = Some i ->
    find_item s (fun _ a => matches_arg nb false a) = Some j ->
    i <> j -> ist_at s i = Some x -> ist_at s j = Some y -> 1 <= remaining s ->
    or_body (eval_flag env na va None) (eval_flag env nb vb None) s =
    if Nat.ltb i j
    then (ROk va, save_conflicts (sremove (KFlag na) i s) (sremove (KFlag nb) j s) i)
    else (ROk vb, save_conflicts (sremove (KFlag nb) j s) (sremove (KFlag na) i s) j).
Proof. exact choice_takes_leftmost. Qed.
Print Assumptions C07_repeated_choice_takes_leftmost_partial.

(* ... and the whole list: `many` over a choice between two required flags with different names (no environment
   variables) returns a list whose values, read from the head, were taken from STRICTLY INCREASING positions of the line
   -- every one an available in-scope occurrence of one of the two names -- each value being the one of the flag whose
   consumer took that position; the consumption log records exactly these rounds (ManyOrderList.v).  For alternatives
   that are not single flags the order is decided by the oracle. *)
Theorem C07_repeated_choice_in_line_order :
  forall env na nb va vb,
    n_env na = [] -> n_env nb = [] -> flag_item na <> None -> flag_item nb <> None ->
    (forall a, matches_arg na false a = true -> matches_arg nb false a = false) ->
    forall s vs s',
      G s -> many_body (ev env na nb va vb) false s = (ROk (VList vs), s') ->
      exists es, log s' = rev es ++ log s /\ Forall2 (own na nb va vb) vs es /\
                 StronglySorted (fun a b => fst a < fst b) es /\ Forall (fun e => cand na nb s (fst e)) es.
Proof. exact many_choice_in_line_order. Qed.
Print Assumptions C07_repeated_choice_in_line_order.

Example C07_example :
  let a := PFlag (mkNamed [97%N] [] [] None) (VNum 1) None in
  let b := PFlag (mkNamed [98%N] [] [] None) (VNum 2) None in
  (exists m, run_inner (mkFeat true true false) (fun _ => None) (Options (POr a b) default_info) None
               [[45;97]%N; [45;98]%N] = OutStderr m) /\
  run_inner (mkFeat true true false) (fun _ => None) (Options (PMany (POr a b) false) default_info) None
            [[45;98]%N; [45;97]%N; [45;98]%N] = OutOk (VList [VNum 2; VNum 1; VNum 2]).
Proof. split; [eexists|]; vm_compute; reflexivity. Qed.
