(* HelpOrder.v -- the help document is assembled as
     description ; usage block ; header ; item lists ; footer
   in that order (C12).  The Doc builder merges adjacent text chunks of one style, so "appends"
   is not literally true of `dwrite`; what is true is that a CLOSED prefix -- one that does not end
   in a text chunk -- is never touched again.  Every writer of Model/Help.v preserves closed
   prefixes. *)
From Coq Require Import Lia List Bool NArith.
From BpafModel Require Import Help Eval.
From BpafLemmas Require Import HelpItems.
Import ListNotations.

Definition closed (d : doc) : Prop :=
  match rev d with TText _ _ :: _ => False | _ => True end.
Definition Ext (pre d : doc) : Prop := exists suf, d = pre ++ suf.

Lemma closed_snoc_start d b : closed (d ++ [TStart b]).
Proof. unfold closed. rewrite rev_app_distr. exact I. Qed.
Lemma closed_snoc_end d b : closed (d ++ [TEnd b]).
Proof. unfold closed. rewrite rev_app_distr. exact I. Qed.
Lemma closed_nil : closed [].
Proof. exact I. Qed.

Lemma ext_refl pre : Ext pre pre.
Proof. exists []. rewrite app_nil_r. reflexivity. Qed.
Lemma ext_app pre d x : Ext pre d -> Ext pre (d ++ x).
Proof. intros [suf ->]. exists (suf ++ x). rewrite app_assoc. reflexivity. Qed.
Lemma ext_trans a b c : Ext a b -> Ext b c -> Ext a c.
Proof. intros [x ->] [y ->]. exists (x ++ y). rewrite app_assoc. reflexivity. Qed.

Section Keep.
Variable pre : doc.
Hypothesis C : closed pre.

Lemma ext_dwrite d st s : Ext pre d -> Ext pre (dwrite d st s).
Proof.
  intros [suf ->]. destruct suf as [|x suf'] using rev_ind.
  - rewrite app_nil_r. unfold dwrite. unfold closed in C.
    destruct (rev pre) as [|[st' s'|b|b] r] eqn:E; try (exfalso; exact C); eexists; reflexivity.
  - clear IHsuf'. unfold dwrite. rewrite app_assoc, rev_app_distr. cbn [rev app].
    destruct x as [st' s'|b|b].
    + destruct (style_eqb st st').
      * cbn [rev]. rewrite rev_involutive. exists (suf' ++ [TText st (s' ++ s)]).
        rewrite app_assoc. reflexivity.
      * exists ((suf' ++ [TText st' s']) ++ [TText st s]). rewrite !app_assoc. reflexivity.
    + exists ((suf' ++ [TStart b]) ++ [TText st s]). rewrite !app_assoc. reflexivity.
    + exists ((suf' ++ [TEnd b]) ++ [TText st s]). rewrite !app_assoc. reflexivity.
Qed.

Lemma ext_dtok d t : Ext pre d -> Ext pre (dtok d t).
Proof. apply ext_app. Qed.
Lemma ext_dchar d st c : Ext pre d -> Ext pre (dchar d st c).
Proof. apply ext_dwrite. Qed.
Lemma ext_ddoc d b : Ext pre d -> Ext pre (ddoc d b).
Proof. apply ext_app. Qed.

Hint Resolve ext_dwrite ext_dtok ext_dchar ext_ddoc ext_app : ext.

Lemma ext_dem_doc d b : Ext pre d -> Ext pre (dem_doc d b).
Proof.
  intros H. unfold dem_doc. apply ext_dtok.
  destruct b as [|[[] p|bb|bb] rest]; auto 10 with ext.
  destruct (split_once_nl p) as [[a b]|]; auto 10 with ext.
Qed.

Lemma ext_dmetavar d mv : Ext pre d -> Ext pre (dmetavar d mv).
Proof. intros H. unfold dmetavar. destruct (forallb is_metavar_char mv); auto 10 with ext. Qed.

Lemma ext_dshortlong_usage d n : Ext pre d -> Ext pre (dshortlong_usage d n).
Proof. intros H. destruct n; cbn; auto 10 with ext. Qed.

Lemma ext_dshortlong_item d n : Ext pre d -> Ext pre (dshortlong_item d n).
Proof. intros H. destruct n; cbn; auto 10 with ext. Qed.

Hint Resolve ext_dem_doc ext_dmetavar ext_dshortlong_usage ext_dshortlong_item : ext.

Lemma ext_dwrite_item d i : Ext pre d -> Ext pre (dwrite_item d i).
Proof. intros H. destruct i; cbn [dwrite_item]; auto 10 with ext. Qed.
Hint Resolve ext_dwrite_item : ext.

Fixpoint wm_sep (s : bytes) (first : bool) (xs : list meta) (d : doc) : doc :=
  match xs with
  | [] => d
  | x :: t => wm_sep s false t (wm_go x (if first then d else dwrite d SText s))
  end.
Lemma wm_go_and xs d : wm_go (MAnd xs) d = wm_sep b_sp true xs d.
Proof. cbn [wm_go]. generalize true. revert d. induction xs as [|x t IH]; intros d b; cbn; [reflexivity|apply IH]. Qed.
Lemma wm_go_or xs d : wm_go (MOr xs) d = wm_sep b_bar true xs d.
Proof. cbn [wm_go]. generalize true. revert d. induction xs as [|x t IH]; intros d b; cbn; [reflexivity|apply IH]. Qed.

Lemma ext_wm_sep s xs : Forall (fun m => forall d, Ext pre d -> Ext pre (wm_go m d)) xs ->
  forall first d, Ext pre d -> Ext pre (wm_sep s first xs d).
Proof.
  induction 1 as [|x t Hx Ht IH]; intros first d H; cbn [wm_sep]; [exact H|].
  apply IH. apply Hx. destruct first; auto with ext.
Qed.

Lemma ext_wm_go m : forall d, Ext pre d -> Ext pre (wm_go m d).
Proof.
  induction m using meta_ind'; intros d0 H0.
  - rewrite wm_go_and. apply ext_wm_sep; assumption.
  - rewrite wm_go_or. apply ext_wm_sep; assumption.
  - cbn [wm_go]. auto 10 with ext.
  - cbn [wm_go]. auto 10 with ext.
  - cbn [wm_go]. auto.
  - cbn [wm_go]. auto with ext.
  - cbn [wm_go]. auto 10 with ext.
  - cbn [wm_go]. auto.
  - cbn [wm_go]. auto.
  - exact H0.
  - cbn [wm_go]. auto with ext.
  - cbn [wm_go]. auto 10 with ext.
Qed.

Lemma ext_dwrite_meta d m u : Ext pre d -> Ext pre (dwrite_meta d m u).
Proof. intros H. unfold dwrite_meta. apply ext_dtok, ext_wm_go, ext_dtok, H. Qed.

Lemma ext_dwrite_path path : forall d, Ext pre d -> Ext pre (dwrite_path d path).
Proof.
  unfold dwrite_path. induction path as [|p t IH]; intros d H; cbn [fold_left]; [exact H|].
  apply IH. auto with ext.
Qed.

Lemma ext_dbody d h : Ext pre d -> Ext pre (dbody d h).
Proof. intros H. destruct h; cbn [dbody]; auto 10 with ext. Qed.

Lemma ext_denv_line d a b e v : Ext pre d -> Ext pre (denv_line d a b e v).
Proof. intros H. unfold denv_line. destruct a, b; auto 10 with ext. Qed.

Hint Resolve ext_dwrite_meta ext_dwrite_path ext_dbody ext_denv_line : ext.

Variable env : bytes -> option bytes.

Lemma ext_write_help_item d it ie : Ext pre d -> Ext pre (write_help_item env d it ie).
Proof.
  intros H. destruct it; cbn [write_help_item]; auto 12 with ext.
  - destruct short; auto 12 with ext.
  - destruct env0; auto 12 with ext.
  - destruct env0; auto 12 with ext.
Qed.

Lemma ext_write_deduped items : forall d seen k ie, Ext pre d -> Ext pre (write_deduped env d items seen k ie).
Proof.
  induction items as [|it t IH]; intros d seen k ie H; cbn [write_deduped]; [exact H|].
  destruct (dedup_check seen k it) as [[keep seen'] k']. apply IH.
  destruct keep; [apply ext_write_help_item|]; exact H.
Qed.

Lemma ext_write_groups fuel : forall d items ie d' rest,
  write_groups env fuel d items ie = Some (d', rest) -> Ext pre d -> Ext pre d'.
Proof.
  induction fuel as [|f IH]; intros d items ie d' rest E H; cbn [write_groups] in E; [discriminate|].
  destruct (Help.position is_group_start items) as [a|]; [|inversion E; subst; exact H].
  destruct (Help.position is_group_end items) as [b|]; [|inversion E; subst; exact H].
  destruct (Nat.leb a b); [|discriminate].
  eapply IH; [exact E|]. apply ext_write_deduped, H.
Qed.

Lemma ext_write_help_items d items ty name ie : Ext pre d -> Ext pre (write_help_items env d items ty name ie).
Proof.
  intros H. unfold write_help_items. destruct (items_of_ty ty IBNo items); [exact H|].
  apply ext_dtok, ext_dtok, ext_write_deduped. auto 10 with ext.
Qed.

Lemma ext_write_help_item_groups d items ie d' :
  write_help_item_groups env d items ie = Some d' -> Ext pre d -> Ext pre d'.
Proof.
  unfold write_help_item_groups. intros E H.
  destruct (write_groups env (S (length items)) d items ie) as [[d1 rest]|] eqn:G; [|discriminate].
  inversion E; subst. repeat apply ext_write_help_items. eapply ext_write_groups; eauto.
Qed.
End Keep.

Lemma dblock_app d t : dblock d t = d ++ dblock [] t.
Proof. destruct t; cbn; [|rewrite app_nil_r; reflexivity]. unfold dtok, ddoc. cbn. rewrite <- !app_assoc. cbn. rewrite <- !app_assoc. reflexivity. Qed.

Lemma closed_dblock d t : closed d -> closed (dblock d t).
Proof. intros H. destruct t; cbn [dblock]; [apply closed_snoc_end|exact H]. Qed.

(* C12: the description, the usage block, the header, the item lists and the footer appear in this
   order; each of the three declared texts is a block of its own *)
Theorem render_help_order env path inf pm hm ie d :
  render_help env path inf pm hm ie = Some d ->
  exists usage items,
    d = dblock [] (i_descr inf) ++ ([TStart BBlock] ++ usage ++ [TEnd BBlock])
        ++ dblock [] (i_header inf) ++ items ++ dblock [] (i_footer inf).
Proof.
  unfold render_help. intros E.
  set (d0 := dblock [] (i_descr inf)) in *.
  set (d1 := dtok d0 (TStart BBlock)) in *.
  assert (C1 : closed d1) by apply closed_snoc_start.
  match type of E with context [dblock (dtok ?x (TEnd BBlock)) (i_header inf)] => set (d2 := x) in * end.
  assert (E2 : Ext d1 d2).
  { subst d2. destruct (i_usage inf).
    - apply ext_ddoc, ext_refl.
    - apply ext_dtok, ext_dwrite_meta; [exact C1|]. apply ext_dwrite_path; [exact C1|].
      apply ext_dtok. apply ext_dwrite; [exact C1|]. apply ext_dwrite; [exact C1|]. apply ext_refl. }
  destruct E2 as [usage E2].
  set (d3 := dblock (dtok d2 (TEnd BBlock)) (i_header inf)) in *.
  assert (C3 : closed d3) by (apply closed_dblock, closed_snoc_end).
  destruct (write_help_item_groups env d3 _ ie) as [d4|] eqn:G; [|discriminate].
  inversion E; subst d. clear E.
  destruct (ext_write_help_item_groups d3 C3 env d3 _ ie d4 G (ext_refl d3)) as [items ->].
  exists usage, items. rewrite dblock_app. subst d3. rewrite dblock_app. rewrite E2. subst d1. unfold dtok.
  rewrite <- !app_assoc. reflexivity.
Qed.
